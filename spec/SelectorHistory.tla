--------------------------- MODULE SelectorHistory ---------------------------
(***************************************************************************)
(* One parsed expression (a Selector, or a token tree) evaluated repeatedly *)
(* over a pool of dynamic contexts, in any order and multiplicity (C05).   *)
(*                                                                         *)
(* The specified result of an evaluation depends on the expression and on  *)
(* the context of THAT evaluation only: it equals what a freshly parsed    *)
(* expression returns on a fresh context.  Abstractly the expected output  *)
(* of Evaluate(c) is the label c itself ("the fresh result for c"); the    *)
(* harness projects each real output to the set of contexts whose fresh    *)
(* output it equals.  `hist` is the history of uses - the state the        *)
(* implementation must NOT have (caches on tokens, variables stored on     *)
(* inline-function tokens, tzinfo written into caller values...).          *)
(* The caller-visible inputs of every context (document text, variable     *)
(* values, namespace map) are part of the state and no action changes them.*)
(***************************************************************************)
EXTENDS Naturals, Sequences

CONSTANTS Contexts, MaxLen, MaxEdits
VARIABLES hist, out, inputs
vars == <<hist, out, inputs>>

(* hist: sequence of <<"eval", c>> / <<"edit", c>>.  inputs[c] = number of edits the CALLER has made to the document of c. *)
(* Only the caller changes inputs (action Edit); the expected output of an evaluation is the fresh result for the context  *)
(* in its CURRENT edit state - a parsed expression or Selector must not remember the tree it saw before.                   *)
Init == hist = <<>> /\ out = <<"none", 0>> /\ inputs = [c \in Contexts |-> 0]
Evaluate(c) == /\ Len(hist) < MaxLen
               /\ hist' = Append(hist, <<"eval", c>>)
               /\ out' = <<c, inputs[c]>>
               /\ UNCHANGED inputs
Edit(c) == /\ Len(hist) < MaxLen - 1            \* an edit is observable only by a later evaluation
           /\ hist # <<>>                        \* ... and matters only after an earlier one
           /\ inputs[c] < MaxEdits
           /\ \A d \in Contexts : d # c => inputs[d] = 0
           /\ hist' = Append(hist, <<"edit", c>>)
           /\ inputs' = [inputs EXCEPT ![c] = @ + 1]
           /\ UNCHANGED out
Next == \E c \in Contexts : Evaluate(c) \/ Edit(c)
Spec == Init /\ [][Next]_vars

Edits(c) == Len(SelectSeq(hist, LAMBDA h : h = <<"edit", c>>))
LastEval == LET idx == {i \in 1..Len(hist) : hist[i][1] = "eval"} IN
              IF idx = {} THEN 0 ELSE CHOOSE i \in idx : \A j \in idx : j <= i
EditsBefore(c, n) == Len(SelectSeq(SubSeq(hist, 1, n), LAMBDA h : h = <<"edit", c>>))
(* the output is a function of the context of the last evaluation and of the caller's edits up to then, of nothing else *)
OutputIsFresh == LastEval # 0 => out = <<hist[LastEval][2], EditsBefore(hist[LastEval][2], LastEval)>>
(* evaluations never change the caller-visible inputs: they change only through the caller's own edits *)
Pure == \A c \in Contexts : inputs[c] = Edits(c)
InputsNeverChange == [][(\E c \in Contexts : Edit(c)) \/ inputs' = inputs]_vars
=============================================================================
