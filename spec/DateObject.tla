------------------------------ MODULE DateObject ------------------------------
(***************************************************************************)
(* ONE value object used by several operations (property C11).             *)
(*                                                                         *)
(* DateChain replays every operation on a freshly written literal.  Here   *)
(* the state is a HISTORY: a date/time value is bound once (a variable of  *)
(* the caller, a for-binding, one Python object) and then used as the      *)
(* operand of several operations in a row.  XDM values are immutable: an   *)
(* operation never changes its operand (action property Immutable:         *)
(* obj' = obj for every operation), so each result is the same function of *)
(* obj no matter what was evaluated before (res is computed from obj       *)
(* alone).  The binding drives ONE real object along every path of the     *)
(* graph and compares every result and the operand itself after each use - *)
(* a memo kept on the object, a timezone set on the operand instead of a   *)
(* copy, or process-wide state (interned timezones) shows as a result that *)
(* depends on the history.                                                 *)
(*                                                                         *)
(*   obj  the bound value         res  the result of the last use          *)
(*   n    number of uses so far   (bounded by MaxUses)                     *)
(*                                                                         *)
(* The only action that changes obj is SetTZ: the caller assigns the       *)
(* `tzinfo` attribute of ITS OWN object (Python API), which relabels the   *)
(* local fields with another timezone; everything evaluated afterwards     *)
(* must see the new value.                                                 *)
(* The $timezone arguments contain offsets exactly 24 hours apart          *)
(* (-10:00 / +14:00, -12:00 / +12:00) in both orders along the paths.      *)
(***************************************************************************)
EXTENDS DateOps

CONSTANT MaxUses

VARIABLES obj, res, n
vars == <<obj, res, n>>

None == [st |-> "none"]

(* the bound values: <<kind, lexical year, <<month, day>>, time, timezone>> *)
ObjRaws == {
  <<"dateTime", 2000, <<1, 1>>, <<12, 0, 0, 0>>, NoTZ>>,
  <<"dateTime", 2000, <<1, 1>>, <<12, 0, 0, 0>>, 330>>,
  <<"dateTime", 10000, <<1, 1>>, <<0, 0, 0, 0>>, NoTZ>>,
  <<"dateTime", -820, <<3, 1>>, <<0, 0, 0, 0>>, -840>>,
  <<"dateTime", 1999, <<12, 31>>, <<23, 59, 59, 999999>>, 840>>,
  <<"date", 2000, <<1, 1>>, <<0, 0, 0, 0>>, NoTZ>>,
  <<"date", 1999, <<12, 31>>, <<0, 0, 0, 0>>, 840>>,
  <<"date", 10000, <<1, 1>>, <<0, 0, 0, 0>>, NoTZ>>,
  <<"time", 0, <<0, 0>>, <<12, 30, 15, 0>>, NoTZ>>,
  <<"time", 0, <<0, 0>>, <<0, 0, 0, 0>>, -30>> }
ObjOf(o) == ConstructV(Raw(o[1], o[2], o[3], o[4], o[5]))

UseDTD   == {D(FALSE, 0, 3600, 0), D(TRUE, 1, 0, 0)}             \* PT1H, -P1D
UseYMD   == {M(FALSE, 1)}
UseOther == {1, 7, 8}          \* 2000-02-29T12:30:15Z, 10000-01-01T00:00:00-09:30, 400000-03-01T12:30:15 (no timezone)
UseTZ    == {NoTZ, 300, -600, 840, 720, -720}                    \* -10:00 / +14:00 and -12:00 / +12:00 are 24 hours apart

ASSUME PrintT(<<"others", OthersTable>>)

Init == obj \in {ObjOf(o) : o \in ObjRaws} /\ res = None /\ n = 0

(* one use: obj stays what it is.  (Every action is a conjunction list of its own so that TLC labels
   the edges of the dumped graph with the action and its parameters.) *)
Tick == n < MaxUses /\ n' = n + 1 /\ obj' = obj
Add(r)   == /\ Tick
            /\ res' = AddDTDv(obj, r)
Sub(r)   == /\ Tick
            /\ res' = AddDTDv(obj, DurNeg(r))
AddYM(r) == /\ Tick /\ HasDate(obj)
            /\ res' = AddYMDv(obj, r)
Diff(i)  == /\ Tick
            /\ res' = DurState(DiffV(obj, OtherOf(obj.k, i)))
Cmp(i)   == /\ Tick
            /\ res' = [st |-> "cmp", r |-> CompareV(obj, OtherOf(obj.k, i))]
Adjust(tz)        == /\ Tick
                     /\ res' = AdjustV(obj, tz)
AdjustAdd(tz, r)  == /\ Tick
                     /\ res' = AddDTDv(AdjustV(obj, tz), r)
AdjustDiff(tz, i) == /\ Tick
                     /\ res' = DurState(DiffV(AdjustV(obj, tz), OtherOf(obj.k, i)))
AdjustCmp(tz, i)  == /\ Tick
                     /\ res' = [st |-> "cmp", r |-> CompareV(AdjustV(obj, tz), OtherOf(obj.k, i))]
AdjustImplAdd(r)  == /\ Tick
                     /\ res' = AddDTDv(AdjustV(obj, ImplicitTZ), r)
SetTZ(tz) == /\ n < MaxUses /\ n' = n + 1 /\ tz # obj.tz
             /\ obj' = [obj EXCEPT !.tz = tz] /\ res' = obj'

Next == \/ \E r \in UseDTD : Add(r)
        \/ \E r \in UseDTD : Sub(r)
        \/ \E r \in UseYMD : AddYM(r)
        \/ \E i \in UseOther : Diff(i)
        \/ \E i \in UseOther : Cmp(i)
        \/ \E tz \in UseTZ : Adjust(tz)
        \/ \E tz \in UseTZ, r \in {D(FALSE, 0, 3600, 0)} : AdjustAdd(tz, r)
        \/ \E tz \in UseTZ, i \in {1, 8} : AdjustDiff(tz, i)
        \/ \E tz \in UseTZ, i \in {1} : AdjustCmp(tz, i)
        \/ \E r \in {D(FALSE, 0, 3600, 0)} : AdjustImplAdd(r)
        \/ \E tz \in {NoTZ, 300, -30} : SetTZ(tz)
Spec == Init /\ [][Next]_vars

---------------------------------------------------------------------------
(* values are immutable: only the caller's own assignment changes the bound value, and that
   assignment keeps the local fields *)
Immutable == [][\/ obj' = obj
                \/ /\ obj'.tz # obj.tz
                   /\ [obj' EXCEPT !.tz = obj.tz] = obj
                   /\ Local(obj') = Local(obj)
                   /\ res' = obj']_vars
(* the result does not depend on the history: it is the operation applied to the current obj *)
HistoryFree == [][(obj' = obj) =>
                    res' \in {AddDTDv(obj, r) : r \in UseDTD} \cup {AddDTDv(obj, DurNeg(r)) : r \in UseDTD}
                         \cup {AddYMDv(obj, r) : r \in UseYMD}
                         \cup {DurState(DiffV(obj, OtherOf(obj.k, i))) : i \in UseOther}
                         \cup {[st |-> "cmp", r |-> c] : c \in {-1, 0, 1}}
                         \cup {AdjustV(obj, tz) : tz \in UseTZ \cup {ImplicitTZ}}
                         \cup {AddDTDv(AdjustV(obj, tz), D(FALSE, 0, 3600, 0)) : tz \in UseTZ \cup {ImplicitTZ}}
                         \cup {DurState(DiffV(AdjustV(obj, tz), OtherOf(obj.k, i))) : tz \in UseTZ, i \in {1, 8}}]_vars
ObjLaws ==                                              \* INVARIANT
  /\ n \in 0..MaxUses
  /\ IsVal(obj) /\ WellFormed(obj) /\ LawRoundTrip(obj) /\ LawAdjust(obj)
  /\ \A tz \in UseTZ :                                   \* the result carries the requested timezone; the instant is kept
       LET w == AdjustV(obj, tz) IN
       /\ w.tz = tz
       /\ (obj.tz # NoTZ /\ tz # NoTZ /\ obj.k = "dateTime") => Utc(w) = Utc(obj)
       /\ (obj.tz # NoTZ /\ tz # NoTZ /\ obj.k = "dateTime") =>
             DiffV(AddDTDv(w, D(FALSE, 0, 3600, 0)), obj) = D(FALSE, 0, 3600, 0)
=============================================================================
