----------------------------- MODULE LangScope -----------------------------
(***************************************************************************)
(* Growth beyond the listed properties (DESIGN section 5): xml:lang         *)
(* scoping and fn:lang.                                                     *)
(*                                                                          *)
(* F&O 3.1, 14.4 fn:lang($testlang, $node): "The language of the node is    *)
(* the value of the xml:lang attribute of the node, or, if the node has no  *)
(* such attribute, of its NEAREST ANCESTOR that has one.  If there is no    *)
(* such ancestor the function returns false.  Otherwise it returns true     *)
(* iff the value equals $testlang ignoring case, or has $testlang (ignoring *)
(* case) as a prefix followed by a suffix that starts with '-'."            *)
(*                                                                          *)
(* A language tag is modelled as a sequence of SUBTAGS (strings without     *)
(* '-'; the binding joins them with '-'), so "equal, or prefix followed by  *)
(* '-'" is exactly "the subtag sequence of $testlang is a (case-folded)     *)
(* prefix of the subtag sequence of the value".  xml:lang="" is the empty   *)
(* sequence: it is an xml:lang attribute (it HIDES the outer language) and  *)
(* matches no non-empty test.                                               *)
(*                                                                          *)
(* The machine is the way an evaluator walks: it descends element by        *)
(* element (chain = the xml:lang settings from the outermost element to the *)
(* focus element, None = attribute absent) and carries the inherited        *)
(* language `cur` along; `res` is the answer table fn:lang gives from the   *)
(* focus.  The DEFINITIONAL reading (search the nearest ancestor-or-self    *)
(* with the attribute) is Nearest(chain); the laws say both agree.  The     *)
(* focus may then move to an attribute / text / comment / PI child of the   *)
(* focus element: fn:lang is the same from there (their nearest ancestor    *)
(* with xml:lang is found through the focus element).                       *)
(*                                                                          *)
(* Excluded (implementation-defined or outside F&O's wording): $testlang    *)
(* = "" and an xml:lang attribute node itself as context.                   *)
(***************************************************************************)
EXTENDS Naturals, Sequences, FiniteSets

CONSTANTS MaxDepth,      \* longest element chain
          Wide           \* TRUE: the larger value / test alphabets

VARIABLES chain, cur, kind, res
vars == <<chain, cur, kind, res>>

None == <<"#none">>       \* no xml:lang attribute on the element

(* case folding of the subtags used (ASCII letters only) *)
Fold(s) == CASE s \in {"en", "EN", "En", "eN"} -> "en"
             [] s \in {"us", "US", "Us"}       -> "us"
             [] s \in {"fr", "FR"}             -> "fr"
             [] s \in {"x", "X"}               -> "x"
             [] OTHER                          -> s

LangVals == IF Wide
            THEN {None, <<>>, <<"en">>, <<"EN">>, <<"eN">>, <<"en", "US">>, <<"EN", "us">>, <<"fr">>, <<"e">>,
                  <<"en", "us", "x">>, <<"enx">>, <<"us">>}
            ELSE {None, <<>>, <<"en">>, <<"EN", "us">>, <<"en", "US">>, <<"fr">>, <<"e">>, <<"enx">>}
Tests    == IF Wide
            THEN {<<"en">>, <<"EN">>, <<"En">>, <<"en", "us">>, <<"EN", "US">>, <<"fr">>, <<"e">>, <<"us">>, <<"en", "u">>,
                  <<"en", "us", "X">>, <<"enx">>, <<"x">>}
            ELSE {<<"en">>, <<"EN">>, <<"en", "us">>, <<"fr">>, <<"e">>, <<"us">>, <<"en", "u">>}
Kinds    == {"elem", "attr", "text", "comment", "pi"}

IsPrefixFolded(t, v) == /\ Len(t) <= Len(v)
                        /\ \A i \in 1..Len(t) : Fold(t[i]) = Fold(v[i])

Matches(v, t) == v # None /\ Len(t) >= 1 /\ IsPrefixFolded(t, v)

(* definitional: the nearest ancestor-or-self element that HAS the attribute *)
RECURSIVE Nearest(_)
Nearest(ch) == IF ch = <<>> THEN None
               ELSE IF ch[Len(ch)] # None THEN ch[Len(ch)]
               ELSE Nearest(SubSeq(ch, 1, Len(ch) - 1))

Table(v) == [t \in Tests |-> Matches(v, t)]

Init == /\ chain = <<>>          \* the focus is the document node (above an unmarked wrapper element)
        /\ cur = None
        /\ kind = "doc"
        /\ res = Table(None)

Descend(v) == /\ Len(chain) < MaxDepth
              /\ kind \in {"doc", "elem"}
              /\ chain' = Append(chain, v)
              /\ cur' = IF v = None THEN cur ELSE v      \* inherited unless re-declared ("" re-declares)
              /\ kind' = "elem"
              /\ res' = Table(cur')

Focus(k) == /\ kind = "elem"
            /\ k # "elem"
            /\ kind' = k
            /\ UNCHANGED <<chain, cur, res>>

Next == \/ \E v \in LangVals : Descend(v)
        \/ \E k \in Kinds : Focus(k)

Spec == Init /\ [][Next]_vars

---------------------------------------------------------------------------
TypeOK == /\ chain \in Seq(LangVals) /\ Len(chain) <= MaxDepth
          /\ cur \in LangVals
          /\ kind \in Kinds \cup {"doc"}
          /\ res \in [Tests -> BOOLEAN]

(* the walking evaluator answers what the definition says *)
InvDefinitional == res = Table(Nearest(chain))

(* ignoring case: tests with the same folded subtags get the same answer *)
InvCaseBlind == \A t1, t2 \in Tests :
                  (Len(t1) = Len(t2) /\ \A i \in 1..Len(t1) : Fold(t1[i]) = Fold(t2[i])) => res[t1] = res[t2]

(* a language range: every non-empty prefix (by subtags) of a matching test matches *)
InvPrefixClosed == \A t1, t2 \in Tests : (res[t1] /\ Len(t2) >= 1 /\ IsPrefixFolded(t2, t1)) => res[t2]

(* no language in scope (none declared, or hidden by xml:lang="") : nothing matches *)
InvNoLanguage == (Nearest(chain) \in {None, <<>>}) => \A t \in Tests : ~res[t]

(* the language itself always matches when it is a test *)
InvSelf == \A t \in Tests : (Nearest(chain) # None /\ Nearest(chain) # <<>> /\ IsPrefixFolded(t, Nearest(chain))) => res[t]
=============================================================================
