------------------------------- MODULE XTree -------------------------------
(***************************************************************************)
(* Abstract INPUT trees of property C02 and the DEFINITIONAL XDM image of  *)
(* such an input (what the XPath data model says the node tree must be).   *)
(*                                                                         *)
(* An input is what an ElementTree / lxml user hands to elementpath:        *)
(*   items 1..n in preorder; item 1 is the root element                    *)
(*   par[i]   parent item (0 for item 1)                                   *)
(*   knd[i]   "e" element | "c" comment | "p" processing instruction       *)
(*   txt[i]   element.text is not None          (elements only)            *)
(*   tl[i]    item.tail is not None             (never for item 1)         *)
(*   etx[i]   element.text is the EMPTY string ''   (implies txt[i])       *)
(*   etl[i]   item.tail is the EMPTY string ''      (implies tl[i])        *)
(*            i.e. the text / tail alphabet is {None, '', 't'}: only       *)
(*            programs, never parsers, produce '' chunks; the property     *)
(*            counts every non-None chunk, so '' is a text node too        *)
(*   nat[i]   number of attributes 0..2         (elements only)            *)
(*   decl[i]  set of prefixes DECLARED on the element ("" = default ns);   *)
(*            only lxml retains declarations, xml.etree drops them         *)
(*   pre,post document-level comment/PI siblings before / after the root   *)
(*            element (sequences over {"c","p"}; lxml only)                *)
(* and the configuration of the call                                       *)
(*   variant  "etree" | "lxml"                                             *)
(*   rootarg  "elem" (an Element is passed) | "tree" (an ElementTree)      *)
(*   fragment "none" | "true" | "false"     (the fragment= argument)       *)
(*   nsarg    set of prefixes of the namespaces= argument ("xml" may be in)*)
(*                                                                         *)
(* Implementation-defined points kept OUT of the universe (module header   *)
(* of engine/props/c02.py lists them too): xmlns="" undeclarations (lxml   *)
(* and libxml2 report a (None,'') binding),                                *)
(* the relative order of the namespace nodes / of the attributes of one    *)
(* element (compared as sets per element, positions must still be unique   *)
(* and inside the element's block).                                        *)
(***************************************************************************)
EXTENDS Naturals, Sequences, FiniteSets

VARIABLES variant, rootarg, fragment, nsarg, n, par, knd, txt, tl, etx, etl, nat, decl, pre, post
ivars == <<variant, rootarg, fragment, nsarg, n, par, knd, txt, tl, etx, etl, nat, decl, pre, post>>

---------------------------------------------------------------------------
(* The universe of inputs *)

RECURSIVE AncP(_, _)     \* ancestors of item i for a parent vector p with p[j] < j
AncP(p, i) == IF i = 0 \/ p[i] = 0 THEN {} ELSE {p[i]} \cup AncP(p, p[i])

ValidParents(m) ==
  {p \in [1..m -> 0..(m-1)] :
      /\ p[1] = 0
      /\ \A i \in 2..m : p[i] >= 1 /\ p[i] < i
      /\ \A i \in 2..m : p[i] = i-1 \/ p[i] \in AncP(p, i-1)}

InputInit(MaxItems, ItemKinds, TextOpts, TailOpts, EmptyOpts, AttrCounts, DeclOpts,
          Variants, RootArgs, Fragments, NsArgs, SibSeqs) ==
  /\ variant \in Variants
  /\ rootarg \in RootArgs
  /\ fragment \in Fragments
  /\ nsarg \in (IF variant = "lxml" THEN {x \in NsArgs : x \subseteq {"p"}} ELSE NsArgs)
                                   \* lxml ignores namespaces=: only {} and {"p"} are enumerated there
  /\ n \in 1..MaxItems
  /\ par \in ValidParents(n)
  /\ knd \in {k \in [1..n -> ItemKinds \cup {"e"}] :
                /\ k[1] = "e"
                /\ \A i \in 2..n : k[par[i]] = "e"}
  /\ txt \in {t \in [1..n -> BOOLEAN] : \A i \in 1..n : IF knd[i] = "e" THEN t[i] \in TextOpts ELSE t[i] = FALSE}
  /\ tl  \in {t \in [1..n -> BOOLEAN] : \A i \in 1..n : IF i = 1 THEN t[i] = FALSE ELSE t[i] \in TailOpts}
  /\ etx \in {t \in [1..n -> BOOLEAN] : \A i \in 1..n : IF txt[i] THEN t[i] \in EmptyOpts ELSE t[i] = FALSE}
  /\ etl \in {t \in [1..n -> BOOLEAN] : \A i \in 1..n : IF tl[i]  THEN t[i] \in EmptyOpts ELSE t[i] = FALSE}
  /\ nat \in {a \in [1..n -> 0..2] : \A i \in 1..n : IF knd[i] = "e" THEN a[i] \in AttrCounts ELSE a[i] = 0}
  /\ decl \in {d \in [1..n -> DeclOpts \cup {{}}] :
                 \A i \in 1..n : IF knd[i] = "e" /\ variant = "lxml" THEN d[i] \in DeclOpts ELSE d[i] = {}}
  /\ pre  \in (IF variant = "lxml" THEN SibSeqs ELSE {<<>>})
  /\ post \in (IF variant = "lxml" THEN SibSeqs ELSE {<<>>})

---------------------------------------------------------------------------
(* Reading the input *)

Items == 1..n
TextVal(i) == IF ~txt[i] THEN "none" ELSE IF etx[i] THEN "empty" ELSE "text"    \* None | '' | 't'
TailVal(i) == IF ~tl[i]  THEN "none" ELSE IF etl[i] THEN "empty" ELSE "text"
KidSet(i) == {j \in Items : par[j] = i}

RECURSIVE AscSeq(_)      \* a finite set of naturals as ascending sequence
AscSeq(S) == IF S = {} THEN <<>>
             ELSE LET m == CHOOSE a \in S : \A b \in S : a <= b
                  IN <<m>> \o AscSeq(S \ {m})

KidSeq(i) == AscSeq(KidSet(i))           \* items are in preorder: children in id order

(* in-scope namespace prefixes of element i, "xml" excluded:                *)
(*   xml.etree keeps no declarations: the namespaces= argument is, by the   *)
(*   documented convention, in scope on every element;                      *)
(*   lxml: the declarations of the element and of its ancestors.            *)
RECURSIVE DeclScope(_)
DeclScope(i) == IF i = 0 THEN {} ELSE decl[i] \cup DeclScope(par[i])
InScope(i) == (IF variant = "etree" THEN nsarg ELSE DeclScope(i)) \ {"xml"}
(* what the code sees as `nsmap` of the element (may contain "xml") *)
Nsmap(i) == IF variant = "etree" THEN nsarg ELSE DeclScope(i)
(* every element has the xml namespace node plus one per in-scope prefix *)
NsCount(i) == 1 + Cardinality(InScope(i))
NsPrefixes(i) == {"xml"} \cup InScope(i)

(* Does the node tree have a document node?  (docstring of get_node_tree)   *)
(*   fragment=True   never;   an ElementTree otherwise always;              *)
(*   an Element: only with fragment=False (dummy document), and for lxml    *)
(*   also when the root element has document-level siblings.                *)
HasSibs == pre # <<>> \/ post # <<>>
HasDoc ==
  CASE fragment = "true"  -> FALSE
    [] rootarg = "tree"   -> TRUE
    [] fragment = "false" -> TRUE
    [] OTHER              -> variant = "lxml" /\ HasSibs
(* document-level siblings are part of the tree iff there is a document *)
PreD  == IF HasDoc THEN pre  ELSE <<>>
PostD == IF HasDoc THEN post ELSE <<>>

---------------------------------------------------------------------------
(* The definitional image: XDM nodes as descriptors                        *)
(*   [k, src, sub]   k    "d" document, "e" element, "ns", "a" attribute,  *)
(*                        "t" text of src, "l" tail of src, "c", "p",      *)
(*                        "sc"/"sp" document-level comment/PI              *)
(*                   src  item id (0 for document-level things)            *)
(*                   sub  ordinal of the ns/attribute node inside the      *)
(*                        element's block; index of a document-level       *)
(*                        sibling (pre: 1..; post: 101..); else 0          *)

D(k, s, j) == [k |-> k, src |-> s, sub |-> j]
DocD == D("d", 0, 0)
SibD(kind, j) == D(IF kind = "c" THEN "sc" ELSE "sp", 0, j)

NsBlock(i)   == [j \in 1..NsCount(i) |-> D("ns", i, j)]
AttrBlock(i) == [j \in 1..nat[i]     |-> D("a", i, j)]
TextOf(i)    == IF TextVal(i) # "none" THEN <<D("t", i, 0)>> ELSE <<>>     \* one text node per non-None chunk,
TailOf(i)    == IF TailVal(i) # "none" THEN <<D("l", i, 0)>> ELSE <<>>     \* the empty string included

(* document order: the element, its namespace nodes, its attributes, then  *)
(* its children (text, child subtrees each followed by its tail)           *)
RECURSIVE DefElem(_), DefKids(_)
DefElem(i) == <<D("e", i, 0)>> \o NsBlock(i) \o AttrBlock(i) \o TextOf(i) \o DefKids(KidSeq(i))
DefKids(s) == IF s = <<>> THEN <<>>
              ELSE LET c == Head(s) IN
                   (IF knd[c] = "e" THEN DefElem(c) ELSE <<D(knd[c], c, 0)>>)
                     \o TailOf(c) \o DefKids(Tail(s))

DefSeq == (IF HasDoc THEN <<DocD>> ELSE <<>>)
          \o [j \in 1..Len(PreD) |-> SibD(PreD[j], j)]
          \o DefElem(1)
          \o [j \in 1..Len(PostD) |-> SibD(PostD[j], 100 + j)]

NoneD == D("none", 0, 0)
DefParent(x) ==
  CASE x.k = "d"                 -> NoneD
    [] x.k \in {"sc", "sp"}      -> DocD
    [] x.k \in {"ns", "a", "t"}  -> D("e", x.src, 0)
    [] x.k = "l"                 -> D("e", par[x.src], 0)
    [] x.k \in {"e", "c", "p"}   -> IF par[x.src] = 0 THEN (IF HasDoc THEN DocD ELSE NoneD)
                                    ELSE D("e", par[x.src], 0)

(* dm:children -- no attributes, no namespace nodes *)
RECURSIVE KidHeads(_)
KidHeads(s) == IF s = <<>> THEN <<>>
               ELSE LET c == Head(s) IN <<D(knd[c], c, 0)>> \o TailOf(c) \o KidHeads(Tail(s))
DefChildren(x) ==
  CASE x.k = "d" -> [j \in 1..Len(PreD) |-> SibD(PreD[j], j)] \o <<D("e", 1, 0)>>
                    \o [j \in 1..Len(PostD) |-> SibD(PostD[j], 100 + j)]
    [] x.k = "e" -> TextOf(x.src) \o KidHeads(KidSeq(x.src))
    [] OTHER     -> <<>>

(* dm:string-value as the sequence of the text chunks it concatenates      *)
(* (binding renders each chunk to a unique literal); for the leaf kinds the *)
(* node's own content                                                      *)
RECURSIVE TextsElem(_), TextsKids(_)
TextsElem(i) == TextOf(i) \o TextsKids(KidSeq(i))
TextsKids(s) == IF s = <<>> THEN <<>>
                ELSE LET c == Head(s) IN
                     (IF knd[c] = "e" THEN TextsElem(c) ELSE <<>>) \o TailOf(c) \o TextsKids(Tail(s))
DefStringValue(x) ==
  CASE x.k = "d" -> TextsElem(1)          \* text node descendants only: no comment / PI content
    [] x.k = "e" -> TextsElem(x.src)
    [] OTHER     -> <<x>>

(* rank = index in DefSeq *)
RankIn(S, x) == CHOOSE j \in 1..Len(S) : S[j] = x
RankOf(x) == RankIn(DefSeq, x)
SeqToSet(s) == {s[j] : j \in 1..Len(s)}

(* expected number of XDM nodes, counted independently of DefSeq *)
PerItem(i) == IF knd[i] = "e"
              THEN 1 + NsCount(i) + nat[i] + (IF txt[i] THEN 1 ELSE 0) + (IF tl[i] THEN 1 ELSE 0)
              ELSE 1 + (IF tl[i] THEN 1 ELSE 0)
RECURSIVE SumItems(_)
SumItems(S) == IF S = {} THEN 0 ELSE LET i == CHOOSE a \in S : TRUE IN PerItem(i) + SumItems(S \ {i})
ExpectedCount == SumItems(Items) + (IF HasDoc THEN 1 ELSE 0) + Len(PreD) + Len(PostD)

---------------------------------------------------------------------------
(* Laws of the definitional image itself (XDM 2.4 document order), checked *)
(* by TLC on every input of the universe before it is used as an oracle.   *)

RECURSIVE DAnc(_)     \* proper ancestors of a descriptor
DAnc(x) == LET p == DefParent(x) IN IF p = NoneD THEN {} ELSE {p} \cup DAnc(p)

DefLaws ==
  LET S == DefSeq
      M == Len(S)
      Rk(x) == RankIn(S, x)
      Par(a) == DefParent(S[a])
      Ch(a) == DefChildren(S[a])
      Below(a) == {c \in 1..M : S[a] \in DAnc(S[c])}      \* descendants (incl. ns / attribute nodes)
  IN
  /\ M = ExpectedCount                                         \* one node per input constituent
  /\ \A a, b \in 1..M : a # b => S[a] # S[b]                   \* no node twice
  /\ \A a \in 1..M : Par(a) = NoneD \/ (Par(a) \in SeqToSet(S) /\ Rk(Par(a)) < a)   \* parent first
  /\ \A a \in 1..M : \A u \in 1..Len(Ch(a)) : DefParent(Ch(a)[u]) = S[a]           \* children <-> parent
  /\ \A a \in 1..M : S[a].k \notin {"ns", "a"} /\ Par(a) # NoneD
                       => S[a] \in SeqToSet(DefChildren(Par(a)))
  /\ \A a \in 1..M : \A u, v \in 1..Len(Ch(a)) : u < v => Rk(Ch(a)[u]) < Rk(Ch(a)[v])   \* children in order
  /\ \A a \in 1..M : S[a].k = "e" =>                                            \* ns, then attrs, then children
        LET i == S[a].src IN
        /\ \A j \in 1..NsCount(i) : S[a + j] = D("ns", i, j)
        /\ \A j \in 1..nat[i] : S[a + NsCount(i) + j] = D("a", i, j)
        /\ \A u \in 1..Len(Ch(a)) : Rk(Ch(a)[u]) > a + NsCount(i) + nat[i]
  /\ \A a \in 1..M : Below(a) = (a + 1)..(a + Cardinality(Below(a)))           \* a subtree is contiguous: descendants
                                                                               \* before following nodes
  /\ Cardinality({a \in 1..M : Par(a) = NoneD}) = 1                            \* one root
=============================================================================
