----------------------------- MODULE AtomicPool -----------------------------
(***************************************************************************)
(* Property C03, atomic-value family.  Every atomic type of the XSD/XDM    *)
(* hierarchy (the 19 primitive types, the derived ones, xs:untypedAtomic,  *)
(* the xs:dayTimeDuration / xs:yearMonthDuration / xs:dateTimeStamp        *)
(* subtypes, and the special xs:double / xs:float values NaN, INF, -0) is  *)
(* put into every place where the processor hashes, compares, sorts,       *)
(* atomizes or passes an atomic value:                                     *)
(*   Uses1 - one value:  map key (constructor, map:entry/put/get/merge/    *)
(*           contains/remove/find, $m($k), $m?($k)), array member, operand *)
(*           of | union intersect except (a type error, never a Python     *)
(*           error), distinct-values, index-of, deep-equal, sort, min, max,*)
(*           argument of an inline function / dynamic call, string, data,  *)
(*           boolean, instance of, cast;                                   *)
(*   Uses2 - two values of ANY two types: general and value comparisons,   *)
(*           arithmetic, deep-equal, index-of, distinct-values, sort, min, *)
(*           two keys of one map, map:merge.                               *)
(* State = one use with its value type(s); Use1 / Use2 choose them.  The   *)
(* legal outcomes of every such expression are Outcome.tla's (value, or a  *)
(* coded error at parse time, or an ElementPathError at evaluation).       *)
(* The value literals and the use templates are the binding table of       *)
(* engine/props/c03.py (1:1 rendering).                                    *)
(***************************************************************************)
EXTENDS Naturals, FiniteSets, TLC

CONSTANTS Types,    \* the atomic types / special values in use (subset of AllTypes)
          Uses1,    \* one-slot uses in use
          Uses2,    \* two-slot uses in use
          NumValues, \* numeric values for the formatting functions (subset of AllNumValues)
          Pictures   \* picture strings, by name (subset of AllPictures)

AllTypes == {"string", "normalizedString", "token", "language", "NMTOKEN", "Name", "NCName", "ID", "IDREF",
             "ENTITY", "anyURI", "boolean", "decimal", "integer", "nonPositiveInteger", "negativeInteger",
             "long", "int", "short", "byte", "nonNegativeInteger", "unsignedLong", "unsignedInt",
             "unsignedShort", "unsignedByte", "positiveInteger", "float", "double", "date", "dateTime",
             "dateTimeStamp", "time", "duration", "yearMonthDuration", "dayTimeDuration", "gYear",
             "gYearMonth", "gMonth", "gMonthDay", "gDay", "hexBinary", "base64Binary", "QName",
             "untypedAtomic", "double-NaN", "double-INF", "double-negzero", "float-NaN"}

AllUses1 == {"map-key", "map-entry", "map-put", "map-get", "map-merge", "map-contains", "map-remove", "map-find",
             "map-call", "map-lookup", "map-keys", "array-member", "array-get-index", "union", "bar", "intersect",
             "except", "distinct-values", "index-of", "deep-equal", "sort", "sort-key", "min", "max", "sum", "avg",
             "inline-arg", "dynamic-call", "string", "data", "boolean", "instance-of", "cast-string", "self-eq",
             "string-join", "for-each", "filter", "predicate"}

AllUses2 == {"general-eq", "general-lt", "value-eq", "value-lt", "value-ne", "plus", "minus", "times", "div",
             "deep-equal2", "index-of2", "distinct-values2", "sort2", "min2", "two-keys", "map-merge2", "map-get2"}

(* fn:format-number($value, $picture [, $decimal-format-name]): every numeric boundary value x one     *)
(* picture per picture feature of F&O 3.1 4.7 (mandatory / optional digits, grouping, fraction, percent, *)
(* per-mille, exponent (3.1), sub-pictures, prefix / suffix, a named decimal format, malformed).         *)
AllNumValues == {"zero", "one", "minus-one", "decimal", "small", "large", "integer-huge", "double", "double-huge",
                 "double-tiny", "INF", "minus-INF", "NaN", "minus-zero", "float-INF", "empty"}
AllPictures == {"digit", "optional", "grouping", "fraction", "optional-fraction", "percent", "per-mille", "exponent",
                "exponent-wide", "exponent-optional", "sub-pictures", "prefix-suffix", "named-format", "unknown-format",
                "malformed-two-points", "malformed-empty", "only-passive"}
ASSUME NumOK == NumValues \subseteq AllNumValues /\ Pictures \subseteq AllPictures

ASSUME TypesOK == Types \subseteq AllTypes
ASSUME UsesOK == Uses1 \subseteq AllUses1 /\ Uses2 \subseteq AllUses2

VARIABLES use, t1, t2
vars == <<use, t1, t2>>

Init == use = "none" /\ t1 = "-" /\ t2 = "-"

Use1(u, a) == use = "none" /\ use' = u /\ t1' = a /\ t2' = "-"

Use2(u, a, b) == use = "none" /\ use' = u /\ t1' = a /\ t2' = b

Format(v, p) == use = "none" /\ use' = "format-number" /\ t1' = v /\ t2' = p

Next == \/ \E v \in NumValues, p \in Pictures : Format(v, p)
        \/ \E u \in Uses1, a \in Types : Use1(u, a)
        \/ \E u \in Uses2, a \in Types, b \in Types : Use2(u, a, b)

Spec == Init /\ [][Next]_vars

TypeOK == \/ use = "none" /\ t1 = "-" /\ t2 = "-"
          \/ use \in Uses1 /\ t1 \in Types /\ t2 = "-"
          \/ use \in Uses2 /\ t1 \in Types /\ t2 \in Types
          \/ use = "format-number" /\ t1 \in NumValues /\ t2 \in Pictures

PlanSize == 1 + Cardinality(Uses1) * Cardinality(Types) + Cardinality(Uses2) * Cardinality(Types) * Cardinality(Types)
              + Cardinality(NumValues) * Cardinality(Pictures)
ASSUME PrintPlan == PrintT(<<"pool_plan_size", PlanSize>>)
=============================================================================
