------------------------------ MODULE ArgClass ------------------------------
(***************************************************************************)
(* Property C03, function-call family.  Value-state machine whose state is *)
(* one CALL of a built-in function: the index `sig` of a signature of the  *)
(* implementation's live table (XPath31Parser.function_signatures plus the *)
(* xs: constructor functions, exported at check time -- binding C) and the *)
(* vector `args` of ARGUMENT CLASSES, one per parameter position.          *)
(*                                                                         *)
(* Init: every signature with all arguments "valid" (an argument of the    *)
(* declared parameter type).  SetArg(pos, cls) replaces the valid argument *)
(* of one position by an argument of class cls; at most MaxDev positions   *)
(* deviate.  The reachable states are therefore EVERY (function, parameter *)
(* position, argument class) combination (MaxDev = 1) resp. every pair of  *)
(* deviating positions (MaxDev = 2).                                       *)
(*                                                                         *)
(* Argument classes (rendered 1:1 by the binding table of c03.py):         *)
(*   valid        an expression of the declared parameter type             *)
(*   attr, elem   an untyped attribute / element node of the document      *)
(*   untyped_bad  xs:untypedAtomic('x')                                    *)
(*   untyped_ok   xs:untypedAtomic(L), L a valid lexical of the type       *)
(*   empty        ()                                                       *)
(*   wrong_str, wrong_num, wrong_dur                                       *)
(*                an atomic value of another type: 's', 1, a duration      *)
(*   wrong_numstr the string '1' (numeric-looking, but an xs:string)       *)
(*   seq          two valid items                                          *)
(*   func, map, array   a function item, map{}, []                         *)
(*   bigneg       -1000000000000                                           *)
(*   hugeint      an xs:integer literal of 400 digits (beyond xs:double)   *)
(*   num_inf, num_neginf, num_nan, num_negzero, num_huge, num_tiny         *)
(*                xs:double INF, -INF, NaN, -0, 1.7e308, 5e-324            *)
(*   baduri, nul  the strings 'http://[' and U+0000                        *)
(*                                                                         *)
(* A signature of CollationPositions has a $collation parameter; SetColl    *)
(* gives it a collation class, and Again makes THE SAME CALL A SECOND TIME  *)
(* in the same process (calls = 2): a locale collation goes through a       *)
(* process-wide lock and LC_COLLATE, so "no call hangs" must also hold for  *)
(* the call after it.  The harness also makes the call without the          *)
(* argument on a parser whose default_collation is that collation, and      *)
(* reports a collation lock left held after a legal return.                 *)
(*                                                                         *)
(* What the specification says about every such call is Outcome.tla: the   *)
(* parse returns a tree or raises a CODED ElementPathError, the evaluation *)
(* returns a value or raises an ElementPathError; no call hangs.  Which of *)
(* the legal outcomes a call has is F&O's business (C06..C11), not C03's.  *)
(***************************************************************************)
EXTENDS Naturals, Sequences, FiniteSets, TLC

CONSTANTS Arity,       \* Arity[i] = number of parameters of the i-th exported signature
          Names,       \* Names[i] = prefixed name of the function of the i-th exported signature
          Prefixes,    \* Prefixes[i] = its predeclared prefix (fn, math, map, array, xs)
          Seed, StaticThin,  \* an fn: signature takes part in the static-context family iff (i + Seed) % StaticThin = 0
          Classes,     \* the deviating argument classes in use
          CollClasses, \* the collation argument classes in use
          MaxDev,      \* how many positions may deviate from "valid"
          Forms,       \* the call forms in use (subset of AllForms \ {"direct"})
          NsClasses    \* the static contexts in use (subset of AllNsClasses \ {"default"})

VARIABLES sig, args,
          calls,       \* 1, or 2: the SAME call is made a second time in the same process
          form,        \* HOW the function is invoked (feature interaction)
          static       \* the static context of the parse and how the name / the argument list is written
vars == <<sig, args, calls, form, static>>

AllClasses == {"valid", "attr", "elem", "untyped_bad", "untyped_ok", "empty", "wrong_str", "wrong_num",
               "wrong_dur", "wrong_numstr", "seq", "func", "map", "array", "bigneg", "hugeint", "baduri", "nul",
               "num_inf", "num_neginf", "num_nan", "num_negzero", "num_huge", "num_tiny"}

(* Collation arguments.  A $collation parameter selects process-global state (LC_COLLATE under a  *)
(* process-wide lock), so a call with a collation class is made TWICE: "no call hangs" includes  *)
(* the call AFTER one that used a locale collation.                                              *)
(*   coll_codepoint  http://www.w3.org/2005/xpath-functions/collation/codepoint                  *)
(*   coll_html       http://www.w3.org/2005/xpath-functions/collation/html-ascii-case-insensitive *)
(*   coll_uca        http://www.w3.org/2013/collation/UCA?lang=de                                 *)
(*   coll_current    the name of the locale that is active for LC_COLLATE when the call is made   *)
(*   coll_C, coll_POSIX, coll_Cutf8   the locale names 'C', 'POSIX', 'C.utf8'                     *)
(*   coll_unknown    http://example.org/unknown-collation       coll_empty   the empty string     *)
AllCollClasses == {"coll_codepoint", "coll_html", "coll_uca", "coll_current", "coll_C", "coll_POSIX",
                   "coll_Cutf8", "coll_unknown", "coll_empty"}

(* F&O 3.1 functions with a $collation parameter: <<name, arity, position of $collation>>.  The  *)
(* operator Coll maps the table onto the exported signatures.                                    *)
CollationPositions == {
  <<"fn:compare", 3, 3>>, <<"fn:contains", 3, 3>>, <<"fn:starts-with", 3, 3>>, <<"fn:ends-with", 3, 3>>,
  <<"fn:substring-before", 3, 3>>, <<"fn:substring-after", 3, 3>>, <<"fn:index-of", 3, 3>>,
  <<"fn:distinct-values", 2, 2>>, <<"fn:deep-equal", 3, 3>>, <<"fn:min", 2, 2>>, <<"fn:max", 2, 2>>,
  <<"fn:sort", 2, 2>>, <<"fn:sort", 3, 2>>, <<"array:sort", 2, 2>>, <<"array:sort", 3, 2>>,
  <<"fn:collation-key", 2, 2>>, <<"fn:contains-token", 3, 3>> }

(* CALL FORMS: the same function with the same valid arguments a1..an, reached through another      *)
(* language feature.  XPath 3.1 3.1.5 / 3.1.6 / 3.16: all of them are the call f(a1..an), so the    *)
(* outcome class is again Outcome.tla's; "beyond" forms have one argument too many (XPST0017).      *)
(*   direct      f(a1, .., an)                                                                     *)
(*   arrow       a1 => f(a2, .., an)                      (n >= 1)                                  *)
(*   ref_call    f#n(a1, .., an)                                                                   *)
(*   let_call    let $f := f#n return $f(a1, .., an)                                               *)
(*   partial     f(?, a2, .., an)(a1)                     (n >= 1)                                  *)
(*   partial_last f(a1, .., ?)(an)                        (n >= 1)                                  *)
(*   apply       fn:apply(f#n, [a1, .., an])                                                       *)
(*   lookup      fn:function-lookup(xs:QName('f'), n)(a1, .., an)                                  *)
(*   arrow_beyond  a1 => f(a2, .., an, 1)    ref_beyond  f#(n+1)    apply_beyond  fn:apply(f#n, [a1..an, 1]) *)
AllForms == {"direct", "arrow", "ref_call", "let_call", "partial", "partial_last", "apply", "lookup",
             "arrow_beyond", "ref_beyond", "apply_beyond"}
NeedsArg == {"arrow", "partial", "partial_last"}

(* STATIC CONTEXT of the parse (XPath 3.1 2.1.1: statically known namespaces, default function       *)
(* namespace) x the SPELLING of the function name x the KIND of call.  Error paths included: a       *)
(* wrong-arity or unknown-function call must end in a coded error (XPST0017) whatever the prefixes   *)
(* are bound to.                                                                                    *)
(*   ns:  default | rebind_P (the predeclared prefix P bound to another URI), P in math map array fn *)
(*        xs err | unbind_all (all of them bound to '') | alias (another prefix bound to the         *)
(*        namespace too) | fnns_math, fnns_other, fnns_empty (default function namespace)            *)
(*   spelling:  prefixed  p:local | unprefixed  local | eqname  Q{uri}local (the REAL namespace URI) *)
(*   kind:  ok | too_many (one more argument) | too_few (last one dropped) | zero_args | unknown_name *)
AllNsClasses == {"default", "rebind_math", "rebind_map", "rebind_array", "rebind_fn", "rebind_xs", "rebind_err",
                 "unbind_all", "alias", "fnns_math", "fnns_other", "fnns_empty"}
Spellings == {"prefixed", "unprefixed", "eqname"}
Kinds == {"ok", "too_many", "too_few", "zero_args", "unknown_name"}
DefaultStatic == [ns |-> "default", spelling |-> "prefixed", kind |-> "ok"]

ASSUME FormsOK == Forms \subseteq AllForms \ {"direct"}
ASSUME NsClassesOK == NsClasses \subseteq AllNsClasses
ASSUME ClassesOK == Classes \subseteq AllClasses \ {"valid"}
ASSUME CollClassesOK == CollClasses \subseteq AllCollClasses
ASSUME NamesOK == Len(Names) = Len(Arity) /\ Len(Prefixes) = Len(Arity)

(* position of the $collation parameter of the i-th signature, 0 if it has none *)
Coll(i) == LET m == {t \in CollationPositions : t[1] = Names[i] /\ t[2] = Arity[i]}
           IN IF m = {} THEN 0 ELSE (CHOOSE t \in m : TRUE)[3]
ASSUME ArityOK == \A i \in 1..Len(Arity) : Arity[i] \in 0..9

Deviating(a) == {i \in DOMAIN a : a[i] # "valid"}

Init == /\ sig \in 1..Len(Arity)
        /\ args = [i \in 1..Arity[sig] |-> "valid"]
        /\ calls = 1
        /\ form = "direct"
        /\ static = DefaultStatic

SetArg(pos, cls) ==
  /\ pos \in DOMAIN args
  /\ args[pos] = "valid"
  /\ Cardinality(Deviating(args)) < MaxDev
  /\ calls = 1 /\ form = "direct" /\ static = DefaultStatic
  /\ args' = [args EXCEPT ![pos] = cls]
  /\ UNCHANGED <<sig, calls, form, static>>

(* the $collation argument takes a collation class *)
SetColl(cls) == Coll(sig) > 0 /\ SetArg(Coll(sig), cls)

UsesCollation == Coll(sig) > 0 /\ args[Coll(sig)] \in CollClasses

(* the same call once more, in the same process *)
Again == /\ UsesCollation /\ calls = 1
         /\ calls' = 2
         /\ UNCHANGED <<sig, args, form, static>>

Plain == Deviating(args) = {} /\ calls = 1 /\ form = "direct" /\ static = DefaultStatic

(* the same call through another language feature *)
SetForm(f) == /\ Plain
              /\ f \in NeedsArg => Arity[sig] >= 1
              /\ form' = f
              /\ UNCHANGED <<sig, args, calls, static>>

(* the same function under another static context / spelling / kind of call.  Re-binding a prefix   *)
(* matters for the functions of that prefix; rebind_err stands for "an unrelated prefix re-bound".   *)
RelevantNs(i, ns) == ns \in {"rebind_math", "rebind_map", "rebind_array", "rebind_fn", "rebind_xs"}
                        => ns = "rebind_" \o Prefixes[i]
InStaticFamily(i) == Prefixes[i] # "fn" \/ (i + Seed) % StaticThin = 0

SetStatic(ns, sp, kd) ==
  /\ Plain
  /\ InStaticFamily(sig) /\ RelevantNs(sig, ns)
  /\ <<ns, sp, kd>> # <<"default", "prefixed", "ok">>
  /\ kd \in {"too_few", "zero_args"} => Arity[sig] >= 1
  /\ static' = [ns |-> ns, spelling |-> sp, kind |-> kd]
  /\ UNCHANGED <<sig, args, calls, form>>

Next == \/ \E pos \in 1..9, cls \in Classes : SetArg(pos, cls)
        \/ \E cls \in CollClasses : SetColl(cls)
        \/ Again
        \/ \E f \in Forms : SetForm(f)
        \/ \E ns \in NsClasses \cup {"default"}, sp \in Spellings, kd \in Kinds : SetStatic(ns, sp, kd)

Spec == Init /\ [][Next]_vars

TypeOK == /\ sig \in 1..Len(Arity)
          /\ DOMAIN args = 1..Arity[sig]
          /\ \A i \in DOMAIN args : args[i] \in Classes \cup CollClasses \cup {"valid"}
          /\ \A i \in DOMAIN args : args[i] \in CollClasses => i = Coll(sig)
          /\ calls \in {1, 2} /\ (calls = 2 => UsesCollation)
          /\ form \in Forms \cup {"direct"}
          /\ static.ns \in NsClasses \cup {"default"} /\ static.spelling \in Spellings /\ static.kind \in Kinds
          /\ (form # "direct" \/ static # DefaultStatic) => Deviating(args) = {} /\ calls = 1
          /\ ~(form # "direct" /\ static # DefaultStatic)
Bounded == Cardinality(Deviating(args)) <= MaxDev

(* number of calls the plan must contain when MaxDev = 1 (checked by the harness against the graph) *)
PlanSize1 == Len(Arity) + Cardinality({x \in (1..Len(Arity)) \X (1..9) \X Classes : x[2] <= Arity[x[1]]})   \* no recursion: 300+ signatures
PlanSizeColl == Cardinality({i \in 1..Len(Arity) : Coll(i) > 0}) * Cardinality(CollClasses)   \* each of them once more with calls = 2
PlanSizeForms == Cardinality({x \in (1..Len(Arity)) \X Forms : x[2] \in NeedsArg => Arity[x[1]] >= 1})
PlanSizeStatic == Cardinality({x \in (1..Len(Arity)) \X (NsClasses \cup {"default"}) \X Spellings \X Kinds :
                                  /\ InStaticFamily(x[1]) /\ RelevantNs(x[1], x[2])
                                  /\ <<x[2], x[3], x[4]>> # <<"default", "prefixed", "ok">>
                                  /\ x[4] \in {"too_few", "zero_args"} => Arity[x[1]] >= 1})
(* printed by the generated root module:                                                          *)
(*   ASSUME PrintT(<<"plan_size_1", PlanSize1, PlanSizeColl, PlanSizeForms, PlanSizeStatic>>)     *)
=============================================================================
