------------------------------ MODULE ArgClass ------------------------------
(***************************************************************************)
(* Property C03, function-call family.  Value-state machine whose state is *)
(* one CALL of a built-in function: the index `sig` of a signature of the  *)
(* implementation's live table (XPath31Parser.function_signatures plus the *)
(* xs: constructor functions, exported at check time -- binding C) and the *)
(* vector `args` of ARGUMENT CLASSES, one per parameter position.          *)
(*                                                                         *)
(* Init: every signature with all arguments "valid" (an argument of the    *)
(* declared parameter type).  SetArg(pos, cls) replaces the valid argument *)
(* of one position by an argument of class cls; at most MaxDev positions   *)
(* deviate.  The reachable states are therefore EVERY (function, parameter *)
(* position, argument class) combination (MaxDev = 1) resp. every pair of  *)
(* deviating positions (MaxDev = 2).                                       *)
(*                                                                         *)
(* Argument classes (rendered 1:1 by the binding table of c03.py):         *)
(*   valid        an expression of the declared parameter type             *)
(*   attr, elem   an untyped attribute / element node of the document      *)
(*   untyped_bad  xs:untypedAtomic('x')                                    *)
(*   untyped_ok   xs:untypedAtomic(L), L a valid lexical of the type       *)
(*   empty        ()                                                       *)
(*   wrong_str, wrong_num, wrong_dur                                       *)
(*                an atomic value of another type: 's', 1, a duration      *)
(*   wrong_numstr the string '1' (numeric-looking, but an xs:string)       *)
(*   seq          two valid items                                          *)
(*   func, map, array   a function item, map{}, []                         *)
(*   bigneg       -1000000000000                                           *)
(*   baduri, nul  the strings 'http://[' and U+0000                        *)
(*                                                                         *)
(* What the specification says about every such call is Outcome.tla: the   *)
(* parse returns a tree or raises a CODED ElementPathError, the evaluation *)
(* returns a value or raises an ElementPathError; no call hangs.  Which of *)
(* the legal outcomes a call has is F&O's business (C06..C11), not C03's.  *)
(***************************************************************************)
EXTENDS Naturals, Sequences, FiniteSets, TLC

CONSTANTS Arity,     \* Arity[i] = number of parameters of the i-th exported signature
          Classes,   \* the deviating argument classes in use
          MaxDev     \* how many positions may deviate from "valid"

VARIABLES sig, args
vars == <<sig, args>>

AllClasses == {"valid", "attr", "elem", "untyped_bad", "untyped_ok", "empty", "wrong_str", "wrong_num",
               "wrong_dur", "wrong_numstr", "seq", "func", "map", "array", "bigneg", "baduri", "nul"}

ASSUME ClassesOK == Classes \subseteq AllClasses \ {"valid"}
ASSUME ArityOK == \A i \in 1..Len(Arity) : Arity[i] \in 0..9

Deviating(a) == {i \in DOMAIN a : a[i] # "valid"}

Init == /\ sig \in 1..Len(Arity)
        /\ args = [i \in 1..Arity[sig] |-> "valid"]

SetArg(pos, cls) ==
  /\ pos \in DOMAIN args
  /\ args[pos] = "valid"
  /\ Cardinality(Deviating(args)) < MaxDev
  /\ args' = [args EXCEPT ![pos] = cls]
  /\ UNCHANGED sig

Next == \E pos \in 1..9, cls \in Classes : SetArg(pos, cls)

Spec == Init /\ [][Next]_vars

TypeOK == /\ sig \in 1..Len(Arity)
          /\ DOMAIN args = 1..Arity[sig]
          /\ \A i \in DOMAIN args : args[i] \in Classes \cup {"valid"}
Bounded == Cardinality(Deviating(args)) <= MaxDev

(* number of calls the plan must contain when MaxDev = 1 (checked by the harness against the graph) *)
PlanSize1 == Len(Arity) + Cardinality({x \in (1..Len(Arity)) \X (1..9) \X Classes : x[2] <= Arity[x[1]]})   \* no recursion: 300+ signatures
(* printed by the generated root module: ASSUME PrintT(<<"plan_size_1", PlanSize1>>) *)
=============================================================================
