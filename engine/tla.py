"""TLA+ value parsing, TLC invocation, state-graph (dot) loading.

Everything the checks know about *expected* behaviour comes out of TLC through this
module: the labelled state graph written by `-dump dot,actionlabels` (node label = full
state, edge label = action with its parameters) or values printed by TLC.
"""
from __future__ import annotations

import os
import re
import shutil
import subprocess
import time
from dataclasses import dataclass, field
from typing import Any, Iterator

TLA_JAR = '/opt/veriftools/tla/tla2tools.jar'
TLA_CP = TLA_JAR + ':/opt/veriftools/tla/CommunityModules-deps.jar'
VERIF = os.path.dirname(os.path.dirname(os.path.abspath(__file__)))
SPEC_DIR = os.path.join(VERIF, 'spec')


class MachineryError(Exception):
    """TLC failed, output could not be parsed, vacuous model: exit code 2, never a verdict."""


class FrozenDict(dict):
    """Hashable dict for TLA+ records and functions."""
    __slots__ = ('_h',)

    def __hash__(self):  # type: ignore[override]
        try:
            return self._h
        except AttributeError:
            self._h = hash(frozenset(self.items()))
            return self._h

    def __getattr__(self, k):
        try:
            return self[k]
        except KeyError:
            raise AttributeError(k)


class ModelValue(str):
    """A TLA+ model value / bare identifier."""
    def __repr__(self):
        return f'MV({str.__repr__(self)})'


_tok = re.compile(r'''\s*(?:
    (?P<str>"(?:[^"\\]|\\.)*") |
    (?P<int>-?\d+) |
    (?P<op><<|>>|\|->|:>|@@|\.\.|[{}\[\](),]) |
    (?P<id>[A-Za-z_][A-Za-z0-9_!]*)
)''', re.X)

_str_unesc = re.compile(r'\\(.)')
_UNESC = {'n': '\n', 't': '\t', 'r': '\r', 'f': '\f', '"': '"', '\\': '\\'}


def _unescape(s: str) -> str:
    return _str_unesc.sub(lambda m: _UNESC.get(m.group(1), m.group(1)), s)


class _P:
    def __init__(self, text: str):
        self.toks = []
        pos = 0
        n = len(text)
        while pos < n:
            m = _tok.match(text, pos)
            if not m:
                if text[pos:].strip() == '':
                    break
                raise MachineryError(f'cannot tokenise TLA+ value at {text[pos:pos+40]!r}')
            pos = m.end()
            kind = m.lastgroup
            self.toks.append((kind, m.group(kind)))
        self.i = 0

    def peek(self):
        return self.toks[self.i] if self.i < len(self.toks) else (None, None)

    def next(self):
        t = self.toks[self.i]
        self.i += 1
        return t

    def expect(self, v):
        k, t = self.next()
        if t != v:
            raise MachineryError(f'expected {v!r}, got {t!r}')

    def value(self) -> Any:
        k, t = self.next()
        if k == 'str':
            v: Any = _unescape(t[1:-1])
        elif k == 'int':
            v = int(t)
            if self.peek()[1] == '..':
                self.next()
                hi = self.value()
                v = frozenset(range(v, hi + 1))
        elif k == 'id':
            if t == 'TRUE':
                v = True
            elif t == 'FALSE':
                v = False
            else:
                v = ModelValue(t)
        elif t == '<<':
            items = []
            if self.peek()[1] == '>>':
                self.next()
            else:
                while True:
                    items.append(self.value())
                    k2, t2 = self.next()
                    if t2 == '>>':
                        break
                    if t2 != ',':
                        raise MachineryError(f'bad tuple separator {t2!r}')
            v = tuple(items)
        elif t == '{':
            items = []
            if self.peek()[1] == '}':
                self.next()
            else:
                while True:
                    items.append(self.value())
                    k2, t2 = self.next()
                    if t2 == '}':
                        break
                    if t2 != ',':
                        raise MachineryError(f'bad set separator {t2!r}')
            v = frozenset(items)
        elif t == '[':
            d = FrozenDict()
            while True:
                k2, name = self.next()
                self.expect('|->')
                d[name] = self.value()
                k3, t3 = self.next()
                if t3 == ']':
                    break
                if t3 != ',':
                    raise MachineryError(f'bad record separator {t3!r}')
            v = d
        elif t == '(':
            d = FrozenDict()
            while True:
                key = self.value()
                self.expect(':>')
                d[key] = self.value()
                k3, t3 = self.next()
                if t3 == ')':
                    break
                if t3 != '@@':
                    raise MachineryError(f'bad function separator {t3!r}')
            v = d
        else:
            raise MachineryError(f'unexpected token {t!r}')
        return v


def parse_value(text: str) -> Any:
    p = _P(text)
    v = p.value()
    if p.i != len(p.toks):
        raise MachineryError(f'trailing tokens in TLA+ value: {text[:80]!r}')
    return v


_state_split = re.compile(r'(?:^|\n)/\\ ')


def parse_state(text: str) -> FrozenDict:
    """Parse `/\\ v1 = val\\n/\\ v2 = val` (a TLC state) into a FrozenDict."""
    d = FrozenDict()
    for part in _state_split.split(text):
        part = part.strip()
        if not part:
            continue
        name, _, val = part.partition(' = ')
        d[name.strip()] = parse_value(val)
    return d


_call = re.compile(r'^([A-Za-z_][A-Za-z0-9_]*)(?:\((.*)\))?$', re.S)


def parse_action(label: str) -> tuple[str, tuple]:
    """`Step("child","*")` -> ('Step', ('child', '*'))"""
    m = _call.match(label.strip())
    if not m:
        raise MachineryError(f'cannot parse action label {label!r}')
    name, args = m.group(1), m.group(2)
    if args is None or args.strip() == '':
        return name, ()
    return name, parse_value('<<' + args + '>>')


def to_tla(v: Any) -> str:
    """Python value -> TLA+ literal (inverse of parse_value)."""
    if isinstance(v, bool):
        return 'TRUE' if v else 'FALSE'
    if isinstance(v, ModelValue):
        return str(v)
    if isinstance(v, int):
        return str(v)
    if isinstance(v, str):
        return '"' + v.replace('\\', '\\\\').replace('"', '\\"').replace('\n', '\\n').replace('\t', '\\t') + '"'
    if isinstance(v, (tuple, list)):
        return '<<' + ', '.join(to_tla(x) for x in v) + '>>'
    if isinstance(v, (set, frozenset)):
        return '{' + ', '.join(sorted(to_tla(x) for x in v)) + '}'
    if isinstance(v, dict):
        if not v:
            return '<<>>'
        if all(isinstance(k, str) and re.match(r'^[A-Za-z_]\w*$', k) for k in v):
            return '[' + ', '.join(f'{k} |-> {to_tla(x)}' for k, x in v.items()) + ']'
        return '(' + ' @@ '.join(f'{to_tla(k)} :> {to_tla(x)}' for k, x in v.items()) + ')'
    raise TypeError(f'cannot render {v!r} as TLA+')


# ---------------------------------------------------------------------------------------
# dot graph

_node_re = re.compile(r'^(-?\d+) \[label="((?:[^"\\]|\\.)*)"(,style = filled)?(?:,tooltip="(?:[^"\\]|\\.)*")?\]')
_edge_re = re.compile(r'^(-?\d+) -> (-?\d+) \[label="((?:[^"\\]|\\.)*)"')
_dot_unesc = re.compile(r'\\(.)')


def _dot_unescape(s: str) -> str:
    return _dot_unesc.sub(lambda m: '\n' if m.group(1) == 'n' else m.group(1), s)


@dataclass
class Graph:
    states: dict[int, FrozenDict] = field(default_factory=dict)
    init: list[int] = field(default_factory=list)
    edges: list[tuple[int, int, str, tuple]] = field(default_factory=list)   # src, dst, action, args

    def out(self) -> dict[int, list[tuple[int, str, tuple]]]:
        o: dict[int, list] = {s: [] for s in self.states}
        for s, d, a, args in self.edges:
            o[s].append((d, a, args))
        return o


def load_dot(path: str, dedup: bool = True) -> Graph:
    g = Graph()
    seen = set()
    act_cache: dict[str, tuple[str, tuple]] = {}
    with open(path, encoding='utf-8') as f:
        for line in f:
            if ' -> ' in line[:45]:
                m = _edge_re.match(line)
                if m:
                    s, d, lab = int(m.group(1)), int(m.group(2)), m.group(3)
                    if dedup:
                        key = (s, d, lab)
                        if key in seen:
                            continue
                        seen.add(key)
                    a = act_cache.get(lab)
                    if a is None:
                        a = act_cache[lab] = parse_action(_dot_unescape(lab))
                    g.edges.append((s, d, a[0], a[1]))
                    continue
            m = _node_re.match(line)
            if m:
                sid = int(m.group(1))
                g.states[sid] = parse_state(_dot_unescape(m.group(2)))
                if m.group(3):
                    g.init.append(sid)
    if not g.states:
        raise MachineryError(f'no states in {path}')
    return g


# ---------------------------------------------------------------------------------------
# running TLC

@dataclass
class TLCResult:
    ok: bool
    returncode: int
    generated: int = 0
    distinct: int = 0
    depth: int = 0
    wall_s: float = 0.0
    output: str = ''
    coverage: dict[str, int] = field(default_factory=dict)
    violated: str | None = None       # name of the violated invariant / property
    printed: list[str] = field(default_factory=list)
    cmd: str = ''


def cfg_text(constants: dict[str, Any], spec: str | None = 'Spec', init: str | None = None,
             next_: str | None = None, invariants=(), properties=(), constraints=(),
             action_constraints=(), view: str | None = None, check_deadlock: bool = False,
             postcondition: str | None = None, symmetry: str | None = None) -> str:
    lines = []
    if constants:
        lines.append('CONSTANTS')
        for k, v in constants.items():
            lines.append(f'  {k} = {to_tla(v)}')
    if spec:
        lines.append(f'SPECIFICATION {spec}')
    if init:
        lines.append(f'INIT {init}')
    if next_:
        lines.append(f'NEXT {next_}')
    for i in invariants:
        lines.append(f'INVARIANT {i}')
    for p in properties:
        lines.append(f'PROPERTY {p}')
    for c in constraints:
        lines.append(f'CONSTRAINT {c}')
    for c in action_constraints:
        lines.append(f'ACTION_CONSTRAINT {c}')
    if view:
        lines.append(f'VIEW {view}')
    if postcondition:
        lines.append(f'POSTCONDITION {postcondition}')
    if symmetry:
        lines.append(f'SYMMETRY {symmetry}')
    lines.append(f'CHECK_DEADLOCK {"TRUE" if check_deadlock else "FALSE"}')
    return '\n'.join(lines) + '\n'


_gen_re = re.compile(r'([\d,]+) states generated, ([\d,]+) distinct states found')
_depth_re = re.compile(r'depth of the complete state graph search is (\d+)')
_cov_re = re.compile(r'^<(\w+) line \d+, col \d+ to line \d+, col \d+ of module (\w+)>: (\d+):(\d+)', re.M)
_inv_re = re.compile(r'Error: Invariant (\S+) is violated')
_prop_re = re.compile(r'Error: (?:Action|Temporal) propert(?:y|ies) (\S+)? ?(?:is|were) violated')


def run_tlc(module: str, cfg: str, workdir: str, *, workers: int = 16, dump_dot: str | None = None,
            coverage: bool = False, simulate: str | None = None, depth: int | None = None,
            seed: int | None = None, timeout: int = 3600, extra_modules_dir: str | None = None,
            env: dict[str, str] | None = None, java_opts: list[str] | None = None,
            heap: str = '8g', deadlock: bool = False) -> TLCResult:
    """Run TLC on spec/<module>.tla with the given cfg text, inside workdir (a scratch dir).

    All spec/*.tla files are copied into workdir so that EXTENDS/INSTANCE resolve and
    generated modules (gen/*.tla) can sit next to them.
    """
    os.makedirs(workdir, exist_ok=True)
    for fn in os.listdir(SPEC_DIR):
        if fn.endswith('.tla'):
            shutil.copy(os.path.join(SPEC_DIR, fn), os.path.join(workdir, fn))
    if extra_modules_dir:
        for fn in os.listdir(extra_modules_dir):
            if fn.endswith('.tla'):
                shutil.copy(os.path.join(extra_modules_dir, fn), os.path.join(workdir, fn))
    cfg_path = os.path.join(workdir, f'{module}__run.cfg')
    with open(cfg_path, 'w') as f:
        f.write(cfg)
    meta = os.path.join(workdir, 'meta_' + module)
    shutil.rmtree(meta, ignore_errors=True)
    cmd = ['java', '-XX:+UseParallelGC', f'-Xmx{heap}']
    cmd += java_opts or []
    cmd += ['-cp', TLA_CP, 'tlc2.TLC', '-workers', str(workers), '-metadir', meta,
            '-noGenerateSpecTE', '-config', cfg_path]
    if not deadlock:
        pass  # CHECK_DEADLOCK in cfg governs
    if dump_dot:
        cmd += ['-dump', 'dot,actionlabels', dump_dot]
    if coverage:
        cmd += ['-coverage', '1']
    if simulate is not None:
        cmd += ['-simulate', simulate]
    if depth is not None:
        cmd += ['-depth', str(depth)]
    if seed is not None:
        cmd += ['-seed', str(seed)]
    cmd += [os.path.join(workdir, module + '.tla')]
    e = dict(os.environ)
    if env:
        e.update(env)
    t0 = time.time()
    try:
        p = subprocess.run(cmd, cwd=workdir, capture_output=True, text=True, timeout=timeout, env=e)
    except subprocess.TimeoutExpired as ex:
        raise MachineryError(f'TLC timed out after {timeout}s on {module}') from ex
    out = p.stdout + p.stderr
    r = TLCResult(ok=(p.returncode == 0), returncode=p.returncode, output=out, wall_s=time.time() - t0,
                  cmd=' '.join(cmd))
    ms = _gen_re.findall(out)
    if ms:
        r.generated = int(ms[-1][0].replace(',', ''))
        r.distinct = int(ms[-1][1].replace(',', ''))
    m = _depth_re.search(out)
    if m:
        r.depth = int(m.group(1))
    for m in _cov_re.finditer(out):
        name = m.group(1)
        r.coverage[name] = r.coverage.get(name, 0) + int(m.group(4))
    m = _inv_re.search(out)
    if m:
        r.violated = m.group(1)
    else:
        m = _prop_re.search(out)
        if m:
            r.violated = m.group(1) or 'property'
    shutil.rmtree(meta, ignore_errors=True)
    return r


def require_ok(r: TLCResult, what: str, min_distinct: int = 1) -> TLCResult:
    """TLC must have finished without error; anything else is a machinery failure
    (a violated law of the *specification* means the oracle is wrong, not the code)."""
    if not r.ok or r.violated:
        tail = '\n'.join(r.output.splitlines()[-40:])
        raise MachineryError(f'TLC failed on {what} (rc={r.returncode}, violated={r.violated}):\n{tail}')
    if r.distinct < min_distinct:
        raise MachineryError(f'TLC explored only {r.distinct} states on {what} (vacuous)')
    return r


def printed_values(output: str, tag: str) -> Iterator[Any]:
    """Values printed by TLC with PrintT(<<tag, value>>) -- multi-line aware by bracket matching
    (TLC pretty-prints long tuples as `<< "tag",` + newline, so whitespace after << is allowed)."""
    pat = re.compile(r'<<\s*"' + re.escape(tag) + r'",')
    i = 0
    n = len(output)
    while True:
        m = pat.search(output, i)
        if not m:
            return
        j = m.start()
        depth = 0
        k = j
        in_str = False
        while k < n:
            c = output[k]
            if in_str:
                if c == '\\':
                    k += 1
                elif c == '"':
                    in_str = False
            elif c == '"':
                in_str = True
            elif output.startswith('<<', k):
                depth += 1
                k += 1
            elif output.startswith('>>', k):
                depth -= 1
                k += 1
                if depth == 0:
                    break
            k += 1
        text = output[j:k + 1]
        yield parse_value(text)[1]
        i = k + 1
