"""Binding table: abstract XDM tree of spec/XDM.tla  <->  real xml.etree / lxml objects.

Abstract tree = (parent, kind) tuples over nodes 1..N (node 0 = document), numbered in
document order with attribute nodes directly after their element.  The rendering is 1:1 and
dumb on purpose; every node gets a unique string so that it can be recognised in results of
the public API (which returns text and attribute nodes as plain strings):
  element "ea"/"eb" -> <a>/<b>          attribute "xa"/"xc" -> a="v<ID>" / c="v<ID>"
  text -> "t<ID>"      comment -> <!--c<ID>-->      PI -> <?p p<ID>?>
"""
from __future__ import annotations

import xml.etree.ElementTree as ET

import lxml.etree as LX

NS = {'p': 'urn:x', 'q': 'urn:x-y'}    # prefixes bound by the caller; urn:x is a string prefix of urn:x-y on purpose
ELEM = {'ea': 'a', 'eb': 'b', 'en': '{urn:x}a', 'em': '{urn:x-y}a'}
ATTR = {'xa': 'a', 'xc': 'c', 'xn': '{urn:x}a'}


class Doc:
    """One concrete document built from an abstract tree, with both directions of the map."""

    def __init__(self, parent: tuple, kind: tuple, lib: str, nsmap: dict | None = None):
        self.parent, self.kind, self.lib = parent, kind, lib
        nsmap = NS if nsmap is None else nsmap      # declarations on the document element (lxml only)
        n = len(parent)
        mod = ET if lib == 'etree' else LX
        self.obj2id: dict[int, int] = {}       # id(python object) -> abstract id
        self.objs: dict[int, object] = {}      # abstract id -> python object (elements, comments, PIs)
        last_child: dict[int, object] = {}     # element id -> last appended child object
        pre_root: list = []                    # document-level comments / PIs before the document element
        root_id = next((i for i in range(1, n + 1) if parent[i - 1] == 0 and kind[i - 1] in ELEM), 1)
        last_doc_level = None
        for i in range(1, n + 1):
            k = kind[i - 1]
            p = parent[i - 1]
            if p == 0 and k in ('c', 'p'):
                if lib != 'lxml':
                    raise ValueError('document-level siblings need lxml')
                el = mod.Comment(f'c{i}') if k == 'c' else mod.ProcessingInstruction('p', f'p{i}')
                self.objs[i] = el
                if root_id in self.objs:
                    (last_doc_level if last_doc_level is not None else self.objs[root_id]).addnext(el)
                    last_doc_level = el
                else:
                    pre_root.append(el)
                continue
            if k in ELEM:
                if p == 0:
                    # lxml: p and q are declared on the document element (in scope everywhere); xml.etree has no
                    # namespace declarations: the caller passes the same map as `namespaces=`
                    el = mod.Element(ELEM[k], nsmap=nsmap) if lib == 'lxml' else mod.Element(ELEM[k])
                    for x in pre_root:
                        el.addprevious(x)
                else:
                    el = mod.SubElement(self.objs[p], ELEM[k])
                    last_child[p] = el
                self.objs[i] = el
            elif k in ATTR:
                self.objs[p].set(ATTR[k], f'v{i}')
            elif k == 't':
                prev = last_child.get(p)
                if prev is None:
                    self.objs[p].text = f't{i}'
                else:
                    prev.tail = f't{i}'
            elif k == 'c':
                el = mod.Comment(f'c{i}')
                self.objs[p].append(el)
                last_child[p] = el
                self.objs[i] = el
            elif k == 'p':
                el = mod.ProcessingInstruction('p', f'p{i}')
                self.objs[p].append(el)
                last_child[p] = el
                self.objs[i] = el
            else:
                raise ValueError(k)
        self.doc_siblings = any(parent[i - 1] == 0 and i != root_id for i in range(1, n + 1))
        self.root_id = root_id
        self.root = self.objs[root_id]
        self.tree = ET.ElementTree(self.root) if lib == 'etree' else self.root.getroottree()
        for i, o in self.objs.items():
            self.obj2id[id(o)] = i
        self.obj2id[id(self.tree)] = 0

    def project(self, items) -> list:
        """Result list of the public API -> list of abstract node ids (or ('?', repr))."""
        out = []
        for it in items:
            if isinstance(it, str):
                if it[:1] in 'tv' and it[1:].isdigit():
                    out.append(int(it[1:]))
                else:
                    out.append(('?', it))
            else:
                i = self.obj2id.get(id(it))
                if i is None:
                    if hasattr(it, 'getroot'):   # lxml creates a new _ElementTree proxy on each access
                        i = 0
                    else:
                        i = ('?', repr(it))
                out.append(i)
        return out

    def xml(self) -> str:
        if self.lib == 'etree':
            return ET.tostring(self.root, encoding='unicode')
        return LX.tostring(self.tree if self.doc_siblings else self.root, encoding='unicode')
