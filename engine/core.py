"""Check lifecycle: scratch space, verdicts, known findings, evidence, replay files."""
from __future__ import annotations

import hashlib
import json
import os
import shutil
import sys
import time
import traceback
from typing import Any, Callable, Iterable

VERIF = os.path.dirname(os.path.dirname(os.path.abspath(__file__)))
REPO = os.environ.get('VERIF_REPO', '/repo')
KNOWN_FILE = os.path.join(VERIF, 'known_findings.json')


def load_known() -> list[dict]:
    """known_findings.json plus known_findings.d/*.json (merged into known_findings.json at the end of the session) (one file per property)."""
    out = []
    with open(KNOWN_FILE) as f:
        out += json.load(f)['findings']
    d = os.path.join(VERIF, 'known_findings.d')
    if os.path.isdir(d):
        for fn in sorted(os.listdir(d)):
            if fn.endswith('.json'):
                with open(os.path.join(d, fn)) as f:
                    out += json.load(f)['findings']
    return out


def jsonable(v: Any) -> Any:
    if isinstance(v, dict):
        return {str(k): jsonable(x) for k, x in v.items()}
    if isinstance(v, (list, tuple)):
        return [jsonable(x) for x in v]
    if isinstance(v, (set, frozenset)):
        return sorted((jsonable(x) for x in v), key=lambda x: json.dumps(x, sort_keys=True, default=str))
    if isinstance(v, (str, int, float, bool)) or v is None:
        return v
    return repr(v)


def match_pattern(pattern: dict, features: dict) -> bool:
    """A known-finding fingerprint is a sub-pattern of a failure's feature dict:
    every key of the pattern must be present; a list value means membership."""
    for k, want in pattern.items():
        if k not in features:
            return False
        have = features[k]
        if isinstance(want, list):
            if have not in want:
                return False
        elif have != want:
            return False
    return True


class Check:
    def __init__(self, prop: str, tier: str, seed: int, level: str = 'model_checking'):
        self.prop = prop
        self.tier = tier
        self.seed = seed
        self.level = level
        self.t0 = time.time()
        self.scratch = os.path.join(VERIF, '.scratch', f'{prop}-{tier}-{os.getpid()}')
        shutil.rmtree(self.scratch, ignore_errors=True)
        os.makedirs(self.scratch)
        self.replay_dir = os.path.join(VERIF, 'replays', prop)
        self.coverage: dict[str, Any] = {
            'states': 0, 'transitions': 0, 'traces_validated_against_impl': 0, 'samples': [],
            'evaluations': 0, 'distinct_nontrivial': 0,
        }
        self.assumptions: list[str] = []
        self.failures: list[dict] = []        # unmatched
        self.known_hits: dict[int, int] = {}  # index in known list -> count
        self.notes: list[str] = []
        self.known = [k for k in load_known() if k['property'] == prop and k.get('status', 'known') == 'known']

    # -- coverage bookkeeping -------------------------------------------------------
    def add(self, key: str, n: int = 1) -> None:
        self.coverage[key] = self.coverage.get(key, 0) + n

    def sample(self, s: Any, cap: int = 12) -> None:
        if len(self.coverage['samples']) < cap:
            self.coverage['samples'].append(jsonable(s))

    def model(self, name: str, r) -> None:
        """Record one TLC run."""
        self.coverage.setdefault('models', []).append({
            'module': name, 'generated': r.generated, 'distinct': r.distinct, 'depth': r.depth,
            'tlc_wall_s': round(r.wall_s, 1), 'actions_covered': r.coverage or None})
        self.add('states', r.distinct)

    def note(self, msg: str) -> None:
        self.notes.append(msg)
        print('note:', msg, flush=True)

    # -- verdicts -------------------------------------------------------------------
    def fail(self, features: dict, case: dict, expected: Any, observed: Any, what: str = '') -> None:
        """Report one disagreement between the specification and the code.
        `features` is the abstract fingerprint matched against known_findings.json;
        `case` is what --replay needs to re-run it."""
        features = jsonable(features)
        for idx, k in enumerate(self.known):
            if match_pattern(k['fingerprint'], features):
                self.known_hits[idx] = self.known_hits.get(idx, 0) + 1
                return
        self.failures.append({'property': self.prop, 'features': features, 'case': jsonable(case),
                              'expected': jsonable(expected), 'observed': jsonable(observed), 'what': what})

    def finish(self) -> int:
        wall = time.time() - self.t0
        rc = 0
        for idx, cnt in sorted(self.known_hits.items()):
            k = self.known[idx]
            print(f'KNOWN-FINDING: property={self.prop} {k["what"]} [{cnt} cases]', flush=True)
        if self.failures:
            rc = 1
            os.makedirs(self.replay_dir, exist_ok=True)
            # group by feature fingerprint, one replay file per class (first instance + count)
            groups: dict[str, list[dict]] = {}
            for f in self.failures:
                key = json.dumps(f['features'], sort_keys=True)
                groups.setdefault(key, []).append(f)
            for key, fs in list(groups.items())[:40]:
                h = hashlib.sha1((key + json.dumps(fs[0]['case'], sort_keys=True, default=str)).encode()).hexdigest()[:16]
                path = os.path.join(self.replay_dir, h + '.json')
                rec = dict(fs[0])
                rec['class_size'] = len(fs)
                rec['more_instances'] = [x['case'] for x in fs[1:6]]
                with open(path, 'w') as fh:
                    json.dump(rec, fh, indent=1, default=str)
                print(f'VIOLATION property={self.prop} replay={path}', flush=True)
                print(f'  class={key} n={len(fs)} expected={str(fs[0]["expected"])[:200]} '
                      f'observed={str(fs[0]["observed"])[:200]} {fs[0]["what"]}', flush=True)
            if len(groups) > 40:
                print(f'  ... {len(groups) - 40} more failure classes not written', flush=True)
            if os.environ.get('VERIF_DUMP_FAILURES'):      # development aid: every class with one instance
                with open(os.environ['VERIF_DUMP_FAILURES'], 'w') as fh:
                    json.dump([dict(fs[0], class_size=len(fs)) for fs in groups.values()], fh, default=str)
        cov = self.coverage
        if not cov.get('evaluations'):
            cov['evaluations'] = cov.get('transitions', 0)
        cov['known_finding_hits'] = {self.known[i]['what']: c for i, c in self.known_hits.items()}
        cov['failure_classes'] = len({json.dumps(f['features'], sort_keys=True) for f in self.failures})
        if self.notes:
            cov['notes'] = self.notes[:50]
        ev = {
            'property_id': self.prop, 'tier': self.tier, 'seed': self.seed, 'level': self.level,
            'coverage': cov, 'assumptions': self.assumptions, 'wall_s': round(wall, 2),
            'violations': len(self.failures),
        }
        os.makedirs(os.path.join(VERIF, 'evidence'), exist_ok=True)
        with open(os.path.join(VERIF, 'evidence', f'{self.prop}.json'), 'w') as fh:
            json.dump(ev, fh, indent=1, default=str)
        shutil.rmtree(self.scratch, ignore_errors=True)
        print(f'{self.prop} {self.tier}: states={cov.get("states")} transitions={cov.get("transitions")} '
              f'evaluations={cov.get("evaluations")} traces={cov.get("traces_validated_against_impl")} '
              f'violations={len(self.failures)} known_hits={sum(self.known_hits.values())} wall={wall:.1f}s',
              flush=True)
        return rc


def setup_repo_path() -> None:
    """Checks always import elementpath from /repo's working tree."""
    if REPO not in sys.path:
        sys.path.insert(0, REPO)
    os.environ.setdefault('ELEMENTPATH_VERIF', '1')


def chunked(items: list, n: int) -> list[list]:
    k = max(1, (len(items) + n - 1) // n)
    return [items[i:i + k] for i in range(0, len(items), k)]


def pool_map(fn: Callable, jobs: Iterable, procs: int = 16, initializer=None, initargs=()) -> list:
    """multiprocessing map with fork; a worker exception is a machinery failure."""
    import multiprocessing as mp
    jobs = list(jobs)
    if procs <= 1 or len(jobs) <= 1:
        if initializer:
            initializer(*initargs)
        return [fn(j) for j in jobs]
    ctx = mp.get_context('fork')
    with ctx.Pool(min(procs, len(jobs)), initializer=initializer, initargs=initargs) as pool:
        res = pool.map(fn, jobs, chunksize=1)
        pool.close()        # let the workers exit normally (atexit hooks, e.g. coverage measurement in tools/covaudit.sh)
        pool.join()
        return res
