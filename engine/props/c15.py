"""C15 -- maps and arrays are immutable values obeying the XPath 3.1 map/array laws.

Spec: spec/MapArray.tla -- a HISTORY MACHINE over a store of immutable values addressed by
handles: store[h] is the result of the h-th operation, every action (map / array constructors,
map:put/remove/merge/get/contains/size/keys/entry/for-each/find, array:get/put/append/subarray/
remove/insert-before/head/tail/reverse/join/flatten/for-each/filter/fold-left/fold-right/size,
the lookup operator ?k ?* ?(e), fn:deep-equal) applies ONE function to earlier handles and
APPENDS its result.  TLC decides, before anything is replayed: the action property Immutable
(no action changes an existing handle), the laws of finite maps (get(put(m,k,v),k) = v, other
keys unchanged, size arithmetic, remove-then-contains, the merge policies, op:same-key is an
equivalence with the classes named by the property), the list model of the array functions
(1-based, FOAY0001 / FOAY0002), fn:deep-equal is an equivalence relation.  A self-test runs the
variant InPlace=TRUE (array:put/append/insert-before write through to the operand) and requires
TLC to REJECT it.

Binding A: the dumped graph is the test plan.  For every state (= history) the real store is
rebuilt from the seeds along a BFS path of transitions that passed; every edge is then applied
to REAL values, in two bindings:
  xpath : seeds and arguments are XPath literals, the function is called through
          iter_select(None, 'map:put($h1, xs:float("NaN"), (1,2))', parser=XPath31Parser,
          variables={handles}, item=1)
  python: seeds are XPathMap(parser, items) / XPathArray(parser, items) built from Python atoms,
          arguments are variables bound to Python values; map:get / array:get are dynamic
          function calls $h($k), and additionally the Python call m(key) / a(i)
After EVERY step ALL live handles are projected (Python API: len, keys(), values(), items();
XPath API: map:size, map:keys, map:get, map:contains / array:size, array:get; deep-equal against
the literal rendering of the specification value) and compared with the store of the
specification state: an operand that changed is an immutability violation.

Batch (profile "batch"): a function / lookup applied DIRECTLY to a constructor expression whose entries
depend on the dynamic context (map{'a': $x}?*, [$x, 2]?1, map:get(map{$x: 1}, 1), array:reverse([$x, 2]) ...,
every lookup form, postfix and unary, square and curly arrays), evaluated once per binding of $x and
compared item-wise with BatchResult of the spec: (xpath) one expression
array:join(for $x in (x1,x2,x3) return [E($x)]) - the same constructor token evaluated three times -
(python) ONE Selector parsed once and selected once per value of the variable $x.
Exact numeric keys (profiles "keysx", "mergex", cons, deq): 2^53+1 as integer/decimal against the
xs:double 2^53 it rounds to, xs:decimal 0.1 against 0.1e0, 0.5 in three types: op:same-key compares
the exact mathematical values; the SameKey table of the spec is cross-checked with python fractions.

Keys with several lexical forms and the falsy value of every type (profiles "keysl", "mergel", cons): for
every atomic type two spellings of one value (hexBinary 0a1b / 0A1B, base64Binary with / without blank,
1.0 / 1.00 / 1 / 1e0, one dateTime instant in two timezones, P1D / PT24H, P1Y / P12M, QName with two prefixes,
xs:boolean('1') / true(), gYear 2020Z / 2020+00:00), the traps that are NOT the same key (hexBinary vs
base64Binary with the same octets, date/time with vs without timezone, NFC vs NFD strings) and zero / -0 /
'' / false / empty binary / PT0S / P0M as keys of every map function, single and inside key sequences.  Atoms
are compared through the ValueName table PRINTED BY TLC (two spellings = one value); the table and SameKey
are cross-checked with python fractions / bytes / base64 / datetime / a duration parser.
LookupSeq (profile "lookupseq"): E?KS with a SEQUENCE of 1-3 maps / arrays on the left (mixed kinds and sizes),
every key specifier (?name ?1 ?* ?(k) ?(k1, k2) ?(())), postfix, unary after '!' and item by item in a for.

ArrTyped (profile "arrtyped"): the position of array:get/put/remove/insert-before/subarray, of $a(i) and of
$a?(i) written as a literal, xs:integer / xs:long / xs:short / xs:unsignedByte / xs:positiveInteger
constructor, cast, arithmetic, count() (all mean the value) and as xs:decimal / xs:double / xs:string /
xs:boolean (XPTY0004).  MapMergeOpt (profile "mergeopts"): the options map of map:merge - map{}, unrelated
entries only (default use-first), duplicates as xs:untypedAtomic / xs:anyURI, an illegal value (FOJS0005), a
value of a wrong type.  Keys of types derived from xs:integer (xs:long, xs:unsignedByte) are in KeysL.

Form (profile "forms"): the CALL FORM is a dimension of the specification.  Every map: / array: function and the
dynamic call of a map / array item ($h(k)), on maps / arrays whose values / members are the empty sequence,
single items and sequences of several items, is replayed in every form of spec Forms, spelled in XPath 3.1:
direct F(A1..An) | ref F#n(A1..An) | let $f := F#n return $f(..) | partial-first F(?, A2..)(A1) | partial-rest
F(A1, ?, ..)(A2..) | partial-all F(?, ..)(A1..An) | arrow A1 => F(A2..) | apply fn:apply(F#n, [A1, .., An]) |
for-each fn:for-each(A1, F(?, A2..)) | array-for-each array:for-each([A1], F(?, A2..))?* | lookup $h?(K) | ulookup $h ! ?(K).  The spec law FormLaw (TLC) says the
result does not depend on the form; the code must give the result of the specification state in every form
(declared signatures of the function items are exercised only by the non-direct forms).

The graph of one configuration is a forest (one tree per seed store); trees are replayed in a fork
pool, with few seeds the pool is filled below the first operation.  A state is entered only along a
transition that passed in both bindings (prefix hygiene); a failure seen on a store that earlier
operations were applied to is confirmed on a freshly rebuilt store (otherwise: check=state_dependence).

Features of a failing case (fingerprints of known findings are sub-patterns): action, binding, check
(result | result_python_api | immutability | result_projection | api_consistency | xpath_projection |
deep_equal_projection | state_dependence | seed), outcome, expected, the key classes taking part
(nan_key, bool_num_keys, qname_string_keys, untyped_mixed_keys, untyped_key - pairs are classified with
the SameKey table PRINTED BY TLC), hit / dup (relation of the parameter key to the stored keys), policy,
index class, arr_size, fn, value_kind, and for deep-equal: first_items, lengths, bool_num_atoms, nan_atoms.

Implementation-dependent points are nondeterminism of the spec (several admissible successor
states for one label): duplicates=use-any, the key retained by duplicates=combine.  Results
whose order is implementation-dependent (map:keys, map:for-each, ?* on maps, map:find) are
compared as bags.  Error codes are compared for FOAY0001 FOAY0002 XQDY0137 FOJS0003 (named by
the property / its plan); any other expected error only as "an ElementPathError".
Second oracle for the SPEC (never for the code): python lists for the array list model.
"""
from __future__ import annotations

import math
import os
import signal
from collections import deque
from decimal import Decimal

from .. import core, tla

NAMED_CODES = {'FOAY0001', 'FOAY0002', 'XQDY0137', 'FOJS0003', 'FOJS0005'}

def _c(profile, depth, lite=False, obs_terminal=True):
    return dict(Profile=profile, Depth=depth, ObsTerminal=obs_terminal, InPlace=False, Lite=lite)


TIERS = {
    # histories of length <= 2
    'quick': [
        ('cons', _c('cons', 1)),                    # constructors: every pair of keys of the alphabet, XQDY0137
        ('keys13-d1', _c('keys13', 1)),             # 13 x 13 key matrix through put/remove/get/contains/find/lookup
        ('keys7-d2', _c('keys7', 2)),               # put/remove then any map function, 7 representative keys
        ('keysx-d1', _c('keysx', 1)),               # numeric keys whose types hold different exact values (2^53+1, 0.1)
        ('mergex-d1', _c('mergex', 1)),
        ('batch', _c('batch', 1)),                  # functions / lookups directly on constructors, once per binding of $x
        ('keysl-d1', _c('keysl', 1)),               # two spellings of one value for every type, cross-type traps, falsy keys
        ('mergel-d1', _c('mergel', 1)),
        ('lookupseq', _c('lookupseq', 1)),          # E?KS with a sequence of maps / arrays on the left
        ('arrtyped', _c('arrtyped', 1)),            # positions of derived integer types / non-integers (XPTY0004)
        ('mergeopts', _c('mergeopts', 1)),          # the options map of map:merge
        ('forms', _c('forms', 1)),                  # every function in every call form (F#n, partial, arrow, fn:apply, ...)
        ('merge13-d1', _c('merge13', 1)),           # merge of two single-entry maps, 13 x 13 keys x 6 policies
        ('mapvals-d1', _c('mapvals', 1)),           # maps of <= 3 entries, nested values, all map functions
        ('arrays-d1', _c('arrays', 1)),             # arrays of <= 3 members, all array functions, positions -1..4
        ('arrays2-d2', _c('arrays2', 2, lite=True)),
        ('deq-d1', _c('deq', 1)),                   # deep-equal on all pairs of a universe of 44 values
        ('mixed-d2', _c('mixed', 2, lite=True)),    # maps and arrays together (values extracted from one another)
    ],
    # histories of length <= 3, larger alphabets
    'thorough': [
        ('cons', _c('cons', 1)),
        ('keys-d2', _c('keys', 2)),                 # the 18-key alphabet (adds false/0, float INF, 2, 'b')
        ('merge-d1', _c('merge', 1)),
        ('merge13-d2', _c('merge13', 2, lite=True)),
        ('mapvals-d2', _c('mapvals', 2, lite=True)),
        ('arrays-d1', _c('arrays', 1)),
        ('arrays-d2', _c('arrays', 2, lite=True)),
        ('deq-d1', _c('deq', 1)),
        ('mixed-d2-obs', _c('mixed', 2, lite=True, obs_terminal=False)),   # histories go on after observers
        ('keys7-d3', _c('keys7', 3)),
        ('keysx-d2', _c('keysx', 2)),
        ('keysl-d2', _c('keysl', 2)),
        ('arrtyped', _c('arrtyped', 1)),
        ('mergeopts', _c('mergeopts', 1)),
        ('forms', _c('forms', 1)),
        ('mergel-d1', _c('mergel', 1)),
        ('lookupseq', _c('lookupseq', 1)),
        ('mergex-d1', _c('mergex', 1)),
        ('batch', _c('batch', 1)),
        ('arrays2-d3', _c('arrays2', 3, lite=True)),
        ('mixed1-d3', _c('mixed1', 3, lite=True)),
    ],
}
ALL_ACTIONS = [
    'MapConsA', 'MapPut', 'MapRemove', 'MapGet', 'MapContains', 'MapSize', 'MapKeys', 'MapEntry', 'MapForEachA',
    'MapFind', 'MapMerge', 'ArrConsSquare', 'ArrConsCurly', 'ArrGet', 'ArrPut', 'ArrAppend', 'ArrSubarray2',
    'ArrSubarray3', 'ArrRemove', 'ArrInsertBefore', 'ArrHead', 'ArrTail', 'ArrReverse', 'ArrJoin', 'ArrFlatten',
    'ArrForEach', 'ArrFilter', 'ArrFold', 'ArrSize', 'Lookup', 'DeepEqual', 'Batch', 'LookupSeq', 'ArrTyped', 'MapMergeOpt', 'Form']
NSEED = {'forms': 2, 'arrtyped': 2, 'mergeopts': 2, 'lookupseq': 3, 'mergel': 2, 'merge': 2, 'merge13': 2, 'mergex': 2, 'deq': 2, 'mixed': 2, 'mixed1': 2, 'cons': 0, 'batch': 0}

# ---------------------------------------------------------------------------------------
# abstract values (as parsed from TLC): atom {'a','x'}, map {'m': (entries {'k','v'})}, array {'r': (values)}
# a value is a tuple of items; a result is {'v': value[, 'bag': ...]} or {'err': code}


def is_atom(i): return 'a' in i
def is_map(i): return 'm' in i
def is_arr(i): return 'r' in i


# (type, lexical form) -> name of the VALUE, as printed by TLC (ValueName of spec/MapArray.tla) for every key of
# the alphabets: two spellings of one value (0a1b / 0A1B, 1.0 / 1.00, PT24H / P1D) are the same atom
_CANON: dict = {}
STRING_NAMES = {'e-acute-nfc': '\u00e9', 'e-acute-nfd': 'e\u0301'}
STRING_NAMES_REV = {v: k for k, v in STRING_NAMES.items()}


def canon_item(i):
    if is_atom(i):
        return ('a', i['a'], _CANON.get((i['a'], i['x']), i['x']))
    if is_map(i):
        return ('m', tuple(sorted(((canon_item(e['k']), canon_value(e['v'])) for e in i['m']), key=repr)))
    if is_arr(i):
        return ('r', tuple(canon_value(x) for x in i['r']))
    return ('?', repr(i))


def canon_value(v):
    return tuple(canon_item(i) for i in v)


def nan_keys_as_double(v):
    """the value with every xs:float NaN KEY retyped to xs:double (only used to CLASSIFY a mismatch:
    'the only difference is the type of a NaN key')"""
    out = []
    for i in v:
        if is_map(i):
            out.append({'m': tuple({'k': ({'a': 'double', 'x': 'NaN'} if e['k']['x'] == 'NaN' else e['k']),
                                    'v': nan_keys_as_double(e['v'])} for e in i['m'])})
        elif is_arr(i):
            out.append({'r': tuple(nan_keys_as_double(x) for x in i['r'])})
        else:
            out.append(i)
    return tuple(out)


def canon_result(v, bag):
    c = canon_value(v)
    if bag == 'top':
        return tuple(sorted(c, key=repr))
    if bag == 'members' and len(c) == 1 and c[0][0] == 'r':
        return (('r', tuple(sorted(c[0][1], key=repr))),)
    if bag == 'inner' and len(c) == 1 and c[0][0] == 'r':
        return (('r', tuple(tuple(sorted(m, key=repr)) for m in c[0][1])),)
    return c


# ---------------------------------------------------------------------------------------
# rendering: abstract -> XPath literal text / Python objects (dumb, 1:1)

def atom_lit(a) -> str:
    t, x = a['a'], a['x']
    if t == 'var':
        return '$' + x          # the hole of a constructor template (Batch)
    if t == 'integer':
        return x
    if t in ('long', 'unsignedByte'):
        return f'xs:{t}({x})'
    if t == 'decimal':
        return x if '.' in x else x + '.0'
    if t == 'double':
        return f"xs:double('{x}')" if x in ('NaN', 'INF', '-INF') else x + 'e0'
    if t == 'float':
        return f"xs:float('{x}')"
    if t == 'string':
        return "'" + STRING_NAMES.get(x, x) + "'"
    if t == 'boolean':
        return x + '()' if x in ('true', 'false') else f"xs:boolean('{x}')"
    if t == 'QName' and x.startswith('{'):
        uri, qn = x[1:].split('}')
        return f"QName('{uri}', '{qn}')"
    if t in ('anyURI', 'untypedAtomic', 'date', 'QName', 'hexBinary', 'base64Binary', 'dateTime', 'gYear',
             'duration', 'dayTimeDuration', 'yearMonthDuration'):
        return f"xs:{t}('{x}')"
    raise ValueError(t)


def item_lit(i) -> str:
    if is_atom(i):
        return atom_lit(i)
    if is_map(i):
        return 'map{' + ', '.join(f"{atom_lit(e['k'])}: {value_lit(e['v'])}" for e in i['m']) + '}'
    return '[' + ', '.join(value_lit(x) for x in i['r']) + ']'


def value_lit(v) -> str:
    if len(v) == 1:
        return item_lit(v[0])
    return '(' + ', '.join(item_lit(i) for i in v) + ')'


_env = None


def env():
    """real classes, imported lazily from the tree under test"""
    global _env
    if _env is None:
        import elementpath
        from elementpath.xpath31 import XPath31Parser
        from elementpath.xpath_tokens import XPathMap, XPathArray
        from elementpath import datatypes as dt
        from elementpath.exceptions import ElementPathError

        class Env:
            pass
        e = Env()
        e.iter_select = elementpath.iter_select
        e.Selector = elementpath.Selector
        e.Parser = XPath31Parser
        e.parser = XPath31Parser()
        e.XPathMap, e.XPathArray = XPathMap, XPathArray
        e.dt = dt
        e.Error = ElementPathError
        e.date_classes = tuple(c for c in (getattr(dt, 'Date10', None), getattr(dt, 'Date', None)) if c)
        _env = e
    return _env


def atom_py(a):
    e = env()
    t, x = a['a'], a['x']
    if t == 'integer':
        return int(x)
    if t == 'long':
        return e.dt.Long(int(x))
    if t == 'unsignedByte':
        return e.dt.UnsignedByte(int(x))
    if t == 'decimal':
        return Decimal(x if '.' in x else x + '.0')
    if t == 'double':
        return float({'NaN': 'nan', 'INF': 'inf', '-INF': '-inf'}.get(x, x))
    if t == 'float':
        return e.dt.Float(x)           # lexical forms NaN / INF / 1
    if t == 'string':
        return STRING_NAMES.get(x, x)
    if t == 'boolean':
        return x in ('true', '1')
    if t == 'hexBinary':
        return e.dt.HexBinary(x)
    if t == 'base64Binary':
        return e.dt.Base64Binary(x)
    if t == 'dateTime':
        return e.dt.DateTime10.fromstring(x)
    if t == 'gYear':
        return e.dt.GregorianYear10.fromstring(x)
    if t == 'dayTimeDuration':
        return e.dt.DayTimeDuration.fromstring(x)
    if t == 'yearMonthDuration':
        return e.dt.YearMonthDuration.fromstring(x)
    if t == 'duration':
        return e.dt.Duration.fromstring(x)
    if t == 'QName' and x.startswith('{'):
        uri, qn = x[1:].split('}')
        return e.dt.QName(uri, qn)
    if t == 'anyURI':
        return e.dt.AnyURI(x)
    if t == 'untypedAtomic':
        return e.dt.UntypedAtomic(x)
    if t == 'date':
        return e.dt.Date10.fromstring(x)
    if t == 'QName':
        return e.dt.QName('', x)
    raise ValueError(t)


def item_py(i):
    e = env()
    if is_atom(i):
        return atom_py(i)
    if is_map(i):
        return e.XPathMap(e.parser, [(atom_py(en['k']), value_py(en['v'])) for en in i['m']])
    return e.XPathArray(e.parser, [value_py(x) for x in i['r']])


def value_py(v):
    """a sequence is a list, a singleton the item itself"""
    if len(v) == 1:
        return item_py(v[0])
    return [item_py(i) for i in v]


# ---------------------------------------------------------------------------------------
# projection: real -> abstract (dumb, through the public Python API)

def num_lex(f) -> str:
    """canonical decimal numeral of a number (the shortest one that reads back as the same value)"""
    if isinstance(f, Decimal):
        return format(f.normalize(), 'f')
    if math.isnan(f):
        return 'NaN'
    if math.isinf(f):
        return 'INF' if f > 0 else '-INF'
    if f == int(f):
        return str(int(f))
    return repr(float(f))


def proj_atom(x):
    e = env()
    if isinstance(x, bool):
        return {'a': 'boolean', 'x': 'true' if x else 'false'}
    if isinstance(x, int):
        return {'a': getattr(type(x), 'name', 'integer'), 'x': str(int(x))}     # xs:integer or a derived type
    if isinstance(x, Decimal):
        return {'a': 'decimal', 'x': num_lex(x) if x.is_finite() else repr(x)}
    if isinstance(x, e.dt.Float):
        return {'a': 'float', 'x': num_lex(x)}
    if isinstance(x, float):
        return {'a': 'double', 'x': num_lex(x)}
    if isinstance(x, e.dt.AnyURI):
        return {'a': 'anyURI', 'x': str(x)}
    if isinstance(x, e.dt.UntypedAtomic):
        return {'a': 'untypedAtomic', 'x': str(x)}
    if isinstance(x, str):
        return {'a': 'string', 'x': STRING_NAMES_REV.get(x, x)}
    if isinstance(x, e.date_classes):
        return {'a': 'date', 'x': str(x)}
    if isinstance(x, e.dt.QName):
        return {'a': 'QName', 'x': ('{%s}%s' % (x.uri, x.qname)) if x.uri else x.qname}
    if isinstance(x, e.dt.HexBinary):
        return {'a': 'hexBinary', 'x': str(x)}
    if isinstance(x, e.dt.Base64Binary):
        return {'a': 'base64Binary', 'x': str(x)}
    if isinstance(x, e.dt.DateTime):
        return {'a': 'dateTime', 'x': str(x)}
    if isinstance(x, e.dt.GregorianYear):
        return {'a': 'gYear', 'x': str(x)}
    if isinstance(x, e.dt.DayTimeDuration):
        return {'a': 'dayTimeDuration', 'x': str(x)}
    if isinstance(x, e.dt.YearMonthDuration):
        return {'a': 'yearMonthDuration', 'x': str(x)}
    if isinstance(x, e.dt.Duration):
        return {'a': 'duration', 'x': str(x)}
    return {'a': 'py:' + type(x).__name__, 'x': repr(x)[:60]}


def proj_item(x, notes=None):
    e = env()
    if isinstance(x, e.XPathMap):
        items = list(x.items())
        if notes is not None:
            keys = list(x.keys())
            vals = list(x.values())
            n = len(x)
            if n != len(items) or n != len(keys) or n != len(vals):
                notes.append(f'len()={n} keys()={len(keys)} values()={len(vals)} items()={len(items)}')
            elif [canon_item(proj_atom(k)) for k in keys] != [canon_item(proj_atom(k)) for k, _ in items]:
                notes.append('keys() and items() disagree')
        return {'m': tuple({'k': proj_atom(k), 'v': proj_value(v, notes)} for k, v in items)}
    if isinstance(x, e.XPathArray):
        items = list(x.items())
        if notes is not None and len(x) != len(items):
            notes.append(f'len()={len(x)} items()={len(items)}')
        return {'r': tuple(proj_value(v, notes) for v in items)}
    if isinstance(x, (list, tuple)):
        return {'a': 'py:nested-sequence', 'x': repr(x)[:60]}
    if x is None:
        return {'a': 'py:None', 'x': 'None'}
    return proj_atom(x)


def proj_value(v, notes=None):
    if isinstance(v, (list, tuple)):
        return tuple(proj_item(i, notes) for i in v)
    return (proj_item(v, notes),)


# ---------------------------------------------------------------------------------------
# calling the real code

class Hang(Exception):
    pass


def _alarm(signum, frame):
    raise Hang()


def xp(expr: str, variables=None, _retry_s: int = 0):
    """outcome of one evaluation: ('val', value) | ('err', code) | ('escaped', cls) | ('hang',)

    The select API flattens arrays that are ITEMS OF THE RESULT SEQUENCE into their members (library
    convention, not judged here); to get the XDM value itself the expression is evaluated as the
    single entry of a map, map{0: (EXPR)}, and the value is read back with XPathMap.values()."""
    e = env()
    signal.signal(signal.SIGALRM, _alarm)
    signal.alarm(_retry_s or 30)
    try:
        r = list(e.iter_select(None, 'map{0: (' + expr + ')}', parser=e.Parser, item=1, variables=variables))
        if len(r) != 1 or not isinstance(r[0], e.XPathMap):
            return ('escaped', 'wrapper-map-not-returned')
        vals = list(r[0].values())
        if len(vals) != 1:
            return ('escaped', 'wrapper-map-size')
        return ('val', vals[0])
    except e.Error as ex:
        return ('err', (getattr(ex, 'code', None) or '').split(':')[-1])
    except Hang:
        if not _retry_s:
            signal.alarm(0)
            return xp(expr, variables, _retry_s=300)      # a stalled machine is not a hang: once more, patiently
        return ('hang',)
    except RecursionError:
        return ('escaped', 'RecursionError')
    except Exception as ex:  # noqa
        return ('escaped', type(ex).__name__)
    finally:
        signal.alarm(0)


def pycall(fn):
    e = env()
    try:
        return ('val', fn())
    except e.Error as ex:
        return ('err', (getattr(ex, 'code', None) or '').split(':')[-1])
    except RecursionError:
        return ('escaped', 'RecursionError')
    except Exception as ex:  # noqa
        return ('escaped', type(ex).__name__)


MAP_FNS = {'entry': 'function($k, $v) { map:entry($k, $v) }', 'kc': 'function($k, $v) { [$k, count($v)] }'}
ARR_FNS = {'count': 'function($x) { count($x) }', 'dup': 'function($x) { ($x, $x) }', 'wrap': 'function($x) { [$x] }'}
ARR_PREDS = {'nonempty': 'function($x) { exists($x) }', 'single': 'function($x) { count($x) = 1 }'}
FOLDS = {
    'cat': 'array:fold-left({h}, (), function($acc, $x) {{ ($acc, $x) }})',
    'cnt': 'array:fold-left({h}, 0, function($acc, $x) {{ $acc + count($x) }})',
    'last': 'array:fold-left({h}, (), function($acc, $x) {{ $x }})',
    'rcat': 'array:fold-right({h}, (), function($x, $acc) {{ ($acc, $x) }})',
    'rlast': 'array:fold-right({h}, (), function($x, $acc) {{ $x }})',
}


class Binder:
    """renders the parameters of one action either as literals or as variables bound to Python values"""

    def __init__(self, binding: str, store: list, operand_text: str | None = None, lookup_form: str | None = None):
        self.binding = binding
        self.vars = {f'h{i + 1}': v for i, v in enumerate(store) if v is not _NOVALUE}
        self.n = 0
        self.operand_text = operand_text      # Batch: handle 0 is a constructor expression, not a variable
        self.lookup_form = lookup_form or ('unary' if binding == 'python' else 'postfix')

    def h(self, n) -> str:
        if n == 0 and self.operand_text is not None:
            return self.operand_text
        return f'$h{n}'

    def hs(self, ns) -> str:
        return '(' + ', '.join(self.h(n) for n in ns) + ')'

    def atom(self, a) -> str:
        if self.binding == 'xpath':
            return atom_lit(a)
        return self._var(atom_py(a))

    def value(self, v) -> str:
        if self.binding == 'xpath':
            return value_lit(v)
        return self._var(value_py(v))

    def atoms(self, ks) -> str:
        if self.binding == 'xpath':
            return '(' + ', '.join(atom_lit(k) for k in ks) + ')'
        return self._var([atom_py(k) for k in ks])

    def int(self, i) -> str:
        if self.binding == 'xpath':
            return str(i)
        return self._var(int(i))

    def ints(self, ps) -> str:
        if self.binding == 'xpath':
            return '(' + ', '.join(str(p) for p in ps) + ')'
        return self._var([int(p) for p in ps])

    def _var(self, obj) -> str:
        self.n += 1
        name = f'p{self.n}'
        self.vars[name] = obj
        return '$' + name


_NOVALUE = object()


def expression(b: Binder, action: str, args: tuple) -> str:
    """the XPath text of one action (the handles are variables bound to earlier REAL results)"""
    py = b.binding == 'python'
    if action == 'MapPut':
        return f'map:put({b.h(args[0])}, {b.atom(args[1])}, {b.value(args[2])})'
    if action == 'MapRemove':
        ks = args[1]
        return f'map:remove({b.h(args[0])}, {b.atom(ks[0]) if len(ks) == 1 else b.atoms(ks)})'
    if action == 'MapGet':
        return f'{b.h(args[0])}({b.atom(args[1])})' if py else f'map:get({b.h(args[0])}, {b.atom(args[1])})'
    if action == 'MapContains':
        return f'map:contains({b.h(args[0])}, {b.atom(args[1])})'
    if action == 'MapSize':
        return f'map:size({b.h(args[0])})'
    if action == 'MapKeys':
        return f'map:keys({b.h(args[0])})'
    if action == 'MapEntry':
        return f'map:entry({b.atom(args[0])}, {b.value(args[1])})'
    if action == 'MapForEachA':
        return f'map:for-each({b.h(args[0])}, {MAP_FNS[args[1]]})'
    if action == 'MapFind':
        return f'map:find({b.h(args[0])}, {b.atom(args[1])})'
    if action == 'MapMerge':
        hs, p = args
        if p == 'default':
            return f'map:merge({b.hs(hs)})'
        return f"map:merge({b.hs(hs)}, map{{'duplicates': '{p}'}})"
    if action == 'MapConsA':
        return 'map{' + ', '.join(f"{b.atom(e['k'])}: {b.value(e['v'])}" for e in args[0]) + '}'
    if action == 'ArrConsSquare':
        return '[' + ', '.join(b.value(x) for x in args[0]) + ']'
    if action == 'ArrConsCurly':
        return 'array{' + (b.value(args[0]) if py else ', '.join(item_lit(i) for i in args[0])) + '}'
    if action == 'ArrGet':
        return f'{b.h(args[0])}({b.int(args[1])})' if py else f'array:get({b.h(args[0])}, {b.int(args[1])})'
    if action == 'ArrPut':
        return f'array:put({b.h(args[0])}, {b.int(args[1])}, {b.value(args[2])})'
    if action == 'ArrAppend':
        return f'array:append({b.h(args[0])}, {b.value(args[1])})'
    if action == 'ArrSubarray2':
        return f'array:subarray({b.h(args[0])}, {b.int(args[1])})'
    if action == 'ArrSubarray3':
        return f'array:subarray({b.h(args[0])}, {b.int(args[1])}, {b.int(args[2])})'
    if action == 'ArrRemove':
        ps = args[1]
        return f'array:remove({b.h(args[0])}, {b.int(ps[0]) if len(ps) == 1 else b.ints(ps)})'
    if action == 'ArrInsertBefore':
        return f'array:insert-before({b.h(args[0])}, {b.int(args[1])}, {b.value(args[2])})'
    if action in ('ArrHead', 'ArrTail', 'ArrReverse', 'ArrFlatten', 'ArrSize'):
        return f'array:{action[3:].lower()}({b.h(args[0])})'
    if action == 'ArrJoin':
        return f'array:join({b.hs(args[0])})'
    if action == 'ArrForEach':
        return f'array:for-each({b.h(args[0])}, {ARR_FNS[args[1]]})'
    if action == 'ArrFilter':
        return f'array:filter({b.h(args[0])}, {ARR_PREDS[args[1]]})'
    if action == 'ArrFold':
        return FOLDS[args[1]].format(h=b.h(args[0]))
    if action == 'Lookup':
        h, ks = args
        if ks[0] == 'name':
            spec = ks[1]
        elif ks[0] == 'int':
            spec = str(ks[1])
        elif ks[0] == 'star':
            spec = '*'
        else:
            spec = '(' + b.atom(ks[1]) + ')'
        # postfix lookup / unary lookup with the handle as context item
        return f'{b.h(h)} ! ?{spec}' if b.lookup_form == 'unary' else f'{b.h(h)}?{spec}'
    if action == 'ArrTyped':
        h, op, i, ty = args
        pos = typed_position(i, ty)
        a = b.h(h)
        return {'ArrGet': f'array:get({a}, {pos})', 'Call': f'{a}({pos})', 'LookupParen': f'{a}?({pos})',
                'ArrPut': f'array:put({a}, {pos}, 2)', 'ArrRemove': f'array:remove({a}, {pos})',
                'ArrInsertBefore': f'array:insert-before({a}, {pos}, 2)', 'ArrSubarray2': f'array:subarray({a}, {pos})',
                'ArrSubarray3': f'array:subarray({a}, {pos}, 1)'}[op]
    if action == 'MapMergeOpt':
        hs, opt = args
        o = {'empty': 'map{}', 'unrelated': "map{'vendor-option': 'use-last', 1: 'reject'}",
             'untyped:use-last': "map{'duplicates': xs:untypedAtomic('use-last')}",
             'anyURI:use-last': "map{'duplicates': xs:anyURI('use-last')}",
             'illegal': "map{'duplicates': 'use-second'}", 'wrongtype': "map{'duplicates': 1}"}[opt]
        return f'map:merge({b.hs(hs)}, {o})'
    if action == 'DeepEqual':
        return f'deep-equal({b.h(args[0])}, {b.h(args[1])})'
    if action == 'Form':
        return form_expression(b, *args)
    raise tla.MachineryError(f'no rendering for action {action}')


FOLD_PARTS = {
    'cat': ('array:fold-left', '()', 'function($acc, $x) { ($acc, $x) }'),
    'cnt': ('array:fold-left', '0', 'function($acc, $x) { $acc + count($x) }'),
    'last': ('array:fold-left', '()', 'function($acc, $x) { $x }'),
    'rcat': ('array:fold-right', '()', 'function($x, $acc) { ($acc, $x) }'),
    'rlast': ('array:fold-right', '()', 'function($x, $acc) { $x }'),
}
FORM_QNAMES = {
    'MapPut': 'map:put', 'MapRemove': 'map:remove', 'MapGet': 'map:get', 'MapContains': 'map:contains', 'MapSize': 'map:size',
    'MapKeys': 'map:keys', 'MapForEachA': 'map:for-each', 'MapFind': 'map:find', 'MapEntry': 'map:entry', 'MapMerge': 'map:merge',
    'ArrGet': 'array:get', 'ArrPut': 'array:put', 'ArrAppend': 'array:append', 'ArrSubarray2': 'array:subarray',
    'ArrSubarray3': 'array:subarray', 'ArrRemove': 'array:remove', 'ArrInsertBefore': 'array:insert-before',
    'ArrHead': 'array:head', 'ArrTail': 'array:tail', 'ArrReverse': 'array:reverse', 'ArrFlatten': 'array:flatten',
    'ArrForEach': 'array:for-each', 'ArrFilter': 'array:filter', 'ArrSize': 'array:size', 'ArrJoin': 'array:join',
}


def call_parts(b: Binder, name: str, hs: tuple, p: tuple):
    """(QName of the function, texts of its XPath arguments A1..An) of one call of the grid FormCalls of the spec;
    for name = 'Call' the function is the map / array item itself: (None, [$h, K])"""
    if name == 'Call':
        return None, [b.h(hs[0]), b.atom(p[0])]
    if name == 'ArrFold':
        q, zero, fn = FOLD_PARTS[p[0]]
        return q, [b.h(hs[0]), zero, fn]
    q = FORM_QNAMES[name]
    if name in ('MapMerge', 'ArrJoin'):
        a1 = b.hs(hs) if len(hs) > 1 else b.h(hs[0])
        return q, [a1] + ([f"map{{'duplicates': '{p[0]}'}}"] if p else [])
    if name == 'MapEntry':
        return q, [b.atom(p[0]), b.value(p[1])]
    a = [b.h(hs[0])]
    if name in ('MapGet', 'MapContains', 'MapFind'):
        a.append(b.atom(p[0]))
    elif name == 'MapPut':
        a += [b.atom(p[0]), b.value(p[1])]
    elif name == 'MapRemove':
        a.append(b.atom(p[0][0]) if len(p[0]) == 1 else b.atoms(p[0]))
    elif name == 'MapForEachA':
        a.append(MAP_FNS[p[0]])
    elif name in ('ArrGet', 'ArrSubarray2'):
        a.append(b.int(p[0]))
    elif name == 'ArrSubarray3':
        a += [b.int(p[0]), b.int(p[1])]
    elif name in ('ArrPut', 'ArrInsertBefore'):
        a += [b.int(p[0]), b.value(p[1])]
    elif name == 'ArrAppend':
        a.append(b.value(p[0]))
    elif name == 'ArrRemove':
        a.append(b.int(p[0][0]) if len(p[0]) == 1 else b.ints(p[0]))
    elif name == 'ArrForEach':
        a.append(ARR_FNS[p[0]])
    elif name == 'ArrFilter':
        a.append(ARR_PREDS[p[0]])
    elif p:
        raise tla.MachineryError(f'no rendering for the parameters of {name}')
    return q, a


def form_expression(b: Binder, form: str, name: str, hs: tuple, p: tuple) -> str:
    """the XPath 3.1 spelling of one call in one call form (spec Forms)"""
    q, a = call_parts(b, name, hs, p)
    if q is None:                                   # the map / array item is the function: $h(K)
        h, k = a
        return {'direct': f'{h}({k})', 'let': f'let $f := {h} return $f({k})', 'partial-first': f'{h}(?)({k})',
                'arrow': f'({k}) => {h}()', 'apply': f'fn:apply({h}, [{k}])', 'for-each': f'fn:for-each({k}, {h})',
                'array-for-each': f'array:for-each([{k}], {h})?*',
                'lookup': f'{h}?({k})', 'ulookup': f'{h} ! ?({k})'}[form]
    n = len(a)
    args = ', '.join(a)
    if form == 'direct':
        return f'{q}({args})'
    if form == 'ref':
        return f'{q}#{n}({args})'
    if form == 'let':
        return f'let $f := {q}#{n} return $f({args})'
    if form == 'partial-first':
        return f"{q}({', '.join(['?'] + a[1:])})({a[0]})"
    if form == 'partial-rest':
        return f"{q}({', '.join([a[0]] + ['?'] * (n - 1))})({', '.join(a[1:])})"
    if form == 'partial-all':
        return f"{q}({', '.join(['?'] * n)})({args})"
    if form == 'arrow':
        return f"({a[0]}) => {q}({', '.join(a[1:])})"
    if form == 'apply':
        return f'fn:apply({q}#{n}, [{args}])'
    if form == 'for-each':
        return f"fn:for-each({a[0]}, {q}({', '.join(['?'] + a[1:])}))"
    if form == 'array-for-each':
        return f"array:for-each([{a[0]}], {q}({', '.join(['?'] + a[1:])}))?*"
    raise tla.MachineryError(f'no spelling for form {form} of {name}')


def typed_position(i: int, ty: str) -> str:
    """the position i written in one of the ways of spec IntegerWays / NonIntegerWays"""
    if ty == 'literal':
        return str(i)
    if ty in ('xs:integer', 'xs:long', 'xs:short', 'xs:unsignedByte', 'xs:positiveInteger'):
        return f"{ty}('{i}')"
    if ty == 'cast-int':
        return f'({i} cast as xs:int)'
    if ty == 'arith':
        return f'({i - 1} + 1)'
    if ty == 'count':
        return 'count((' + ', '.join(['7'] * i) + '))'
    if ty == 'decimal':
        return f'{i}.0'
    if ty == 'double':
        return f'{i}e0'
    if ty == 'string':
        return f"'{i}'"
    if ty == 'boolean':
        return 'true()'
    raise tla.MachineryError(ty)


def python_call(store: list, action: str, args: tuple):
    if action == 'ArrTyped' and args[1] in ('ArrGet', 'Call', 'LookupParen') and args[3] in PY_POSITIONS:
        e = env()
        a, pos = store[args[0] - 1], PY_POSITIONS[args[3]](e, args[2])
        return lambda: a(pos)
    """the same action through the Python API of the value, where one exists"""
    if action == 'MapGet':
        m, k = store[args[0] - 1], atom_py(args[1])
        return lambda: m(k)
    if action == 'ArrGet':
        a, i = store[args[0] - 1], int(args[1])
        return lambda: a(i)
    if action == 'MapConsA':
        e = env()
        items = [(atom_py(en['k']), value_py(en['v'])) for en in args[0]]
        return lambda: e.XPathMap(e.parser, items)
    if action == 'ArrConsSquare':
        e = env()
        items = [value_py(x) for x in args[0]]
        return lambda: e.XPathArray(e.parser, items)
    if action == 'ArrConsCurly':
        e = env()
        items = [item_py(i) for i in args[0]]
        return lambda: e.XPathArray(e.parser, items)
    if action == 'MapSize':
        m = store[args[0] - 1]
        return lambda: len(m)
    if action == 'ArrSize':
        a = store[args[0] - 1]
        return lambda: len(a)
    if action == 'MapKeys':
        m = store[args[0] - 1]
        return lambda: list(m.keys())
    return None


PY_POSITIONS = {
    'xs:integer': lambda e, i: e.dt.Integer(i), 'xs:long': lambda e, i: e.dt.Long(i), 'xs:short': lambda e, i: e.dt.Short(i),
    'xs:unsignedByte': lambda e, i: e.dt.UnsignedByte(i), 'xs:positiveInteger': lambda e, i: e.dt.PositiveInteger(i),
    'cast-int': lambda e, i: e.dt.Int(i), 'literal': lambda e, i: int(i),
    'decimal': lambda e, i: Decimal(i), 'double': lambda e, i: float(i), 'string': lambda e, i: str(i), 'boolean': lambda e, i: True,
}


def operands(action: str, args: tuple) -> list[int]:
    if action in ('MapMerge', 'ArrJoin', 'LookupSeq', 'MapMergeOpt'):
        return sorted(set(args[0]))
    if action == 'DeepEqual':
        return sorted({args[0], args[1]})
    if action == 'Form':
        return sorted(set(args[2]))
    if action in ('MapEntry', 'MapConsA', 'ArrConsSquare', 'ArrConsCurly', 'Batch'):
        return []
    return [args[0]]


# ---------------------------------------------------------------------------------------
# checks

def to_real(outcome):
    """the real value of a handle from an evaluation outcome (a sequence is a list, a singleton the item)"""
    v = outcome[1]
    if isinstance(v, list) and len(v) == 1:
        return v[0]
    return v


def result_mismatch(expected: list, obs):
    """None if the observed outcome is one of the admissible results, else (class, index hint)"""
    if obs[0] in ('escaped', 'hang'):
        return 'escaped:' + (obs[1] if len(obs) > 1 else 'hang')
    if obs[0] == 'err':
        for r in expected:
            if 'err' in r:
                codes = r['err'].split('|')
                if obs[1] in codes or not (set(codes) & NAMED_CODES):
                    return None
        if any('err' in r for r in expected):
            return 'code:' + obs[1]
        return 'err:' + obs[1]
    if all('err' in r for r in expected):
        return 'value_instead_of_error'
    notes = []
    got = proj_value(obs[1], notes)
    for r in expected:
        if 'err' in r:
            continue
        bag = r.get('bag')
        if canon_result(got, bag) == canon_result(r['v'], bag):
            return 'api:' + notes[0] if notes else None
    for r in expected:
        if 'v' in r and canon_result(nan_keys_as_double(got), r.get('bag')) == \
                canon_result(nan_keys_as_double(r['v']), r.get('bag')):
            return 'value:nan_key_type'      # right but for the type (xs:float / xs:double) of a NaN key
    return 'value'


def pick_dst(expected: list, obs):
    """index of the admissible result that the observation realises"""
    if obs[0] == 'err':
        for n, r in enumerate(expected):
            if 'err' in r:
                return n
        return None
    if obs[0] != 'val':
        return None
    got = proj_value(obs[1])
    for n, r in enumerate(expected):
        if 'v' in r and canon_result(got, r.get('bag')) == canon_result(r['v'], r.get('bag')):
            return n
    return None


def xpath_projection(real):
    """the same handle seen through the XPath functions (one evaluation)"""
    e = env()
    if isinstance(real, e.XPathMap):
        o = xp('(map:size($h), for $k in map:keys($h) return [$k, map:get($h, $k), map:contains($h, $k)])', {'h': real})
        if o[0] != 'val':
            return ('bad', o)
        r = o[1] if isinstance(o[1], list) else [o[1]]
        if not r or not isinstance(r[0], int):
            return ('bad', 'no size')
        ents = []
        for a in r[1:]:
            it = a.items() if isinstance(a, e.XPathArray) else None
            if it is None or len(it) != 3 or it[2] is not True:
                return ('bad', f'entry {proj_value(a)}')
            ents.append({'k': proj_item(it[0]), 'v': proj_value(it[1])})
        if r[0] != len(ents):
            return ('bad', f'map:size={r[0]} but {len(ents)} keys')
        return ('ok', ({'m': tuple(ents)},))
    if isinstance(real, e.XPathArray):
        o = xp('(array:size($h), for $i in 1 to array:size($h) return [array:get($h, $i)])', {'h': real})
        if o[0] != 'val':
            return ('bad', o)
        r = o[1] if isinstance(o[1], list) else [o[1]]
        if not r or not isinstance(r[0], int) or r[0] != len(r) - 1:
            return ('bad', f'array:size={r[:1]} but {len(r) - 1} members')
        mems = []
        for a in r[1:]:
            it = a.items() if isinstance(a, e.XPathArray) else None
            if it is None or len(it) != 1:
                return ('bad', f'member {proj_value(a)}')
            mems.append(proj_value(it[0]))
        return ('ok', ({'r': tuple(mems)},))
    return None


_deq_lit_ok: dict = {}


def deep_equal_projection(real, spec_value):
    """deep-equal($h, <literal of the specification value>) must be true (None = not applicable)"""
    lit = value_lit(spec_value)
    ok = _deq_lit_ok.get(lit)
    if ok is None:
        ok = _deq_lit_ok[lit] = xp(lit)[0] == 'val'
    if not ok:
        return None     # the literal itself cannot be built by the code under test (reported elsewhere)
    o = xp(f'deep-equal($h, {lit})', {'h': real})
    if o[0] == 'val' and o[1] is True:
        return True
    return o


# ---------------------------------------------------------------------------------------
# abstract features of a failing case (known findings are sub-patterns of these)

NUMERIC = ('integer', 'decimal', 'double', 'float', 'long', 'unsignedByte')
STRINGLIKE = ('string', 'anyURI', 'untypedAtomic')


FALSY = {('integer', '0'), ('decimal', '0'), ('double', '0'), ('double', '-0'), ('float', '0'), ('float', '-0'),
         ('string', ''), ('anyURI', ''), ('untypedAtomic', ''), ('boolean', 'false'), ('boolean', '0'),
         ('hexBinary', ''), ('base64Binary', ''), ('dayTimeDuration', 'PT0S'), ('yearMonthDuration', 'P0M')}


def has_tz(k) -> bool:
    return k['x'].endswith('Z') or k['x'][-6:-5] in ('+', '-') and k['x'][-3] == ':'


def key_flags(keys) -> dict:
    """abstract classes of the keys taking part in a case (parameter keys and keys of the operand maps):
      nan_key             a NaN key takes part
      bool_num_keys       a boolean key and a numeric key with the values true/1 or false/0
      qname_string_keys   a QName key and a string-like key with the same lexical form
      untyped_mixed_keys  an xs:untypedAtomic key together with a key that is not string-like
      untyped_key         an xs:untypedAtomic key takes part"""
    pairs = [(a, b) for n, a in enumerate(keys) for b in keys[n + 1:]]
    pairs += [(b, a) for a, b in pairs]
    return dict(
        nan_key=any(k['x'] == 'NaN' for k in keys),
        bool_num_keys=any(a['a'] == 'boolean' and b['a'] in NUMERIC and
                          ({'1': 'true', '0': 'false'}.get(a['x'], a['x']), {'1.00': '1', '-0': '0'}.get(b['x'], b['x']))
                          in (('true', '1'), ('false', '0')) for a, b in pairs),
        qname_string_keys=any(a['a'] == 'QName' and b['a'] in STRINGLIKE and a['x'] == b['x'] for a, b in pairs),
        untyped_mixed_keys=any(a['a'] == 'untypedAtomic' and b['a'] not in STRINGLIKE for a, b in pairs),
        untyped_key=any(k['a'] == 'untypedAtomic' for k in keys),
        # a date/time key WITH and one WITHOUT timezone (same type); an xs:hexBinary and an xs:base64Binary key
        tz_presence_keys=any(a['a'] == b['a'] and a['a'] in ('dateTime', 'date', 'gYear') and has_tz(a) != has_tz(b)
                             for a, b in pairs),
        binary_cross_type_keys=any(a['a'] == 'hexBinary' and b['a'] == 'base64Binary' for a, b in pairs),
        falsy_key=any((k['a'], k['x']) in FALSY for k in keys))


def keys_in(v, out: list):
    for i in v:
        if is_map(i):
            for en in i['m']:
                out.append(en['k'])
                keys_in(en['v'], out)
        elif is_arr(i):
            for x in i['r']:
                keys_in(x, out)
    return out


def value_kind(v) -> str:
    if len(v) == 0:
        return 'empty'
    if len(v) > 1:
        return 'sequence'
    return 'atom' if is_atom(v[0]) else 'map' if is_map(v[0]) else 'array'


def key_class(k1, k2) -> str:
    t1, t2 = k1['a'], k2['a']
    if t1 in NUMERIC and t2 in NUMERIC:
        return 'numeric'
    if t1 in STRINGLIKE and t2 in STRINGLIKE:
        return 'stringlike'
    return 'other'


def features(action, args, src_store, expected, binding, check, outcome) -> dict:
    f = dict(action=action, binding=binding, check=check, outcome=outcome,
             expected=('err:' + expected[0]['err']) if 'err' in expected[0] else 'value')
    if action == 'ArrTyped':
        f.update(op=args[1], position_type=args[3])
    if action == 'MapMergeOpt':
        f.update(options=args[1], n_maps=len(args[0]))
        return f
    if action == 'LookupSeq':
        hs, ks = args
        kinds = ['map' if is_map(src_store[h - 1]['v'][0]) else 'array' for h in hs]
        f.update(n_items=len(hs), item_kinds='/'.join(sorted(set(kinds))), lookup=ks[0],
                 n_keys=len(ks[1]) if ks[0] == 'parens' else 1)
        return f
    if action == 'Form':
        form, name, hs, p = args
        exp = expected[0]
        f.update(form=form, act=name, n_params=len(p),
                 result_kind=value_kind(exp['v']) if 'v' in exp else 'error',
                 param_value_kinds='/'.join(sorted({value_kind(x) for x in p if isinstance(x, tuple) and
                                                    all(isinstance(i, dict) for i in x)})) or 'none')
        return f
    if action == 'Batch':
        act, tmpl, params, xs = args
        f.update(act=act, constructor='map' if is_map(tmpl) else 'array',
                 hole_in_key=is_map(tmpl) and any(en['k']['a'] == 'var' for en in tmpl['m']),
                 repeated_binding=len(set(map(repr, xs))) < len(xs))
        if act == 'Lookup':
            f['lookup'] = params[0][0]
        return f
    # keys taking part: parameter keys and the keys of the operand maps
    pkeys = []
    if action in ('MapPut', 'MapGet', 'MapContains', 'MapFind'):
        pkeys = [args[1]]
    elif action == 'MapRemove':
        pkeys = list(args[1])
    elif action == 'MapEntry':
        pkeys = [args[0]]
    elif action == 'MapConsA':
        pkeys = [e['k'] for e in args[0]]
    elif action == 'Lookup':
        ks = args[1]
        f['lookup'] = ks[0]
        if ks[0] == 'paren':
            pkeys = [ks[1]]
        elif ks[0] == 'name':
            pkeys = [{'a': 'string', 'x': ks[1]}]
        elif ks[0] == 'int':
            pkeys = [{'a': 'integer', 'x': str(ks[1])}]
    okeys = []
    for h in operands(action, args):
        r = src_store[h - 1]
        if 'v' in r:
            keys_in(r['v'], okeys)
    allkeys = pkeys + okeys
    f.update(key_flags(allkeys))
    # the PARAMETER key and a key of an operand map are a boolean / numeric pair with equal Python values
    f['param_bool_num'] = any(key_flags([pk, ok])['bool_num_keys'] for pk in pkeys for ok in okeys)
    if pkeys:
        f['key_type'] = pkeys[0]['a'] if len(pkeys) == 1 else 'several'
    # relation of the parameter key(s) to the stored keys: absent / identical / same key of another type
    if pkeys and action != 'MapConsA':
        hit = 'absent'
        for pk in pkeys:
            for ok in okeys:
                if pk == ok:
                    hit = 'identical' if hit == 'absent' else hit
                elif _same_key_class(pk, ok):
                    hit = 'other_type:' + key_class(pk, ok)
        f['hit'] = hit
    if action in ('MapConsA', 'MapMerge'):
        ks = pkeys if action == 'MapConsA' else okeys
        dup = 'none'
        for n, a in enumerate(ks):
            for b in ks[n + 1:]:
                if a == b:
                    dup = 'identical' if dup == 'none' else dup
                elif _same_key_class(a, b):
                    dup = 'other_type:' + key_class(a, b)
        f['dup'] = dup
    if action == 'MapMerge':
        f['policy'] = args[1]
        f['n_maps'] = len(args[0])
        f['self_merge'] = len(set(args[0])) < len(args[0])
    if action in ('MapPut', 'ArrPut', 'ArrInsertBefore'):
        f['value_kind'] = value_kind(args[2])
    if action in ('MapEntry', 'ArrAppend'):
        f['value_kind'] = value_kind(args[1])
    if action in ('ArrGet', 'ArrPut', 'ArrInsertBefore', 'ArrSubarray2', 'ArrSubarray3') or \
            (action == 'Lookup' and args[1][0] == 'int'):
        i = args[1][1] if action == 'Lookup' else args[1]
        r = src_store[args[0] - 1]
        it = r['v'][0]
        if is_arr(it):
            n = len(it['r'])
            f['index'] = 'below' if i < 1 else 'inside' if i <= n else 'size+1' if i == n + 1 else 'beyond'
    if action == 'ArrSubarray3':
        f['length'] = 'negative' if args[2] < 0 else 'ok'
    if action in ('ArrFold', 'ArrForEach', 'ArrFilter', 'MapForEachA'):
        f['fn'] = args[1]
    if action.startswith('Arr') and action not in ('ArrConsSquare', 'ArrConsCurly', 'ArrJoin'):
        it = src_store[args[0] - 1]['v'][0]
        if is_arr(it):
            f['arr_size'] = str(len(it['r'])) if len(it['r']) < 2 else '2+'
            # at any depth: an array member that is a sequence of several items, one of them an array
            f['array_in_sequence_member'] = array_in_sequence_member(it)
    if action == 'DeepEqual':
        a, b = src_store[args[0] - 1]['v'], src_store[args[1] - 1]['v']
        f['same_handle'] = args[0] == args[1]
        f['lengths'] = '/'.join(sorted(str(len(x)) if len(x) < 2 else '2+' for x in (a, b)))
        f['first_items'] = '/'.join(sorted(('atom' if is_atom(x[0]) else 'map' if is_map(x[0]) else 'array') if x else 'none'
                                           for x in (a, b)))
        atoms = atoms_in(a, []) + atoms_in(b, [])
        f['bool_num_atoms'] = key_flags(atoms)['bool_num_keys']
        f['nan_atoms'] = any(x['x'] == 'NaN' for x in atoms)
    return f


def array_in_sequence_member(arr) -> bool:
    for m in arr['r']:
        if len(m) > 1 and any(is_arr(i) for i in m):
            return True
        if any(is_arr(i) and array_in_sequence_member(i) for i in m):
            return True
    return False


def atoms_in(v, out: list):
    for i in v:
        if is_atom(i):
            out.append(i)
        elif is_map(i):
            for en in i['m']:
                out.append(en['k'])
                atoms_in(en['v'], out)
        else:
            for x in i['r']:
                atoms_in(x, out)
    return out


# op:same-key of the specification is NOT re-implemented here: the class of a key pair is read off
# the table that TLC printed (SameKeyTable), loaded once per run
_SAMEKEY: set = set()


def _same_key_class(a, b) -> bool:
    return (a['a'], a['x'], b['a'], b['x']) in _SAMEKEY


# ---------------------------------------------------------------------------------------
# replay of one component (one initial state and everything reachable from it)

class Fail:
    __slots__ = ('features', 'case', 'expected', 'observed', 'what')

    def __init__(self, features, case, expected, observed, what):
        self.features, self.case, self.expected, self.observed, self.what = features, case, expected, observed, what


def build_seed(result, binding):
    if binding == 'xpath':
        o = xp(value_lit(result['v']))
    else:
        o = pycall(lambda: value_py(result['v']))
    return o


def curly_lit(arr) -> str | None:
    """array{ i1, i2 } spelling of an array whose members are all single items"""
    if all(len(m) == 1 for m in arr['r']):
        return 'array{' + ', '.join(item_lit(m[0]) for m in arr['r']) + '}'
    return None


def batch_alternatives(binding, args):
    """Batch(act, template, params, xs): the expression texts E($x) = act applied DIRECTLY to the constructor
    written with the variable $x (every spelling: postfix and unary lookup, square and curly array)"""
    act, tmpl, params, xs = args
    cons = [item_lit(tmpl)]
    if is_arr(tmpl) and curly_lit(tmpl):
        cons.append(curly_lit(tmpl))
    out = []
    for c in cons:
        for form in (('postfix', 'unary') if act == 'Lookup' else (None,)):
            b = Binder(binding, [], operand_text=c, lookup_form=form)
            out.append((expression(b, act, (0,) + tuple(params)), b.vars))
    return out


def apply_batch(args, binding):
    """xpath : ONE expression, the constructor token is evaluated once per item of a for clause:
                 array:join(for $x in (x1, x2, x3) return [ E($x) ])
       python: ONE Selector (parsed once), selected once per binding of the variable $x"""
    e = env()
    xs = args[3]
    res = []
    for text, pvars in batch_alternatives(binding, args):
        if binding == 'xpath':
            full = f"array:join(for $x in ({', '.join(atom_lit(x) for x in xs)}) return [{text}])"
            res.append((full, xp(full, pvars)))
            continue
        full = 'map{0: (' + text + ')}'
        members, out = [], None
        try:
            sel = e.Selector(full, parser=e.Parser)
        except e.Error as ex:
            out = ('err', (getattr(ex, 'code', None) or '').split(':')[-1])
        except Exception as ex:  # noqa
            out = ('escaped', type(ex).__name__)
        for x in xs:
            if out is not None:
                break
            try:
                r = sel.select(None, item=1, variables=dict(pvars, x=atom_py(x)))
                r = r[0] if isinstance(r, list) and len(r) == 1 else r
                if not isinstance(r, e.XPathMap):
                    out = ('escaped', 'wrapper-map-not-returned')
                else:
                    members.append(list(r.values())[0])
            except e.Error as ex:
                out = ('err', (getattr(ex, 'code', None) or '').split(':')[-1])
            except RecursionError:
                out = ('escaped', 'RecursionError')
            except Exception as ex:  # noqa
                out = ('escaped', type(ex).__name__)
        if out is None:
            out = ('val', e.XPathArray(e.parser, members))
        res.append((f'Selector({full!r}) selected with $x = ' + ', '.join(atom_lit(x) for x in xs), out))
    return res


def lookup_spec_text(b, ks) -> str:
    if ks[0] == 'name':
        return ks[1]
    if ks[0] == 'int':
        return str(ks[1])
    if ks[0] == 'star':
        return '*'
    if ks[0] == 'paren':
        return '(' + b.atom(ks[1]) + ')'
    # 'parens': a sequence of 0, 1, 2 keys
    return '(' + (b.atoms(ks[1]) if len(ks[1]) != 1 else b.atom(ks[1][0])) + ')'


def apply_lookup_seq(store, args, binding):
    """E?KS with a SEQUENCE of maps / arrays on the left: postfix, unary after '!', and item by item"""
    hs, ks = args
    res = []
    for form in ('postfix', 'unary', 'for'):
        b = Binder(binding, store)
        left = b.hs(hs)
        spec = lookup_spec_text(b, ks)
        text = {'postfix': f'{left}?{spec}', 'unary': f'{left} ! ?{spec}',
                'for': f'for $i in {left} return $i?{spec}'}[form]
        res.append((text, xp(text, b.vars)))
    return res


def apply_action(store, action, args, binding):
    """all spellings of one action: [(text, outcome)]; the first one is the reference"""
    if action == 'Batch':
        return apply_batch(args, binding)
    if action == 'LookupSeq':
        return apply_lookup_seq(store, args, binding)
    b = Binder(binding, store)
    text = expression(b, action, args)
    return [(text, xp(text, b.vars))]


def build_store(seeds, history, binding):
    """real store of a state: seeds, then the history (transitions that passed)"""
    store = []
    for r in seeds:
        o = build_seed(r, binding)
        if o[0] != 'val':
            return None
        store.append(to_real(o))
    for action, args, expected in history:
        _, o = apply_action(store, action, args, binding)[0]
        store.append(to_real(o) if o[0] == 'val' else _NOVALUE)
    return store


def check_step(src_store_abs, dsts_abs, seeds, history, action, args, binding, store):
    """apply one action to the real store and run every check; returns (fails, chosen dst index, new real)"""
    fails = []
    expected = [d[-1] for d in dsts_abs]
    case = dict(seeds=seeds, history=[[a, ar, ex] for a, ar, ex in history], step=[action, args],
                binding=binding, src_store=src_store_abs, dsts=dsts_abs)

    def fail(check, outcome, exp, obs, what):
        fails.append(Fail(features(action, args, src_store_abs, expected, binding, check, outcome),
                          dict(case, check=check), exp, obs, what))

    alts = apply_action(store, action, args, binding)
    text, obs = alts[0]
    mm = result_mismatch(expected, obs)
    for n, (t_alt, o_alt) in enumerate(alts):
        m_alt = mm if n == 0 else result_mismatch(expected, o_alt)
        if m_alt is not None:
            fail('result', m_alt, expected, proj_value(o_alt[1]) if o_alt[0] == 'val' else o_alt, t_alt)
            mm = mm or m_alt
    n_eval = len(alts) * (len(args[3]) if action == 'Batch' and binding == 'python' else 1)
    # the same action through the Python API of the value
    if binding == 'python':
        fn = python_call(store, action, args)
        if fn is not None:
            o2 = pycall(fn)
            n_eval += 1
            mm2 = result_mismatch(expected, o2)
            if mm2 is not None:
                fail('result_python_api', mm2, expected, proj_value(o2[1]) if o2[0] == 'val' else o2,
                     f'python API call for {action}')
    chosen = pick_dst(expected, obs)
    new_real = to_real(obs) if obs[0] == 'val' else _NOVALUE
    # ALL live handles, after the step (the immutability check)
    ops = operands(action, args)
    dst = dsts_abs[chosen] if chosen is not None else dsts_abs[0]
    full = store + [new_real]
    for h, real in enumerate(full, 1):
        spec_r = dst[h - 1]
        is_new = h == len(full)
        if real is _NOVALUE or 'err' in spec_r:
            continue
        if is_new and (chosen is None or mm is not None):
            continue            # already reported as a wrong result
        notes = []
        got = proj_value(real, notes)
        bag = spec_r.get('bag')
        if canon_result(got, bag) != canon_result(spec_r['v'], bag):
            role = 'operand' if h in ops else 'other'
            fail('result_projection' if is_new else 'immutability', 'new_value' if is_new else f'{role}_changed',
                 spec_r['v'], got, f'handle {h} after {text}')
            continue
        if notes:
            fail('api_consistency', 'new' if is_new else 'old', spec_r['v'], notes, f'handle {h} after {text}')
            continue
        if binding != 'xpath' or not (is_new or h in ops) or len(spec_r['v']) != 1 or bag:
            continue
        xpj = xpath_projection(real)
        if xpj is not None:
            n_eval += 1
            if xpj[0] != 'ok' or canon_value(xpj[1]) != canon_value(spec_r['v']):
                fail('xpath_projection', 'new' if is_new else 'old', spec_r['v'], xpj[1],
                     f'map:size/keys/get/contains or array:size/get of handle {h} after {text}')
                continue
            dq = deep_equal_projection(real, spec_r['v'])
            if dq is not None:
                n_eval += 1
                if dq is not True:
                    fail('deep_equal_projection', 'new' if is_new else 'old', True, dq,
                         f'deep-equal($h{h}, {value_lit(spec_r["v"])}) after {text}')
    return fails, chosen, new_real, n_eval, text


BINDINGS = ('xpath', 'python')

_G = {}     # graph shared with the forked workers: states, out-edges


def second_oracle(src_store, action, args, dsts):
    """python lists as a second oracle for the array list model of the SPEC"""
    if not action.startswith('Arr') or action in ('ArrConsSquare', 'ArrConsCurly', 'ArrFlatten', 'ArrFold',
                                                  'ArrForEach', 'ArrFilter', 'ArrJoin'):
        return None
    a = list(src_store[args[0] - 1]['v'][0]['r'])
    n = len(a)
    want = None
    err = False
    if action == 'ArrGet':
        err = not 1 <= args[1] <= n
        want = None if err else ('val', a[args[1] - 1])
    elif action == 'ArrPut':
        err = not 1 <= args[1] <= n
        if not err:
            a[args[1] - 1] = args[2]
            want = ('arr', a)
    elif action == 'ArrAppend':
        want = ('arr', a + [args[1]])
    elif action == 'ArrSubarray2':
        err = not 1 <= args[1] <= n + 1
        want = ('arr', a[args[1] - 1:])
    elif action == 'ArrSubarray3':
        s, ln = args[1], args[2]
        err = not 1 <= s <= n + 1 or ln < 0 or s + ln > n + 1
        want = ('arr', a[s - 1:s - 1 + ln])
    elif action == 'ArrRemove':
        err = any(not 1 <= p <= n for p in args[1])
        want = ('arr', [x for i, x in enumerate(a, 1) if i not in args[1]])
    elif action == 'ArrInsertBefore':
        err = not 1 <= args[1] <= n + 1
        if not err:
            a.insert(args[1] - 1, args[2])
            want = ('arr', a)
    elif action == 'ArrHead':
        err = n == 0
        want = None if err else ('val', a[0])
    elif action == 'ArrTail':
        err = n == 0
        want = ('arr', a[1:])
    elif action == 'ArrReverse':
        want = ('arr', a[::-1])
    elif action == 'ArrSize':
        want = ('val', ({'a': 'integer', 'x': str(n)},))
    else:
        return None
    got = dsts[0][-1]
    if err:
        return None if 'err' in got else f'{action}{args}: spec gives a value, the list model an error'
    if 'err' in got:
        return f'{action}{args}: spec gives {got}, the list model a value'
    exp = canon_value(want[1]) if want[0] == 'val' else (('r', tuple(canon_value(x) for x in want[1])),)
    if canon_value(got['v']) != exp:
        return f'{action}{args}: spec {got} python {want}'
    return None


def replay_component(job):
    """job = (init state, start state, history of the start state or None, root_only).
    The walk starts at `start` (the initial state itself, or a state reached by the first operation whose
    history was established by the root job) and covers everything below it; with root_only only the
    edges of the start state are replayed and the states reached are handed back as new jobs."""
    init_sid, start_sid, start_hist, root_only = job
    states, out = _G['states'], _G['out']
    nseed = _G['nseed']
    init_store = states[init_sid]['store']
    seeds = list(init_store[:nseed])
    fails: list[Fail] = []
    stats = dict(groups=0, evals=0, edges=0, nontrivial=set(), oracle=[], samples=[], reached=[], children=[])
    hist = {start_sid: list(start_hist or [])}
    queue = deque([start_sid])
    bindings = []
    allkeys = keys_in(sum((tuple(x['v']) for x in seeds), ()), [])
    for binding in BINDINGS:
        st = build_store(seeds, [], binding)
        problem = None
        if st is None:
            problem = ('not_built', 'could not be constructed')
        else:
            for r, real in zip(seeds, st):
                got = proj_value(real)
                if canon_value(got) != canon_value(r['v']):
                    only_nan = canon_value(nan_keys_as_double(got)) == canon_value(nan_keys_as_double(r['v']))
                    problem = ('value:nan_key_type' if only_nan else 'value', got)
        if problem and start_sid != init_sid:
            pass        # reported by the root job of this component
        elif problem:
            src_abs = list(init_store)
            fails.append(Fail(dict(action='Seed', binding=binding, check='seed', outcome=problem[0], expected='value',
                                   **key_flags(allkeys)),
                              dict(seeds=seeds, binding=binding, history=[], step=['Seed', []],
                                   src_store=src_abs, dsts=[src_abs], check='seed'),
                              [x['v'] for x in seeds], problem[1], 'seed ' + ' ; '.join(value_lit(x['v']) for x in seeds)))
        else:
            bindings.append(binding)
    while queue:
        s = queue.popleft()
        edges = out.get(s)
        if not edges:
            continue
        src_abs = states[s]['store']
        groups: dict = {}
        for d, a, args in edges:
            groups.setdefault((a, args), []).append(d)
        stores = {}
        for (action, args), dsts in groups.items():
            stats['groups'] += 1
            stats['edges'] += len(dsts)
            dsts_abs = [states[d]['store'] for d in dsts]
            msg = second_oracle(src_abs, action, args, dsts_abs)
            if msg:
                stats['oracle'].append(msg)
            group_fails = []
            chosen_all = set()
            for binding in bindings:
                st = stores.get(binding)
                fresh = False
                if st is None:
                    st = build_store(seeds, hist[s], binding)
                    fresh = True
                before = list(st)
                f, chosen, new_real, n_eval, text = check_step(list(src_abs), [list(x) for x in dsts_abs], seeds,
                                                               hist[s], action, args, binding, st)
                stats['evals'] += n_eval
                if f and not fresh:
                    # confirm on a freshly built store: a failure must not be an artefact of sharing the store
                    st2 = build_store(seeds, hist[s], binding)
                    f2, chosen, new_real, n_eval, text = check_step(list(src_abs), [list(x) for x in dsts_abs], seeds,
                                                                    hist[s], action, args, binding, st2)
                    stats['evals'] += n_eval
                    if not f2:
                        f2 = [Fail(dict(x.features, check='state_dependence'), x.case, x.expected, x.observed,
                                   x.what + ' (only on a store that earlier operations were applied to)') for x in f]
                    f = f2
                if f:
                    stores.pop(binding, None)     # possibly corrupted: rebuild for the next group
                else:
                    stores[binding] = before      # the operands are observably unchanged: keep using them
                group_fails += f
                if chosen is not None:
                    chosen_all.add(chosen)
                if len(stats['samples']) < 2 and binding == 'xpath' and len(hist[s]) >= 1:
                    stats['samples'].append(dict(history=[value_lit(x['v']) for x in seeds] +
                                                 [f'{a}{tla.to_tla(list(ar))}' for a, ar, _ in hist[s]], step=text,
                                                 expected=[tla.to_tla(_plain(x[-1])) for x in dsts_abs]))
            fails += group_fails
            stats['nontrivial'].add(hash((action, args, tuple(src_abs[h - 1] for h in operands(action, args)))))
            if not group_fails and len(chosen_all) == 1:
                d = dsts[next(iter(chosen_all))]
                if d not in hist:
                    hist[d] = hist[s] + [(action, args, dsts_abs[next(iter(chosen_all))][-1])]
                    if root_only:
                        if out.get(d):
                            stats['children'].append((init_sid, d, hist[d], False))
                    else:
                        queue.append(d)
    stats['reached'] = [d for d in hist if out.get(d)]
    return fails, stats


def _plain(v):
    if isinstance(v, dict):
        return {k: _plain(x) for k, x in v.items()}
    if isinstance(v, (tuple, list)):
        return [_plain(x) for x in v]
    return v


def _worker(chunk):
    return [replay_component(job) for job in chunk]


# ---------------------------------------------------------------------------------------

def py_key_class(t: str, x: str):
    """SECOND ORACLE for the key tables of the SPEC (never for the code): the class of a key computed with
    python fractions / bytes / base64 / datetime / a duration parser: two keys are the same key iff equal"""
    import base64
    import datetime
    import re
    import struct
    from fractions import Fraction
    if t in NUMERIC:
        if x in ('NaN', 'INF', '-INF'):
            return ('numeric', x)
        if t in ('integer', 'decimal'):
            return ('numeric', Fraction(x))
        f = float(x)
        if t == 'float':
            f = struct.unpack('f', struct.pack('f', f))[0]
        return ('numeric', Fraction(f))
    if t in STRINGLIKE:
        return ('string', STRING_NAMES.get(x, x))
    if t == 'boolean':
        return ('boolean', x in ('true', '1'))
    if t == 'hexBinary':
        return ('hexBinary', bytes.fromhex(x))
    if t == 'base64Binary':
        return ('base64Binary', base64.b64decode(''.join(x.split())))
    if t in ('duration', 'dayTimeDuration', 'yearMonthDuration'):
        m = re.fullmatch(r'P(?:(\d+)Y)?(?:(\d+)M)?(?:(\d+)D)?(?:T(?:(\d+)H)?(?:(\d+)M)?(?:(\d+)S)?)?', x)
        y, mo, d, h, mi, sec = (int(g or 0) for g in m.groups())
        return ('duration', 12 * y + mo, ((d * 24 + h) * 60 + mi) * 60 + sec)
    if t == 'dateTime':
        v = datetime.datetime.fromisoformat(x.replace('Z', '+00:00'))
        if v.tzinfo is None:
            return ('dateTime', 'no-tz', v)
        return ('dateTime', 'tz', v.astimezone(datetime.timezone.utc))
    if t == 'gYear':
        m = re.fullmatch(r'(\d{4})(Z|[+-]\d\d:\d\d)?', x)
        tz = m.group(2)
        return ('gYear', 'no-tz' if tz is None else 'tz', m.group(1), None if tz is None else tz.replace('Z', '+00:00'))
    if t == 'QName':
        return ('QName',) + (tuple(x[1:].split('}')[0:1]) + (x.split(':')[-1],) if x.startswith('{') else ('', x))
    return (t, x)


def load_samekey_table(chk, wd):
    """op:same-key and the value names as decided by the specification, printed once by TLC (used for the
    feature classes and to compare two spellings of one value), and cross-checked against python
    fractions / bytes / base64 / datetime (disagreement = machinery failure)"""
    gen = os.path.join(wd, 'gen')
    os.makedirs(gen, exist_ok=True)
    with open(os.path.join(gen, 'MapArrayTables.tla'), 'w') as f:
        f.write('---- MODULE MapArrayTables ----\nEXTENDS MapArray\n'
                'AllKeys == KeysExt \\cup KeysX \\cup KeysL \\cup KeysZ\n'
                'ASSUME \\A k1, k2 \\in AllKeys : SameKey(k1, k2) => PrintT(<<"samekey", <<k1.a, k1.x, k2.a, k2.x>>>>)\n'
                'ASSUME \\A k \\in AllKeys : PrintT(<<"key", <<k.a, k.x, ValueName(k).c, ValueName(k).n>>>>)\n====\n')
    cfg = tla.cfg_text(dict(Profile='selftest', Depth=0, ObsTerminal=True, InPlace=False, Lite=False))
    r = tla.require_ok(tla.run_tlc('MapArrayTables', cfg, wd, workers=1, extra_modules_dir=gen), 'MapArrayTables')
    for t in tla.printed_values(r.output, 'samekey'):
        _SAMEKEY.add(tuple(t))
    keys = []
    for a, x, c, n in tla.printed_values(r.output, 'key'):
        keys.append((a, x))
        _CANON[(a, x)] = c + ':' + n
    if len(keys) < 60 or any((a, x, a, x) not in _SAMEKEY for a, x in keys):
        raise tla.MachineryError('SameKey table is not reflexive / key alphabet not printed')
    bad = []
    for a1, x1 in keys:
        for a2, x2 in keys:
            want = py_key_class(a1, x1) == py_key_class(a2, x2)
            if want != ((a1, x1, a2, x2) in _SAMEKEY):
                bad.append((a1, x1, a2, x2, want))
    if bad:
        raise tla.MachineryError(f'spec SameKey disagrees with the python second oracle: {bad[:4]}')
    chk.coverage['samekey_pairs_cross_checked'] = len(keys) ** 2


def self_test(chk, wd):
    """the specification must reject the write-through variant of array:put/append/insert-before"""
    cfg = tla.cfg_text(dict(Profile='selftest', Depth=2, ObsTerminal=True, InPlace=True, Lite=False),
                       invariants=['Laws'], properties=['Immutable'])
    r = tla.run_tlc('MapArray', cfg, wd, workers=2)
    if r.ok or r.violated != 'Immutable':
        raise tla.MachineryError(f'self-test: TLC accepted the in-place variant (violated={r.violated}); '
                                 'the action property Immutable is vacuous')
    chk.coverage['selftest'] = 'MapArray with InPlace=TRUE is rejected by TLC: action property Immutable violated'


def run_tlc_config(chk, name, consts):
    wd = os.path.join(chk.scratch, name)
    dot = os.path.join(wd, 'g.dot')
    cfg = tla.cfg_text(consts, invariants=['Laws'], properties=['Immutable'])
    r = tla.run_tlc('MapArray', cfg, wd, dump_dot=dot, workers=3)
    return r, dot


def run_config(chk, name, consts, tlc=None):
    r, dot = tlc if tlc is not None else run_tlc_config(chk, name, consts)
    tla.require_ok(r, f'MapArray/{name}', min_distinct=10)
    chk.model(f'MapArray/{name}', r)
    g = tla.load_dot(dot)
    os.remove(dot)
    out = {}
    for s, d, a, args in g.edges:
        out.setdefault(s, []).append((d, a, args))
    _G['states'], _G['out'] = g.states, out
    _G['nseed'] = NSEED.get(consts['Profile'], 1)
    acts = sorted({a for _, _, a, _ in g.edges})
    procs = int(os.environ.get('VERIF_PROCS', '16'))
    inits = sorted(g.init)
    split = len(inits) < 2 * procs          # few components: parallelise below the first operation
    jobs = [(sid, sid, None, split) for sid in inits]
    n_fail = 0
    tot = dict(groups=0, evals=0, edges=0)
    oracle = []
    reached = set()
    distinct = _G.setdefault('distinct', set())      # across the configurations of one run
    while jobs:
        results = core.pool_map(_worker, core.chunked(jobs, max(1, min(len(jobs), 4 * procs))), procs=procs)
        jobs = []
        for res in results:
            for fails, stats in res:
                for k in tot:
                    tot[k] += stats[k]
                oracle += stats['oracle']
                distinct.update(stats['nontrivial'])
                reached.update(stats['reached'])
                jobs += stats['children']
                for smp in stats['samples']:
                    chk.sample(smp, cap=16)
                for f in fails:
                    n_fail += 1
                    chk.fail(f.features, f.case, f.expected, f.observed, f.what)
    expandable = {sid for sid in out if out[sid]}
    tot['unreached'] = len(expandable - reached)
    if oracle:
        raise tla.MachineryError(f'spec/MapArray disagrees with the python list model: {oracle[:5]}')
    if tot['edges'] == 0:
        raise tla.MachineryError(f'{name}: nothing replayed')
    chk.add('transitions', len(g.edges))
    chk.add('traces_validated_against_impl', tot['edges'])
    chk.add('evaluations', tot['evals'])
    chk.coverage['distinct_nontrivial'] = len(distinct)
    chk.add('unreached_states', tot['unreached'])
    chk.coverage.setdefault('configs', []).append(dict(
        name=name, constants=consts, states=r.distinct, edges=len(g.edges), replayed_edges=tot['edges'],
        labels=tot['groups'], evaluations=tot['evals'], unreached_states=tot['unreached'], actions=acts,
        failing_checks=n_fail))
    print(f'  {name}: states={r.distinct} edges={len(g.edges)} replayed={tot["edges"]} evals={tot["evals"]} '
          f'unreached={tot["unreached"]} failing_checks={n_fail} tlc={r.wall_s:.1f}s', flush=True)
    for k in ('states', 'out', 'nseed'):
        _G.pop(k, None)


def run(chk: core.Check) -> None:
    core.setup_repo_path()
    chk.assumptions += [
        'spec/MapArray.tla is the oracle; its laws (finite-map laws, list model, deep-equal equivalence, Immutable) are TLC invariants / action properties; the in-place variant is rejected by TLC (self-test)',
        'implementation-dependent points are nondeterminism of the spec (use-any, key retained by combine) or compared as bags (map:keys, map:for-each, ?* on maps, map:find)',
        'error codes compared for FOAY0001 FOAY0002 XQDY0137 FOJS0003 only; codepoint collation; date keys without timezone; numeric keys exactly representable in all numeric types',
        'python lists cross-check the array list model of the SPEC (disagreement = machinery failure)',
        'call forms (spec Forms / FormLaw): the result of a map: / array: function or of the dynamic call of a map / array does not depend on the way the call is written (static call, F#n, let-bound item, partial application, arrow, fn:apply, fn:for-each, array:for-each, lookup); merge policies use-any / combine (nondeterministic) are not in that grid',
    ]
    load_samekey_table(chk, os.path.join(chk.scratch, 'tables'))
    self_test(chk, os.path.join(chk.scratch, 'selftest'))
    # the TLC runs are independent: a few at a time, while the replay (a fork pool) works through them in order
    from concurrent.futures import ThreadPoolExecutor
    with ThreadPoolExecutor(max_workers=4) as ex:
        only = os.environ.get('C15_ONLY')          # debugging aid: run one configuration (no anti-vacuity check then)
        futs = [(name, consts, ex.submit(run_tlc_config, chk, name, consts)) for name, consts in TIERS[chk.tier]
                if not only or name in only.split(',')]
        for name, consts, fut in futs:
            run_config(chk, name, consts, tlc=fut.result())
    # anti-vacuity: every action of MapArray!Next must have fired (and been replayed) in this tier
    fired = {a for c in chk.coverage['configs'] for a in c['actions']}
    missing = sorted(set(ALL_ACTIONS) - fired)
    if missing and not only:
        raise tla.MachineryError(f'actions of MapArray that never fired in tier {chk.tier}: {missing}')
    chk.coverage['actions_fired'] = len(fired)
    chk.coverage['exhaustive'] = True
    chk.coverage['rule'] = (
        'every edge of the TLC graphs of MapArray (history of map/array operations on a store of handles; seeds x '
        'action x parameter grid, histories to Depth) is replayed on real values in two bindings (XPath literals / '
        'Python constructors + variables) and ALL live handles are projected after every step; '
        'distinct_nontrivial = distinct (action, parameters, operand values)')


def replay(rec: dict) -> int:
    core.setup_repo_path()
    c = rec['case']

    def tup(v):
        if isinstance(v, list):
            return tuple(tup(x) for x in v)
        if isinstance(v, dict):
            return {k: tup(x) for k, x in v.items()}
        return v
    seeds = [tup(x) for x in c['seeds']]
    history = [(a, tup(ar), tup(ex)) for a, ar, ex in c['history']]
    action, args = c['step'][0], tup(c['step'][1])
    binding = c['binding']
    print('seeds    :', [value_lit(s['v']) for s in seeds], ' binding', binding)
    print('history  :', [(a, ar) for a, ar, _ in history])
    if action == 'Seed':
        st = build_store(seeds, [], binding)
        got = None if st is None else [proj_value(x) for x in st]
        print('observed :', got)
        if st is None or any(canon_value(g) != canon_value(r['v']) for g, r in zip(got, seeds)):
            print('VIOLATION property=C15 replay=(replayed) seed value is not constructed as written')
            return 1
        return 0
    store = build_store(seeds, history, binding)
    if store is None:
        print('VIOLATION property=C15 replay=(replayed) seed value cannot be constructed')
        return 1
    fails, chosen, new_real, n_eval, text = check_step([tup(x) for x in c['src_store']], [tup(x) for x in c['dsts']],
                                                       seeds, history, action, args, binding, store)
    print('step     :', text)
    print('expected :', [tla.to_tla(_plain(d[-1])) for d in c['dsts']])
    for f in fails:
        print(f'  check={f.features["check"]} outcome={f.features["outcome"]} observed={f.observed} ({f.what})')
    same = [f for f in fails if f.features['check'] == c.get('check')]
    if same or (fails and c.get('check') == 'state_dependence'):
        print(f'VIOLATION property=C15 replay=(replayed) check={c.get("check")}')
        return 1
    if fails:
        print('VIOLATION property=C15 replay=(replayed) (other checks fail)')
        return 1
    print('no disagreement')
    return 0
