"""X05 (extension, not one of the listed properties): xml:id and fn:id / fn:element-with-id -- spec/IdScope.tla.

TLC builds documents element by element (xml:id absent / i1 / i2, duplicates included, siblings or a nested chain) and
asks fn:id with token lists; laws: document order without duplicates, first element wins for a duplicated id,
completeness, the answer depends on the SET of tokens only.  Every Ask edge is replayed on xml.etree and lxml documents:
  str    id('t1 t2')/name()                (1.0: count / name of the node-set through a predicate-free path)
  seq    id(('t1','t2'))/name()            2.0+
  ws     id('  t1 \t t2 ')                 white space around / between tokens
  node   id('t1 t2', <some element>)       2.0+, the document is found from any node
  step   /r//*[last()]/id('t1 t2')         2.0+, from a moving focus
  ewi    element-with-id('t1 t2')          3.0+
"""
from __future__ import annotations

import os

from engine import core, tla

LEVEL = 'model_checking'
INVS = ['TypeOK', 'InvOrdered', 'InvFirst', 'InvComplete', 'InvSetOnly']
LISTS = {'t1': ('i1',), 't2': ('i2',), 't12': ('i1', 'i2'), 't21': ('i2', 'i1'), 't11': ('i1', 'i1'),
         't212': ('i2', 'i1', 'i2'), 'tz': ('zz',), 't1z': ('i1', 'zz'), 'tnone': ()}


def render(ids, shape) -> str:
    def el(j):
        return f'e{j}' + ('' if ids[j - 1] == 'none' else f' xml:id="{ids[j - 1]}"')
    n = len(ids)
    if shape == 'flat':
        return '<r>' + ''.join(f'<{el(j)}/>' for j in range(1, n + 1)) + '</r>'
    return '<r>' + ''.join(f'<{el(j)}>' for j in range(1, n + 1)) + ''.join(f'</e{j}>' for j in range(n, 0, -1)) + '</r>'


def forms(version, tokens):
    s = ' '.join(tokens)
    out = [('str', f"id('{s}')")]
    if tokens:
        out.append(('ws', "id('  " + ' \t '.join(tokens) + " ')"))
    if version != '1.0':
        seq = '(' + ', '.join(f"'{t}'" for t in tokens) + ')'
        out += [('seq', f'id({seq})'), ('node', f"id('{s}', (//*)[last()])"), ('step', f"(//*)[last()]/id('{s}')"),
                ('nodedoc', f"id('{s}', /)")]
        if version in ('3.0', '3.1'):
            out.append(('ewi', f"element-with-id('{s}')"))
    return out


_tok: dict = {}


def work(job):
    import io
    import xml.etree.ElementTree as ET
    from lxml import etree as LET
    import elementpath
    from elementpath.xpath30 import XPath30Parser
    from elementpath.xpath31 import XPath31Parser
    classes = {'1.0': elementpath.XPath1Parser, '2.0': elementpath.XPath2Parser, '3.0': XPath30Parser, '3.1': XPath31Parser}
    out = []
    for ids, shape, name, ans in job:
        text = render(ids, shape)
        want = [f'e{j}' for j in ans]
        for lib in ('etree', 'lxml'):
            # the attributes are set programmatically: libxml2 refuses to PARSE a duplicated xml:id
            bare = render(['none'] * len(ids), shape)
            root = ET.parse(io.StringIO(bare)) if lib == 'etree' else LET.parse(io.BytesIO(bare.encode()))
            for j, el in enumerate(list(root.getroot().iter())[1:], 1):
                if ids[j - 1] != 'none':
                    el.set('{http://www.w3.org/XML/1998/namespace}id', ids[j - 1])
            for version, cls in classes.items():
                for form, expr in forms(version, LISTS[name]):
                    key = (version, expr)
                    try:
                        tok = _tok.get(key)
                        if tok is None:
                            tok = _tok[key] = cls().parse(expr)
                        val = tok.evaluate(elementpath.XPathContext(root))
                        got = [x.name for x in val] if isinstance(val, list) else ('value', repr(val))
                    except elementpath.ElementPathError as e:
                        got = ('err', (getattr(e, 'code', '') or '').split(':')[-1])
                    except Exception as e:  # noqa: BLE001
                        got = ('escaped', type(e).__name__)
                    out.append((got == want, ids, shape, name, form, version, lib, expr, want, got))
    return out


def run(chk: core.Check) -> None:
    consts = {'MaxElems': 3 if chk.tier == 'quick' else 4, 'IdVals': {'i1', 'i2'}, 'TokenLists': set(LISTS)}
    wd = os.path.join(chk.scratch, 'id')
    dot = os.path.join(wd, 'g.dot')
    r = tla.require_ok(tla.run_tlc('IdScope', tla.cfg_text(consts, invariants=INVS), wd, dump_dot=dot, coverage=True),
                       'IdScope', min_distinct=100)
    chk.model('IdScope/' + chk.tier, r)
    g = tla.load_dot(dot)
    chk.add('transitions', len(g.edges))
    jobs, nontrivial = [], 0
    for s, d, a, args in g.edges:
        if a != 'Ask':
            continue
        st = g.states[d]
        ans = tuple(st['ans'])
        nontrivial += len(ans) > 0
        jobs.append((tuple(st['ids']), st['shape'], st['q'], ans))
    jobs = sorted(set(jobs))
    if nontrivial < 50:
        raise tla.MachineryError('IdScope: almost all answers empty (vacuous)')
    n = 0
    for out in core.pool_map(work, core.chunked(jobs, 20)):
        for ok, ids, shape, name, form, version, lib, expr, want, got in out:
            n += 1
            if not ok:
                dup = len([x for x in ids if x != 'none']) != len({x for x in ids if x != 'none'})
                chk.fail({'family': 'id', 'form': form, 'version': version, 'lib': lib, 'shape': shape, 'tokens': name,
                          'duplicate_ids': dup, 'observed': got[0] if isinstance(got, tuple) else 'value'},
                         {'xml': render(ids, shape), 'expr': expr, 'lib': lib, 'version': version}, want, got, 'fn:id')
            elif n % 20000 == 1:
                chk.sample({'xml': render(ids, shape), 'expr': expr, 'lib': lib, 'version': version, 'value': got})
    chk.add('evaluations', n)
    chk.add('traces_validated_against_impl', len(jobs))
    chk.add('distinct_nontrivial', nontrivial)
    chk.coverage['rule'] = 'every Ask edge of IdScope x call forms x parser versions x 2 tree libraries'
    chk.coverage['exhaustive'] = True
    chk.coverage['constants'] = {k: sorted(v) if isinstance(v, set) else v for k, v in consts.items()}
    chk.assumptions += ['ids are NCNames without surrounding white space (xml:id normalisation is the XML parser\'s business)',
                        'only xml:id attributes are IDs (no DTD / schema typed ID attributes here; C20 covers typed IDs)']


def replay(rec) -> int:
    import io
    import xml.etree.ElementTree as ET
    from lxml import etree as LET
    import elementpath
    from elementpath.xpath31 import XPath31Parser
    core.setup_repo_path()
    c = rec['case']
    root = ET.parse(io.StringIO(c['xml'])) if c['lib'] == 'etree' else LET.parse(io.BytesIO(c['xml'].encode()))
    cls = {'1.0': elementpath.XPath1Parser, '2.0': elementpath.XPath2Parser}.get(c['version'], XPath31Parser)
    val = cls().parse(c['expr']).evaluate(elementpath.XPathContext(root))
    print('expected', rec['expected'], 'observed', [getattr(x, 'name', x) for x in val] if isinstance(val, list) else val)
    return 0
