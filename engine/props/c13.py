"""C13 -- Unicode code-point sets are exact: set algebra and category/block tables.

Specifications (spec/):
  CodePointPieces.tla   pieces <<c>> / <<lo,hi>>, Denotes, Canon(S) = THE canonical list of a set
  CodePointSet.tla      abstract machine: S subset of 0..M-1, rep = Canon(S); actions AddCp AddRange
                        DiscardCp DiscardRange Update DiffUpdate Ior Isub Iand Ixor Complement Clear
                        Assign BadArg; laws CanonSound / CanonUnique / SetLaws / RepInjective
  CodePointSetImpl.tla  transcription of UnicodeSubset.add/discard/__contains__/__iter__/complement,
                        iter_code_points and the composite operators; variants AsImplemented / Fixed;
                        refinement invariants SetCorrect, WellFormed, ComplementCorrect, RepCanonical
  UnicodeTables.tla     laws over the category / block tables EXPORTED from the working tree
                        (generated module Impl_UnicodeData): canonical lists, subcategories pairwise
                        disjoint, major = union of subcategories, cover of 0..0x10FFFF, blocks disjoint

Bindings:
  A  every transition of the CodePointSet graph is replayed on a real UnicodeSubset from every
     canonical state (and, level by level, from every non-canonical list the code itself produces),
     in four windows of the Unicode range; CharacterClass is driven through the same graph by a
     closure over its real (positive, negative) states.  Expected set AND expected raw list come from
     the TLC state graph.
  A' every transition of the CodePointSetImpl graph is replayed too: raw list of the model == raw list
     of the code, which shows that the transcription TLC analysed is the algorithm of the working tree
     (diagnostic: no verdict depends on it).
  C  the tables are exported through unicode_category / unicode_block / install_unicode_data /
     UnicodeData and checked by TLC as literal constants.
  The point-wise comparison with unicodedata.category over all 0x110000 code points is a plain harness
  sweep (labelled as such in the evidence), not model checking.

Implementation-defined / outside: which exception an out-of-range argument raises (only "the set is
unchanged" is required); str()/repr() of the sets; the order of equal-start pieces in a raw list.
"""
from __future__ import annotations

import itertools
import os
import random
import subprocess
import time
import unicodedata
import warnings
import zlib

from .. import core, tla

LEVEL = 'model_checking'
MAXU1 = 0x110000
UNSAFE = set(map(ord, r'-|.^?*+{}()[]\\'))

TIERS = {
    'quick': dict(
        abstract=[dict(name='M7', M=7, ctor=2, maxT=7, windows=[1, 65, 0xD7FD, MAXU1 + 1 - 7])],
        unique_M=5,
        closure_depth=2,
        closure_max=1500,
        costly_mod=30011,
        cc=dict(M=6, W=[65, MAXU1 + 1 - 6], depth=4, max_states=6000),
        cells=[('esc-sd', 4, 1500), ('esc-wic', 3, 150), ('esc-block', 4, 600)],
        impl=dict(M=6, seqlen=1, ctor=2, maxT=2, demo_M=5, fidelity_max=60000),
        install_versions='tables',     # versions with their own category table + one fallback
        api_sample=4000,
    ),
    'thorough': dict(
        abstract=[dict(name='M8', M=8, ctor=2, maxT=8, windows=[1, 65, 0xD7FC, 0xFFFC, MAXU1 + 1 - 8]),
                  dict(name='M10-prim', M=10, ctor=3, maxT=1, windows=[1, 0x2FFF, MAXU1 + 1 - 10], closure_max=4000)],
        unique_M=6,
        closure_depth=99,
        closure_max=12000,
        costly_mod=2003,
        cc=dict(M=7, W=[1, 65, MAXU1 + 1 - 7], depth=6, max_states=40000),
        cells=[('esc-sd', 6, 20000), ('esc-wic', 4, 1500), ('esc-block', 6, 8000)],
        impl=dict(M=7, seqlen=1, ctor=2, maxT=2, demo_M=6),
        install_versions='all',
        apalache_timeout=600,
        api_sample=60000,
    ),
}

# ---------------------------------------------------------------------------------------------
# binding table: abstract boundary -> real code point; abstract piece -> Python int / tuple


class Win:
    """Window of the Unicode range: boundary 0 -> 0, b in 1..M-1 -> W+b-1, M -> 0x110000."""
    __slots__ = ('W', 'M', 'wide')
    cell = False

    def __init__(self, W: int, M: int):
        assert W >= 1 and W + M - 2 <= MAXU1 - 1
        self.W, self.M = W, M
        self.wide = frozenset(([0] if W > 1 else []) + ([M - 1] if W + M - 2 < MAXU1 - 1 else []))

    def R(self, b: int) -> int:
        return 0 if b == 0 else MAXU1 if b == self.M else self.W + b - 1

    def piece(self, p: tuple):
        return self.R(p[0]) if len(p) == 1 else (self.R(p[0]), self.R(p[1]))

    def pieces(self, rep) -> list:
        return [self.piece(p) for p in rep]

    def ints(self, T) -> list:
        return [self.R(p) for p in sorted(T)]

    def probes(self, p: int) -> list:
        lo, hi = self.R(p), self.R(p + 1)
        return [lo] if hi == lo + 1 else [lo, (lo + hi) // 2, hi - 1]

    def width(self, p: int) -> int:
        return self.R(p + 1) - self.R(p)


class CellWin:
    """Abstract points = CELLS of the partition of 0..0x10FFFF generated by a few named sets (the sets behind
    \\s \\d \\w \\i \\c \\p{..}) and a few single characters.  Every named set and its complement is a union of
    cells, so adding / discarding an escape is Update(T) / DiffUpdate(T) of spec/CodePointSet.tla for a set T of
    cells.  Only used for CharacterClass (membership, len, iteration); cells are not intervals, so range
    actions and raw lists are meaningless here."""
    cell = True

    def __init__(self, name: str, cells: list, texts: dict):
        self.W = name
        self.cells = cells                # [dict(ivs=[(a, b), ...], single=bool, label=str)]
        self.M = len(cells)
        self.wide = frozenset(i for i, c in enumerate(cells) if not c['single'])
        self.texts = texts                # frozenset of cells -> [(kind, text)]

    def R(self, p: int) -> int:
        return self.cells[p]['ivs'][0][0]

    def probes(self, p: int) -> list:
        ivs = self.cells[p]['ivs']
        return sorted({ivs[0][0], ivs[len(ivs) // 2][0], ivs[-1][1] - 1})

    def width(self, p: int) -> int:
        return sum(b - a for a, b in self.cells[p]['ivs'])

    def ints(self, T) -> list:
        return sorted(x for p in T for a, b in self.cells[p]['ivs'] for x in range(a, b))


def build_cells(name: str, named: list, singles: list, extra_texts: list) -> tuple:
    """named = [(key, raw list of the set, [(kind, text)] denoting it, [(kind, text)] denoting its complement)].
    Returns (CellWin, {key: frozenset of cells})."""
    sets = [(k, merged(raw)) for k, raw, _, _ in named]
    pts = {0, MAXU1}
    for _, iv in sets:
        for a, b in iv:
            pts.update((a, b))
    for c in singles:
        pts.update((c, c + 1))
    E = sorted(pts)
    ptr = [0] * len(sets)
    by_sig: dict = {}
    single_cells = {}
    for a, b in zip(E, E[1:]):
        sig = []
        for j, (_, iv) in enumerate(sets):
            while ptr[j] < len(iv) and iv[ptr[j]][1] <= a:
                ptr[j] += 1
            sig.append(ptr[j] < len(iv) and iv[ptr[j]][0] <= a)
        sig = tuple(sig)
        if b == a + 1 and a in singles:
            single_cells[a] = sig
        else:
            by_sig.setdefault(sig, []).append((a, b))
    cells = [dict(ivs=[(c, c + 1)], single=True, label=repr(chr(c)), sig=single_cells[c]) for c in sorted(single_cells)]
    for sig, ivs in sorted(by_sig.items(), key=lambda kv: kv[1][0]):
        cells.append(dict(ivs=ivs, single=False, sig=sig,
                          label='&'.join(('' if v else '~') + k for (k, _), v in zip(sets, sig))))
    members = {k: frozenset(i for i, c in enumerate(cells) if c['sig'][j]) for j, (k, _) in enumerate(sets)}
    allc = frozenset(range(len(cells)))
    texts: dict = {}
    for k, _, pos_t, neg_t in named:
        texts.setdefault(members[k], []).extend(pos_t)
        texts.setdefault(allc - members[k], []).extend(neg_t)
    idx = {c['ivs'][0][0]: i for i, c in enumerate(cells) if c['single']}
    for chars in extra_texts:          # plain multi-character strings of single characters
        texts.setdefault(frozenset(idx[ord(ch)] for ch in chars), []).append(('chars', chars))
    return CellWin(name, cells, texts), members


def stable_hash(*xs) -> int:
    """deterministic across runs (str hashes are salted per process)"""
    return zlib.crc32(repr(xs).encode())


def wide_of(W: int, M: int) -> frozenset:
    return Win(W, M).wide


def runs(S) -> list:
    out = []
    for x in sorted(S):
        if out and out[-1][1] == x:
            out[-1][1] = x + 1
        else:
            out.append([x, x + 1])
    return [tuple(r) for r in out]


def contacts(S, a: int, b: int) -> int:
    """number of maximal runs of S that overlap or touch [a, b)"""
    return sum(1 for (x, y) in runs(S) if x <= b and y >= a)


def merged(raw) -> list:
    """projection: raw list of ints / tuples -> sorted disjoint merged intervals"""
    iv = sorted(((p, p + 1) if isinstance(p, int) else (p[0], p[1])) for p in raw)
    out: list = []
    for a, b in iv:
        if out and a <= out[-1][1]:
            out[-1][1] = max(out[-1][1], b)
        else:
            out.append([a, b])
    return out


def str_form(win: Win, T) -> str | None:
    """regex character-set text of T: single characters, 'x-y' for runs of 3 or more"""
    out = []
    for a, b in runs(T):
        lo, hi = win.R(a), win.R(b) - 1
        if lo in UNSAFE or hi in UNSAFE or (hi - lo == 1 and lo + 1 in UNSAFE):
            return None
        out.append(chr(lo) if hi == lo else chr(lo) + chr(hi) if hi == lo + 1 else chr(lo) + '-' + chr(hi))
    return ''.join(out)


# ---------------------------------------------------------------------------------------------
# worker-side state (inherited by fork)

G: dict = {}


def _classes():
    from elementpath.regex import UnicodeSubset, CharacterClass
    return UnicodeSubset, CharacterClass


PRIMARY = {'AddCp': 'add', 'AddRange': 'add', 'DiscardCp': 'discard', 'DiscardRange': 'discard',
           'Update': 'pieces', 'DiffUpdate': 'pieces', 'Ior': 'subset', 'Isub': 'subset', 'Iand': 'subset',
           'Ixor': 'subset', 'Complement': 'ctor_complement', 'Clear': 'clear', 'Assign': 'ctor_list',
           'BadArg': 'call'}

FORMS = {'AddCp': ['add'], 'AddRange': ['add'], 'DiscardCp': ['discard'], 'DiscardRange': ['discard'],
         'Update': ['pieces', 'ints', 'str', 'redundant'], 'DiffUpdate': ['pieces', 'ints', 'str', 'redundant'],
         'Ior': ['subset', 'pieces', 'str', 'binop'], 'Isub': ['subset', 'pieces', 'str', 'binop', 'difference'],
         'Iand': ['subset', 'pieces', 'str', 'binop'], 'Ixor': ['subset', 'pieces', 'str', 'binop', 'self'],
         'Complement': ['ctor_complement'], 'Clear': ['clear'],
         'Assign': ['ctor_list', 'setter', 'ctor_tuple', 'ctor_iter', 'iter_code_points', 'iter_code_points_rev'],
         'BadArg': ['call']}

ITERATES_OTHER = {'Ixor'}       # the code walks the ints of the other operand
ITERATES_DIFF = {'Iand'}        # the code walks the ints of self - other


def other_operand(US, win: Win, T, form: str, canon_of, seed: int):
    """render the argument set T; None when this form cannot express it"""
    if form in ('subset', 'binop', 'difference'):
        return US(win.pieces(canon_of[T]))
    if form == 'pieces':
        return win.pieces(canon_of[T])
    if form == 'ints':
        if T & win.wide:
            return None
        xs = win.ints(T)
        random.Random(seed).shuffle(xs)
        return xs
    if form == 'str':
        return str_form(win, T)
    if form == 'redundant':            # overlapping, duplicated, unsorted pieces denoting T
        ps = win.pieces(canon_of[T])
        extra = []
        for a, b in runs(T):
            extra.append(win.R(a) if win.width(a) == 1 else (win.R(a), win.R(a + 1)))
            if b - a >= 2:
                extra.append((win.R(a + 1), win.R(b)))
        xs = ps + extra + ps[:1]
        random.Random(seed).shuffle(xs)
        return xs
    raise ValueError(form)


def bad_call(u, kind: str):
    if kind == 'add_neg':
        u.add(-1)
    elif kind == 'add_above':
        u.add(MAXU1)
    elif kind == 'add_range_above':
        u.add((MAXU1 - 2, MAXU1 + 1))
    elif kind == 'add_range_empty':
        u.add((70, 70))
    elif kind == 'add_range_reversed':
        u.add((72, 70))
    elif kind == 'discard_neg':
        u.discard(-1)
    elif kind == 'discard_above':
        u.discard(MAXU1)
    elif kind == 'discard_range_above':
        u.discard((MAXU1 - 2, MAXU1 + 1))
    elif kind == 'discard_range_empty':
        u.discard((70, 70))
    else:
        raise ValueError(kind)


def apply_us(US, u, win: Win, action: str, args: tuple, form: str, canon_of, seed: int):
    """Apply one abstract action to the real object u.  Returns (result object, note) where note is
    None or a failure kind detected by the call protocol itself; 'skip' when the form does not apply."""
    if action == 'AddCp':
        u.add(win.R(args[0]))
        return u, None
    if action == 'AddRange':
        u.add((win.R(args[0]), win.R(args[1])))
        return u, None
    if action == 'DiscardCp':
        u.discard(win.R(args[0]))
        return u, None
    if action == 'DiscardRange':
        u.discard((win.R(args[0]), win.R(args[1])))
        return u, None
    if action == 'Clear':
        u.clear()
        return u, None
    if action == 'Complement':
        before = list(u.codepoints)
        pieces = list(u.complement())
        iv = [((p, p + 1) if isinstance(p, int) else p) for p in pieces]
        if any(a >= b for a, b in iv) or any(iv[i][1] > iv[i + 1][0] for i in range(len(iv) - 1)):
            return u, 'complement_unordered'
        r = US(iter(pieces))
        if list(u.codepoints) != before:
            return r, 'operand_modified'
        return r, None
    if action == 'BadArg':
        try:
            bad_call(u, args[0])
        except Exception:
            pass
        return u, None
    if action == 'Assign':
        ps = win.pieces(args[0])
        if form == 'ctor_list':
            return US(list(ps)), None
        if form == 'setter':
            u.codepoints = list(ps)
            return u, None
        if form == 'ctor_tuple':
            return US(tuple(ps)), None
        if form == 'ctor_iter':
            return US(iter(ps)), None
        if form in ('iter_code_points', 'iter_code_points_rev'):
            # the public generator must yield THE canonical pieces (ascending / descending)
            from elementpath.regex import iter_code_points
            got = list(iter_code_points(list(ps), reverse=form.endswith('_rev')))
            want = win.pieces(G['cur_rep2'])
            if got != (want[::-1] if form.endswith('_rev') else want):
                G['last_raw'] = got
                return US(), 'iter_code_points'
            return US(list(want)), None
        raise ValueError(form)
    T = args[0]
    if form == 'self':
        if action != 'Ixor' or T != G.get('cur_S'):
            return None, 'skip'
        u ^= u
        return u, None
    other = other_operand(US, win, T, form, canon_of, seed)
    if other is None:
        return None, 'skip'
    if action == 'Update':
        u.update(other)
        return u, None
    if action == 'DiffUpdate':
        u.difference_update(other)
        return u, None
    if form in ('binop', 'difference'):
        before = list(u.codepoints)
        obefore = list(other.codepoints)
        if form == 'difference':
            r = u.difference(other)
        else:
            r = u | other if action == 'Ior' else u - other if action == 'Isub' else \
                u & other if action == 'Iand' else u ^ other
        if r is u or list(u.codepoints) != before or list(other.codepoints) != obefore:
            return r, 'operand_modified'
        return r, None
    obefore = list(other.codepoints) if isinstance(other, US) else None
    if action == 'Ior':
        r = u.__ior__(other)
    elif action == 'Isub':
        r = u.__isub__(other)
    elif action == 'Iand':
        r = u.__iand__(other)
    else:
        r = u.__ixor__(other)
    if r is not u:
        return r, 'inplace_not_self'
    if obefore is not None and list(other.codepoints) != obefore:
        return r, 'operand_modified'
    return r, None


def observe_us(US, u, win: Win, S2, rep2):
    """Project the real object and compare with the TLC state (S2, rep2).
    Returns (kind or None, set_ok, raw)."""
    exp_raw = win.pieces(rep2)
    raw = list(u.codepoints)
    for p in range(win.M):
        want = p in S2
        for cp in win.probes(p):
            if (cp in u) != want:
                return 'contains', False, raw
        if (chr(win.R(p)) in u) != want:
            return 'contains', False, raw
    if raw != exp_raw and merged(raw) != merged(exp_raw):
        return 'denotes', False, raw
    if not (S2 & win.wide):
        exp = win.ints(S2)
        if list(u) != exp:
            return 'iter', False, raw
        if len(u) != len(exp):
            return 'len', False, raw
        if list(reversed(u)) != exp[::-1]:
            return 'reversed', False, raw
    if raw != exp_raw:
        return 'noncanonical', True, raw
    fresh = US(list(exp_raw))
    if not (u == fresh) or (u != fresh):
        return 'eq', True, raw
    return None, True, raw


def features_us(win: Win, action: str, args: tuple, form: str, kind: str, S, src_canonical: bool) -> dict:
    f = dict(impl='UnicodeSubset', op=action, form=form, kind=kind, src_canonical=src_canonical,
             bridge=False, unit_range=False, contacts='-', seq_canonical='-',
             window='lo' if win.W == 1 else 'hi' if (win.M - 1) not in win.wide else 'mid')
    if action in ('AddCp', 'AddRange', 'DiscardCp', 'DiscardRange'):
        a, b = (args[0], args[0] + 1) if action.endswith('Cp') else args
        c = contacts(S, a, b)
        f['contacts'] = str(c) if c < 2 else '2+'
        if action.startswith('Add'):
            f['bridge'] = c >= 2
            f['unit_range'] = action == 'AddRange' and b == a + 1 and a not in win.wide
    elif action in ('Update', 'Ior'):
        f['bridge'] = any(contacts(S, x, y) >= 2 for x, y in runs(args[0]))
    elif action == 'Ixor':
        T = args[0]
        f['bridge'] = any((v in T and v not in S and (v + 1) in S and
                           (v in win.wide or ((v - 1 in S) != (v - 1 in T)))) for v in range(win.M))
    elif action == 'Assign':
        seq = args[0]
        f['seq_canonical'] = list(seq) == list(G['canon_of'].get(frozenset(
            x for p in seq for x in (range(p[0], p[0] + 1) if len(p) == 1 else range(p[0], p[1]))), ()))
    elif action == 'BadArg':
        f['contacts'] = args[0]
    return f


def _record(fails: dict, feat: dict, case: dict, expected, observed):
    key = tuple(sorted((k, str(v)) for k, v in feat.items()))
    ent = fails.get(key)
    if ent is None:
        fails[key] = [feat, 1, case, expected, observed]
    else:
        ent[1] += 1


def costly(win: Win, action: str, S, T) -> bool:
    """operations whose implementation walks single ints of a Wide block (seconds per call)"""
    if action in ITERATES_OTHER:
        return sum(win.width(p) for p in T & win.wide) > 4096
    if action in ITERATES_DIFF:
        return sum(win.width(p) for p in (S - T) & win.wide) > 4096
    return False


def us_worker(job):
    """Replay every out-edge of some real source states.
    job = (W, [(raw source list (abstract pieces), sid, src_canonical)], reduced alphabet?, seed)"""
    W, units, reduced, seed = job
    US, _ = _classes()
    gr = G['abs']
    M = gr['M']
    win = Win(W, M)
    states, out, canon_of = gr['states'], gr['out'], gr['canon_of']
    stats = dict(evaluations=0, transitions=0, nontrivial=0, skipped_costly=0, skipped_form=0)
    fails: dict = {}
    failed_edges = []
    new_states = set()
    samples = []
    for (src_abs, sid, src_canon) in units:
        S = states[sid][0]
        G['cur_S'] = S
        src_real = win.pieces(src_abs)
        for ei, (dst, action, args) in enumerate(out[sid]):
            S2, rep2 = states[dst]
            G['cur_rep2'] = rep2
            if action in ('Update', 'DiffUpdate', 'Ior', 'Isub', 'Iand', 'Ixor'):
                T = args[0]
                if reduced and len(T) > 2:
                    continue
                if costly(win, action, S, T):
                    if (stable_hash(W, sorted(S), action, sorted(T)) + seed) % G.get('costly_mod', 1499):
                        stats['skipped_costly'] += 1
                        continue
            elif reduced and action in ('Assign', 'BadArg'):
                continue
            stats['transitions'] += 1
            if S2 != S or action in ('Complement', 'Assign'):
                stats['nontrivial'] += 1
            forms = [PRIMARY[action]] if reduced else FORMS[action]
            edge_ok = True
            for form in forms:
                if form == 'difference' and sum(win.width(p) for p in args[0] & win.wide) > 4096 \
                        and (stable_hash(W, sorted(S), sorted(args[0])) + seed) % G.get('costly_mod', 1499):
                    stats['skipped_costly'] += 1      # difference(UnicodeSubset) walks every int of the argument
                    continue
                try:
                    u = US(list(src_real))
                    r, note = apply_us(US, u, win, action, args, form, canon_of, seed + ei)
                    if note == 'skip':
                        stats['skipped_form'] += 1
                        continue
                    stats['evaluations'] += 1
                    if note:
                        kind, set_ok, raw = note, True, (G.pop('last_raw') if 'last_raw' in G else list(r.codepoints))
                    else:
                        kind, set_ok, raw = observe_us(US, r, win, S2, rep2)
                except Exception as e:   # outcome class 'escaped'
                    kind, set_ok, raw = 'exception:' + type(e).__name__, False, repr(e)[:200]
                if kind is None:
                    if action in ('AddRange', 'Ixor', 'Complement', 'DiscardRange') and len(rep2) > 1 and S2 != S \
                            and len(S) > 1 and form == PRIMARY[action] and not any(x['op'] == action for x in samples):
                        samples.append(dict(impl='UnicodeSubset', source=src_real, op=action,
                                            args=core.jsonable(args), form=form, window_offset=W,
                                            expected_raw=win.pieces(rep2)))
                    continue
                edge_ok = False
                feat = features_us(win, action, args, form, kind, S, src_canon)
                _record(fails, feat,
                        dict(impl='UnicodeSubset', W=W, M=M, src=[list(p) for p in src_abs], S=sorted(S),
                             action=action, args=core.jsonable(args), form=form, S2=sorted(S2),
                             rep2=[list(p) for p in rep2], seed=seed + ei),
                        dict(set=win.ints(S2) if not (S2 & win.wide) else 'wide', raw=win.pieces(rep2)),
                        dict(kind=kind, raw=raw))
                if set_ok and kind == 'noncanonical' and form == PRIMARY[action] and action != 'Assign':
                    # the object still denotes the abstract state: a new REAL state to explore
                    new_states.add((unreal(win, raw), dst))
            if not edge_ok:
                failed_edges.append((sid, ei))
    return stats, list(fails.values()), failed_edges, list(new_states), samples


def unreal(win: Win, raw) -> tuple | None:
    """real raw list -> abstract pieces (inverse of Win.pieces); None if off the grid"""
    inv = {win.R(b): b for b in range(win.M + 1)}
    out = []
    for p in raw:
        if isinstance(p, int):
            if p not in inv:
                return None
            out.append((inv[p],))
        else:
            if p[0] not in inv or p[1] not in inv:
                return None
            out.append((inv[p[0]], inv[p[1]]))
    return tuple(out)


def hist_worker(job):
    """Drive ONE object from the empty set along a history; compare with the state reached in TLC
    and with an object built directly from the canonical list (extensional ==)."""
    W, items = job
    US, _ = _classes()
    gr = G['abs']
    win = Win(W, gr['M'])
    states, canon_of = gr['states'], gr['canon_of']
    n = 0
    fails: dict = {}
    for sid, path in items:
        u = US()
        S = frozenset()
        try:
            for (action, args, dst) in path:
                G['cur_S'] = S
                r, note = apply_us(US, u, win, action, args, PRIMARY[action], canon_of, 0)
                u = r
                S = states[dst][0]
            S2, rep2 = states[sid]
            kind, _, raw = observe_us(US, u, win, S2, rep2)
        except Exception as e:
            kind, raw = 'exception:' + type(e).__name__, repr(e)[:200]
        n += 1
        if kind:
            feat = dict(impl='UnicodeSubset', op='History', form='history', kind=kind, src_canonical=True,
                        bridge=False, unit_range=False, contacts='-', seq_canonical='-', window='-')
            _record(fails, feat, dict(impl='UnicodeSubset', W=W, M=gr['M'], history=core.jsonable(
                [(a, b) for a, b, _ in path]), S2=sorted(states[sid][0]), rep2=[list(p) for p in states[sid][1]]),
                dict(raw=win.pieces(states[sid][1])), dict(kind=kind, raw=raw))
    return n, list(fails.values())


# ---------------------------------------------------------------------------------------------
# CharacterClass: closure over its REAL states (positive raw list, negative raw list), the expected
# set of every step taken from the TLC graph


def cc_build(US, CC, pos, neg):
    cc = CC()
    cc.positive = US(list(pos))
    cc.negative = US(list(neg))
    return cc


def cc_other(US, CC, win: Win, T, oform: str):
    """the other operand of `-=`: T inside the window as a positive class; T including both outer blocks
    as a negated class (negative = the window points not in T), so that no list holds a block"""
    o = CC()
    if oform == 'pos':
        if T & win.wide:
            return None
        for a, b in runs(T):
            o.positive.add((win.R(a), win.R(b)))
    else:
        rest = frozenset(range(win.M)) - T
        if not (win.wide <= T) or not rest:
            return None
        for a, b in runs(rest):
            o.negative.add((win.R(a), win.R(b)))
    return o


def range_text(win: Win, a: int, b: int) -> str | None:
    return str_form(win, frozenset(range(a, b)))


def cc_apply(US, CC, cc, win: Win, action: str, args: tuple, form: str):
    if action in ('AddCp', 'DiscardCp'):
        v = win.R(args[0]) if form == 'int' else chr(win.R(args[0]))
        if form == 'chr' and win.R(args[0]) in UNSAFE:
            return None, 'skip'
        (cc.add if action == 'AddCp' else cc.discard)(v)
        return cc, None
    if action in ('AddRange', 'DiscardRange'):
        t = range_text(win, args[0], args[1])
        if t is None:
            return None, 'skip'
        (cc.add if action == 'AddRange' else cc.discard)(t)
        return cc, None
    if action == 'Complement':
        cc.complement()
        return cc, None
    if action == 'Clear':
        cc.clear()
        return cc, None
    if action in ('Update', 'DiffUpdate'):          # cell mode: an escape / category / plain string denoting T
        text = form.split('|', 1)[1]
        (cc.add if action == 'Update' else cc.discard)(text)
        return cc, None
    if action == 'Isub' and win.cell:
        _, text, how = form.split('|')
        o = CC(text)
        if how == 'binop':
            before = (list(cc.positive.codepoints), list(cc.negative.codepoints))
            r = cc - o
            if r is cc or (list(cc.positive.codepoints), list(cc.negative.codepoints)) != before:
                return r, 'operand_modified'
            return r, None
        r = cc.__isub__(o)
        return r, (None if r is cc else 'inplace_not_self')
    if action == 'Isub':
        oform, how = form.split('/')
        o = cc_other(US, CC, win, args[0], oform)
        if o is None:
            return None, 'skip'
        if how == 'binop':
            before = (list(cc.positive.codepoints), list(cc.negative.codepoints))
            r = cc - o
            if r is cc or (list(cc.positive.codepoints), list(cc.negative.codepoints)) != before:
                return r, 'operand_modified'
            return r, None
        r = cc.__isub__(o)
        return r, (None if r is cc else 'inplace_not_self')
    raise ValueError(action)


CC_FORMS = {'AddCp': ['int', 'chr'], 'DiscardCp': ['int', 'chr'], 'AddRange': ['text'], 'DiscardRange': ['text'],
            'Complement': ['call'], 'Clear': ['call'], 'Isub': ['pos/inplace', 'neg/inplace', 'pos/binop']}


def has_wide_piece(raw) -> bool:
    """the list holds so many code points that walking them one by one (len(), bool(), copy) is slow"""
    return sum(1 if isinstance(p, int) else p[1] - p[0] for p in raw) > 4096


def cc_forms(win, action: str, args: tuple) -> list:
    if not win.cell:
        return CC_FORMS.get(action, [])
    if action in ('AddCp', 'DiscardCp', 'Complement', 'Clear'):
        return CC_FORMS[action]
    if action in ('Update', 'DiffUpdate'):
        return [f'{kind}|{text}' for kind, text in win.texts.get(args[0], [])]
    if action == 'Isub':
        ts = win.texts.get(args[0], [])
        return [f'{kind}|{text}|inplace' for kind, text in ts] + [f'{kind}|{text}|binop' for kind, text in ts[:1]]
    return []


def cc_observe(cc, win: Win, S2):
    pos, neg = list(cc.positive.codepoints), list(cc.negative.codepoints)
    points = range(win.M)
    if has_wide_piece(neg):
        # every `in` costs a full walk of `negative` (bool(UnicodeSubset) is len()): two probes only
        points = [min(set(points) - win.wide), max(win.wide)]
    for p in points:
        want = p in S2
        for cp in win.probes(p)[:3 if points is not None and len(points) > 2 else 1]:
            if (cp in cc) != want:
                return 'contains'
        if len(points) > 2 and (chr(win.R(p)) in cc) != want:
            return 'contains'
    if not has_wide_piece(neg) and not has_wide_piece(pos):
        if len(cc) != sum(win.width(p) for p in S2):
            return 'len'
    if not neg and not has_wide_piece(pos):
        if list(cc) != win.ints(S2):
            return 'iter'
    return None


def cc_worker(job):
    W, units = job
    US, CC = _classes()
    gr = G['cc']
    win = G['cc_wins'][W]
    states, out = gr['states'], gr['out']
    stats = dict(evaluations=0, transitions=0, nontrivial=0, skipped_form=0)
    fails: dict = {}
    new_states = set()
    samples = []
    for (pos, neg, sid) in units:
        S = states[sid][0]
        self_form = 'empty' if not pos and not neg else 'pos' if not neg else 'neg' if not pos else 'mixed'
        for ei, (dst, action, args) in enumerate(out[sid]):
            forms = cc_forms(win, action, args)
            if not forms:
                continue
            # bool(UnicodeSubset) is len(): every CharacterClass call on an object holding a block of a million
            # code points in `negative` costs about a second, so arguments stay inside the window (the outer
            # blocks still flip under Complement) and sources with a block in `negative` are not expanded
            if action in ('AddRange', 'DiscardRange') and (set(range(args[0], args[1])) & win.wide):
                continue
            if action == 'Isub' and not win.cell and \
                    (len(args[0] - win.wide) > 3 or (args[0] & win.wide and not win.wide <= args[0])):
                continue
            if has_wide_piece(neg) or (action == 'Complement' and has_wide_piece(pos) and
                                       stable_hash(pos, neg, W) % 61):
                stats['skipped_costly'] = stats.get('skipped_costly', 0) + 1
                continue
            S2 = states[dst][0]
            stats['transitions'] += 1
            if S2 != S or action == 'Complement':
                stats['nontrivial'] += 1
            for form in forms:
                # CharacterClass.__copy__ / UnicodeSubset.__iand__ walk every single int of a block: cost guard
                if (form.endswith('binop') and (has_wide_piece(pos) or has_wide_piece(neg))) or \
                        (form == 'neg/inplace' and has_wide_piece(pos)) or \
                        (win.cell and action in ('DiffUpdate', 'Isub') and form[:3] in ('ESC', 'CAT')
                         and has_wide_piece(pos) and stable_hash(pos, neg, form) % 61):
                    stats['skipped_costly'] = stats.get('skipped_costly', 0) + 1
                    continue
                try:
                    cc = cc_build(US, CC, pos, neg)
                    r, note = cc_apply(US, CC, cc, win, action, args, form)
                    if note == 'skip':
                        stats['skipped_form'] += 1
                        continue
                    stats['evaluations'] += 1
                    kind = note or cc_observe(r, win, S2)
                    obs = dict(kind=kind, positive=list(r.positive.codepoints), negative=list(r.negative.codepoints))
                except Exception as e:
                    kind = 'exception:' + type(e).__name__
                    obs = dict(kind=kind, error=repr(e)[:200])
                if kind is None:
                    if not form.endswith('binop'):
                        new_states.add((tuple(r.positive.codepoints), tuple(r.negative.codepoints), dst))
                    if len(samples) < 2 and action == 'Complement' and S:
                        samples.append(dict(impl='CharacterClass', positive=list(pos), negative=list(neg),
                                            op=action, args=core.jsonable(args), form=form, window_offset=W,
                                            expected_members_in_window=win.ints(S2 - win.wide)))
                    continue
                fform = form
                if '|' in form:          # cell mode: the class of the argument text, not the text itself
                    parts = form.split('|')
                    fform = parts[0] + ('/' + parts[2] if len(parts) > 2 else '')
                feat = dict(impl='CharacterClass', op=action, form=fform, kind=kind, self_form=self_form,
                            arg_in_set=('-' if action not in ('AddCp', 'DiscardCp') else args[0] in S))
                _record(fails, feat,
                        dict(impl='CharacterClass', W=W, M=win.M, positive=list(pos), negative=list(neg),
                             S=sorted(S), action=action, args=core.jsonable(args), form=form, S2=sorted(S2)),
                        dict(members_in_window=win.ints(S2 - win.wide),
                             outside=[win.cells[p]['label'] for p in sorted(S2 & win.wide)] if win.cell
                             else sorted(S2 & win.wide)), obs)
    return stats, list(fails.values()), list(new_states), samples


# ---------------------------------------------------------------------------------------------
# graph loading


def load_abstract(path: str, M: int) -> dict:
    g = tla.load_dot(path)
    states = {sid: (st['S'], st['rep']) for sid, st in g.states.items()}
    out: dict = {sid: [] for sid in states}
    for s, d, a, args in g.edges:
        if a in ('AddRange', 'DiscardRange'):
            args = (args[0], args[1])
        out[s].append((d, a, args))
    for es in out.values():      # TLC writes edges in worker order: make the replay order deterministic
        es.sort(key=lambda e: (e[1], repr(tuple(sorted(a) if isinstance(a, frozenset) else a for a in e[2]))))
    canon_of = {S: rep for (S, rep) in states.values()}
    if len(canon_of) != 2 ** M or len(states) != 2 ** M:
        raise tla.MachineryError(f'CodePointSet graph has {len(states)} states, expected {2 ** M}')
    if len(g.init) != 1:
        raise tla.MachineryError('CodePointSet graph: expected one initial state')
    fired = {a for _, _, a, _ in g.edges}
    missing = {'AddCp', 'AddRange', 'DiscardCp', 'DiscardRange', 'Update', 'DiffUpdate', 'Ior', 'Isub', 'Iand', 'Ixor',
               'Complement', 'Clear', 'BadArg'} - fired
    if missing:
        raise tla.MachineryError(f'CodePointSet graph: actions never fired: {sorted(missing)} (vacuous model)')
    return dict(M=M, states=states, out=out, canon_of=canon_of, init=g.init[0], n_edges=len(g.edges))


def all_subsets(M: int, max_size: int) -> set:
    return {frozenset(c) for r in range(min(M, max_size) + 1) for c in itertools.combinations(range(M), r)}


def report(chk: core.Check, fails: list) -> None:
    for feat, cnt, case, exp, obs in fails:
        chk.fail(feat, case, exp, obs, what=f'{case.get("impl")} {case.get("action", case.get("law", ""))} '
                                            f'{case.get("args", "")} [{cnt} cases in this class]')
        if cnt > 1:
            for idx, kf in enumerate(chk.known):
                if core.match_pattern(kf['fingerprint'], core.jsonable(feat)):
                    chk.known_hits[idx] = chk.known_hits.get(idx, 0) + cnt - 1
                    break


def add_stats(chk: core.Check, stats: dict, prefix: str = '') -> None:
    chk.add('transitions', stats.get('transitions', 0))
    chk.add('evaluations', stats.get('evaluations', 0))
    chk.add('distinct_nontrivial', stats.get('nontrivial', 0))
    chk.add('traces_validated_against_impl', stats.get('transitions', 0))
    for k in ('skipped_costly', 'skipped_form'):
        if stats.get(k):
            chk.add(prefix + k, stats[k])


# ---------------------------------------------------------------------------------------------
# binding A: abstract machine -> UnicodeSubset


def run_abstract(chk: core.Check, conf: dict, closure_depth: int, closure_max: int) -> None:
    M = conf['M']
    by_wide: dict = {}
    for W in conf['windows']:
        by_wide.setdefault(wide_of(W, M), []).append(W)
    others = all_subsets(M, conf['maxT'])
    for wide, windows in by_wide.items():
        name = f'{conf["name"]}-wide{"".join(map(str, sorted(wide)))}'
        wd = os.path.join(chk.scratch, name)
        dot = os.path.join(wd, 'graph.dot')
        cfg = tla.cfg_text(dict(M=M, Wide=set(wide), Others=others, CtorLen=conf['ctor']),
                           invariants=['TypeOK', 'Laws'])
        r = tla.require_ok(tla.run_tlc('CodePointSet', cfg, wd, dump_dot=dot, workers=8), f'CodePointSet/{name}',
                           min_distinct=2 ** M)
        chk.model(f'CodePointSet/{name}', r)
        t0 = time.time()
        gr = load_abstract(dot, M)
        os.remove(dot)
        G['abs'] = gr
        G['canon_of'] = gr['canon_of']
        # phase 1: every transition from every canonical state (object built from TLC's canonical list)
        units = [(gr['states'][sid][1], sid, True) for sid in sorted(gr['states'], key=lambda x: sorted(gr['states'][x][0]))]
        jobs = []
        for W in windows:
            for ch in core.chunked(units, 24):
                jobs.append((W, ch, False, chk.seed))
        failed: dict = {W: set() for W in windows}
        frontier: dict = {W: set() for W in windows}
        seen: dict = {W: {(gr['states'][sid][1], sid) for sid in gr['states']} for W in windows}
        tot = dict(transitions=0, evaluations=0)
        for (job, res) in zip(jobs, core.pool_map(us_worker, jobs)):
            stats, fails, failed_edges, new_states, samples = res
            add_stats(chk, stats)
            tot['transitions'] += stats['transitions']
            tot['evaluations'] += stats['evaluations']
            report(chk, fails)
            failed[job[0]].update(failed_edges)
            for ns in new_states:
                if ns[0] is not None and ns not in seen[job[0]]:
                    seen[job[0]].add(ns)
                    frontier[job[0]].add(ns)
            for s in samples:
                if sum(1 for x in chk.coverage['samples'] if x.get('op') == s['op']) < 2:
                    chk.sample(s, cap=8)
        # phase 2: histories -- every state reached from the empty set through transitions that passed
        hjobs = []
        unreached = 0
        for W in windows:
            path: dict = {gr['init']: []}
            queue = [gr['init']]
            while queue:
                nxt = []
                for sid in queue:
                    for ei, (dst, action, args) in enumerate(gr['out'][sid]):
                        if dst in path or (sid, ei) in failed[W] or action == 'BadArg':
                            continue
                        if action in ('Iand', 'Ixor') and costly(Win(W, M), action, gr['states'][sid][0], args[0]):
                            continue
                        path[dst] = path[sid] + [(action, args, dst)]
                        nxt.append(dst)
                queue = nxt
            unreached += len(gr['states']) - len(path)
            items = sorted(path.items())
            for ch in core.chunked(items, 4):
                hjobs.append((W, ch))
        nh = 0
        for n, fails in core.pool_map(hist_worker, hjobs):
            nh += n
            report(chk, fails)
        chk.add('histories_replayed', nh)
        chk.add('traces_validated_against_impl', nh)
        chk.add('unreached_states', unreached)
        # phase 3: closure over the non-canonical lists the code itself produced (primitive operations,
        # small argument sets), as long as the object still denotes the abstract state
        depth = 0
        n_real = 0
        dropped = 0
        budget = {W: closure_max for W in windows}
        while any(frontier.values()) and depth < closure_depth:
            depth += 1
            jobs = []
            for W in windows:
                fr = sorted(frontier[W], key=repr)
                dropped += max(0, len(fr) - budget[W])
                fr = fr[:budget[W]]
                budget[W] -= len(fr)
                n_real += len(fr)
                frontier[W] = set()
                for ch in core.chunked([(raw, sid, False) for raw, sid in fr], 16):
                    jobs.append((W, ch, True, chk.seed))
            for (job, res) in zip(jobs, core.pool_map(us_worker, jobs)):
                stats, fails, failed_edges, new_states, samples = res
                add_stats(chk, stats)
                report(chk, fails)
                for ns in new_states:
                    if ns[0] is not None and ns not in seen[job[0]]:
                        seen[job[0]].add(ns)
                        frontier[job[0]].add(ns)
        chk.add('noncanonical_real_states_explored', n_real)
        if any(frontier.values()) or dropped:
            chk.coverage.setdefault('noncanonical_closure_truncated', []).append(
                dict(config=name, depth=depth, unexplored=dropped + sum(len(x) for x in frontier.values())))
        print(f'  {name}: windows={windows} states={r.distinct} edges={gr["n_edges"]} tlc={r.wall_s:.1f}s '
              f'transitions={tot["transitions"]} evaluations={tot["evaluations"]} histories={nh} '
              f'noncanonical_states={n_real} replay={time.time() - t0:.1f}s', flush=True)


def run_unique(chk: core.Check, M: int) -> None:
    """small universe: a canonical list is determined by its set (quantified over ALL piece lists)"""
    wd = os.path.join(chk.scratch, 'unique')
    for wide in ({0, M - 1}, set()):
        cfg = tla.cfg_text(dict(M=M, Wide=wide, Others=all_subsets(M, M), CtorLen=2),
                           invariants=['TypeOK', 'Laws', 'CanonUnique'])
        r = tla.require_ok(tla.run_tlc('CodePointSet', cfg, wd, workers=8), f'CodePointSet/unique-M{M}')
        chk.model(f'CodePointSet/unique-M{M}-wide{len(wide)}', r)


# ---------------------------------------------------------------------------------------------
# binding A for CharacterClass


def run_cc(chk: core.Check, conf: dict) -> None:
    M = conf['M']
    by_wide: dict = {}
    for W in conf['W']:
        by_wide.setdefault(wide_of(W, M), []).append(W)
    for wide, windows in by_wide.items():
        name = f'cc-M{M}-wide{"".join(map(str, sorted(wide)))}'
        wd = os.path.join(chk.scratch, name)
        dot = os.path.join(wd, 'graph.dot')
        cfg = tla.cfg_text(dict(M=M, Wide=set(wide), Others=all_subsets(M, M), CtorLen=0), invariants=['TypeOK', 'Laws'])
        r = tla.require_ok(tla.run_tlc('CodePointSet', cfg, wd, dump_dot=dot, workers=8), f'CodePointSet/{name}')
        chk.model(f'CodePointSet/{name}', r)
        gr = load_abstract(dot, M)
        os.remove(dot)
        G['cc'] = gr
        G['cc_wins'] = {W: Win(W, M) for W in windows}
        cc_closure(chk, name, gr, windows, conf['depth'], conf['max_states'])


def cc_closure(chk: core.Check, name: str, gr: dict, keys: list, max_depth: int, max_states: int) -> None:
    """breadth-first closure over the REAL (positive, negative) states reached through steps that agreed with TLC"""
    t0 = time.time()
    for W in keys:
        label = f'{W:#x}' if isinstance(W, int) else W
        seen = {((), (), gr['init'])}
        frontier = [((), (), gr['init'])]
        depth = 0
        n_states = 0
        tot = dict(transitions=0, evaluations=0)
        while frontier and depth < max_depth and n_states < max_states:
            depth += 1
            frontier = sorted(frontier, key=repr)[:max(0, max_states - n_states)]
            n_states += len(frontier)
            jobs = [(W, ch) for ch in core.chunked(frontier, 32)]
            frontier = []
            for stats, fails, new_states, samples in core.pool_map(cc_worker, jobs):
                add_stats(chk, stats, 'cc_')
                tot['transitions'] += stats['transitions']
                tot['evaluations'] += stats['evaluations']
                report(chk, fails)
                for s in samples:
                    chk.sample(s, cap=10)
                for ns in new_states:
                    if ns not in seen:
                        seen.add(ns)
                        frontier.append(ns)
        chk.add('characterclass_real_states_explored', n_states)
        if frontier:
            chk.coverage.setdefault('characterclass_closure_truncated', []).append(
                dict(window=label, depth=depth, frontier=len(frontier)))
        print(f'  {name} W={label}: real states={n_states} depth={depth} transitions={tot["transitions"]} '
              f'evaluations={tot["evaluations"]} t={time.time() - t0:.1f}s', flush=True)


# the named sets behind the multi-character escapes and \\p{..}: (config, [(key, escape or category name)], single
# characters, plain strings).  The sets themselves are taken from the working tree as ARGUMENT VALUES (what \\d denotes
# is property C12's business); what adding / discarding them does to a class is judged by the TLC graph.
CELL_CONFIGS = {
    'esc-sd': dict(named=[('s', '\\s'), ('d', '\\d'), ('Sc', 'Sc')], singles='0x $', strings=['0x', 'x$']),
    'esc-wic': dict(named=[('w', '\\w'), ('i', '\\i'), ('c', '\\c')], singles='a-', strings=['a-']),
    'esc-block': dict(named=[('BL', 'IsBasicLatin'), ('d', '\\d')], singles='0\u00e9', strings=['0\u00e9']),
}


def run_cc_cells(chk: core.Check, conf: dict) -> None:
    from elementpath.regex import unicode_subset
    try:
        from elementpath.regex.character_classes import CHARACTER_ESCAPES
    except ImportError:
        chk.note('elementpath.regex.character_classes.CHARACTER_ESCAPES not found: escape arguments of CharacterClass skipped')
        return
    for cname, depth, cap in conf['cells']:
        cc_conf = CELL_CONFIGS[cname]
        named = []
        for key, ref in cc_conf['named']:
            if ref.startswith('\\'):
                raw = list(CHARACTER_ESCAPES[ref]().codepoints)
                pos_t, neg_t = [('esc', ref)], [('ESC', ref.upper())]
                if ref == '\\d':
                    pos_t.append(('cat', '\\p{Nd}'))
                    neg_t.append(('CAT', '\\P{Nd}'))
            else:
                raw = list(unicode_subset(ref).codepoints)
                pos_t, neg_t = [('cat', '\\p{%s}' % ref)], [('CAT', '\\P{%s}' % ref)]
            named.append((key, raw, pos_t, neg_t))
        win, members = build_cells(cname, named, [ord(c) for c in cc_conf['singles']], cc_conf['strings'])
        M = win.M
        name = f'cc-{cname}'
        wd = os.path.join(chk.scratch, name)
        dot = os.path.join(wd, 'graph.dot')
        cfg = tla.cfg_text(dict(M=M, Wide=set(win.wide), Others=set(win.texts), CtorLen=0), invariants=['TypeOK', 'Laws'])
        r = tla.require_ok(tla.run_tlc('CodePointSet', cfg, wd, dump_dot=dot, workers=8), f'CodePointSet/{name}')
        chk.model(f'CodePointSet/{name}', r)
        gr = load_abstract(dot, M)
        os.remove(dot)
        G['cc'] = gr
        G['cc_wins'] = {cname: win}
        chk.coverage.setdefault('characterclass_cell_configs', []).append(dict(
            name=cname, cells=[dict(label=c['label'], code_points=win.width(i)) for i, c in enumerate(win.cells)],
            argument_texts=sorted(t for ts in win.texts.values() for _, t in ts)))
        cc_closure(chk, name, gr, [cname], depth, cap)


# ---------------------------------------------------------------------------------------------
# the transcription: TLC verdicts on both variants, then model list == real list on every edge


def impl_cfg(M, variant, seqlen, ctor, maxT, invs):
    return tla.cfg_text(dict(M=M, Wide=set(), Variant=variant, Others=all_subsets(M, maxT), SeqLen=seqlen,
                             CtorLen=ctor), invariants=invs)


def fidelity_worker(job):
    W, edges = job
    US, _ = _classes()
    gr = G['impl']
    states, canon = gr['states'], gr['canon']

    def real(p):
        return W + p[0] if len(p) == 1 else (W + p[0], W + p[1])
    match = 0
    ctor_n = ctor_match = 0
    diffs = []
    for (s, d, a, args) in edges:
        try:
            u = US([real(p) for p in states[s]])
            if a == 'OpAdd':
                u.add(real(args[0]))
            elif a == 'OpDiscard':
                u.discard(real(args[0]))
            elif a == 'OpUpdate':
                u.update([real(p) for p in args[0]])
            elif a == 'OpDiffUpdate':
                u.difference_update([real(p) for p in args[0]])
            elif a == 'OpClear':
                u.clear()
            elif a == 'OpCtor':
                u = US([real(p) for p in args[0]])
            else:
                o = US([real(p) for p in canon[args[0]]])
                if a == 'OpIor':
                    u |= o
                elif a == 'OpIsub':
                    u -= o
                elif a == 'OpIand':
                    u &= o
                else:
                    u ^= o
            got = list(u.codepoints)
        except Exception as e:
            got = repr(e)[:100]
        same = got == [real(p) for p in states[d]]
        if a == 'OpCtor':           # the list constructor is judged separately from the mutating algorithms
            ctor_n += 1
            ctor_match += same
        elif same:
            match += 1
        elif len(diffs) < 3:
            diffs.append(dict(source=[real(p) for p in states[s]], op=a, args=core.jsonable(args),
                              model=[real(p) for p in states[d]], code=got))
    return match, len(edges) - ctor_n, diffs, ctor_match, ctor_n


def run_impl(chk: core.Check, conf: dict) -> None:
    M = conf['M']
    wd = os.path.join(chk.scratch, 'impl')
    demos = []
    # (1) the pinned algorithm, as transcribed: TLC must find the canonicity defects in the DESIGN
    for what, invs, ctor in (('add does not merge with the following piece', ['TypeOK', 'SetCorrect', 'WellFormed', 'Merged'], 0),
                             ('add stores a one-code-point range as a tuple', ['TypeOK', 'SetCorrect', 'WellFormed', 'UnitIsInt'], 0),
                             ('list constructor only sorts', ['TypeOK', 'WellFormed'], 2)):
        r = tla.run_tlc('CodePointSetImpl', impl_cfg(conf['demo_M'], 'AsImplemented', 0, ctor, 0, invs), wd, workers=1)
        want = invs[-1]
        if r.violated != want:
            raise tla.MachineryError(f'CodePointSetImpl/AsImplemented: expected TLC to violate {want} ({what}), '
                                     f'got ok={r.ok} violated={r.violated}\n' + r.output[-1500:])
        trace = [ln.strip() for ln in r.output.splitlines() if ln.startswith(('State ', '/\\ list', '/\\ S'))]
        demos.append(dict(model='CodePointSetImpl/AsImplemented', defect=what, violated_invariant=want,
                          counterexample=trace[-9:]))
        chk.coverage.setdefault('models', []).append(
            {'module': f'CodePointSetImpl/AsImplemented-demo-{want}', 'demonstrates': what, 'generated': r.generated, 'distinct': r.distinct,
             'depth': r.depth, 'tlc_wall_s': round(r.wall_s, 1), 'expected_violation': want})
    chk.coverage['design_defect_demonstrated_by_tlc'] = demos
    # (2) closure of both variants with the invariants each one must satisfy, graphs dumped
    graphs = {}
    for variant, invs, ctor in (
            ('AsImplemented', ['TypeOK', 'SetCorrect', 'WellFormed', 'ComplementCorrect', 'IterLaw', 'BranchesCovered'], 0),
            ('Fixed', ['TypeOK', 'SetCorrect', 'WellFormed', 'ComplementCorrect', 'IterLaw', 'BranchesCovered',
                       'RepCanonical'], conf['ctor'])):
        dot = os.path.join(wd, f'{variant}.dot')
        r = tla.require_ok(tla.run_tlc('CodePointSetImpl', impl_cfg(M, variant, conf['seqlen'], ctor, conf['maxT'], invs),
                                       wd, dump_dot=dot, workers=8), f'CodePointSetImpl/{variant}')
        chk.model(f'CodePointSetImpl/{variant}-M{M}', r)
        canon = {}
        for v in tla.printed_values(r.output, 'c13canon'):
            canon[v[0]] = v[1]
        g = tla.load_dot(dot)
        os.remove(dot)
        graphs[variant] = dict(states={sid: st['list'] for sid, st in g.states.items()}, edges=g.edges, canon=canon,
                               distinct=r.distinct)
    # (3) which variant is the algorithm of the working tree?  (diagnostic only)
    fid = {}
    for variant, gr in graphs.items():
        G['impl'] = gr
        edges = gr['edges']
        if len(edges) > conf.get('fidelity_max', 400000):
            rnd = random.Random(chk.seed)
            edges = rnd.sample(edges, conf.get('fidelity_max', 400000))
        jobs = [(W, ch) for W in (65, MAXU1 - M) for ch in core.chunked(edges, 16)]
        m = n = cm = cn = 0
        diffs = []
        for a, b, d, c1, c2 in core.pool_map(fidelity_worker, jobs):
            m += a
            n += b
            cm += c1
            cn += c2
            diffs += d
        fid[variant] = dict(edges_replayed=n, raw_list_equal=m, first_differences=diffs[:2],
                            list_constructor_edges=cn, list_constructor_equal=cm)
        chk.add('evaluations', n + cn)
        chk.add('impl_model_transitions_replayed', n + cn)
    match = [v for v, f in fid.items() if f['edges_replayed'] == f['raw_list_equal']]
    chk.coverage['transcription_fidelity'] = dict(
        note='raw _codepoints list of the real object == list of the CodePointSetImpl model on every replayed edge',
        matching_variant=match[0] if match else 'none',
        **{v: dict(edges_replayed=f['edges_replayed'], raw_list_equal=f['raw_list_equal'],
                   list_constructor_edges=f['list_constructor_edges'], list_constructor_equal=f['list_constructor_equal'],
                   **({'first_differences': f['first_differences']} if v not in match and not match else {}))
           for v, f in fid.items()})
    print(f'  impl: AsImplemented states={graphs["AsImplemented"]["distinct"]} Fixed states={graphs["Fixed"]["distinct"]} '
          f'working tree matches: {match[0] if match else "none"} '
          f'({ {v: (f["raw_list_equal"], f["edges_replayed"]) for v, f in fid.items()} })', flush=True)
    if not match:
        chk.note('the working tree matches neither transcription variant of CodePointSetImpl (code was refactored?); '
                 'the verdict does not depend on it')


# ---------------------------------------------------------------------------------------------
# binding C: exported tables -> TLC constants

SUBCATS = ['Cc', 'Cf', 'Cn', 'Co', 'Cs', 'Ll', 'Lm', 'Lo', 'Lt', 'Lu', 'Mc', 'Me', 'Mn', 'Nd', 'Nl', 'No',
           'Pc', 'Pd', 'Pe', 'Pf', 'Pi', 'Po', 'Ps', 'Sc', 'Sk', 'Sm', 'So', 'Zl', 'Zp', 'Zs']
MAJORS = ['C', 'L', 'M', 'N', 'P', 'S', 'Z']


def export_tables(tier_versions: str):
    """Read the tables through the public API of the working tree, for every installable version."""
    import elementpath.regex as rx
    from elementpath.regex import unicode_subsets as us_mod, unicode_blocks as ub, unicode_categories as uc
    installable = list(reversed(us_mod.UNICODE_VERSIONS))
    with_table = [v for v in installable if v in uc.UNICODE_VERSIONS]
    if tier_versions == 'all':
        cat_versions = installable
    else:
        older = [v for v in installable if v not in with_table]
        cat_versions = with_table + older[-1:]
    cats: dict = {}      # version -> {name: raw list}
    notes = []
    try:
        for v in cat_versions:
            with warnings.catch_warnings():
                warnings.simplefilter('ignore')
                rx.install_unicode_data(v)
            if rx.unicode_version() != v:
                notes.append(f'install_unicode_data({v}) left version {rx.unicode_version()}')
            cats[v] = {n: list(rx.unicode_category(n).codepoints) for n in SUBCATS + MAJORS}
    finally:
        rx.install_unicode_data()
    running = rx.unicode_version()
    cats['running'] = {n: list(rx.unicode_category(n).codepoints) for n in SUBCATS + MAJORS}
    # blocks, all versions: UnicodeData(version, categories=...) builds only the block tables
    # (block(name, normalize=True) cannot be used to find the superseded names: it raises KeyError for every
    # name containing a space, so the REMOVED_BLOCKS_VER_* tables are read directly)
    def vinfo(name: str, prefix: str):
        return tuple(int(x) for x in name[len(prefix):].split('_'))
    blocks: dict = {}
    dummy = {n: rx.unicode_category(n) for n in SUBCATS + MAJORS}
    for v in installable:
        vi = tuple(int(x) for x in v.split('.'))
        names: list = []
        removed: set = set()
        for k, val in ub.__dict__.items():
            if k.startswith('UNICODE_BLOCKS_VER_') or (k.startswith('UPDATE_BLOCKS_VER_') and
                                                       vinfo(k, 'UPDATE_BLOCKS_VER_') <= vi):
                names += [n for n in val if n not in names]
            elif k.startswith('REMOVED_BLOCKS_VER_') and vinfo(k, 'REMOVED_BLOCKS_VER_') <= vi:
                removed.update(val)
        ud = rx.UnicodeData(v, categories=dummy)
        cur = {}
        for n in names:
            if n in removed:
                continue
            key = n.replace(' ', '').replace('_', '')
            cur[key] = list(ud.block(key).codepoints)
        # every later name must be unknown to this version
        for k, val in ub.__dict__.items():
            if k.startswith('UPDATE_BLOCKS_VER_') and vinfo(k, 'UPDATE_BLOCKS_VER_') > vi:
                for n in val:
                    key = n.replace(' ', '').replace('_', '')
                    if n not in names:
                        try:
                            ud.block(key)
                            notes.append(f'block {n} of a later version is defined in {v}')
                        except KeyError:
                            pass
        blocks[v] = cur
    return dict(cats=cats, blocks=blocks, running=running, installable=installable, notes=notes,
                not_installable=[v for v in uc.UNICODE_VERSIONS if v not in installable])


def tla_pieces(raw, index=None) -> str:
    out = []
    for p in raw:
        lo, hi, r = (p, p + 1, 0) if isinstance(p, int) else (p[0], p[1], 1)
        if index is not None:
            lo, hi = index[lo], index[hi]
        out.append(f'<<{lo},{hi},{r}>>')
    return '<<' + ','.join(out) + '>>'


def gen_tables_module(exp: dict, path: str):
    """Impl_UnicodeData.tla: literal constants.  Category pieces are written in COMPRESSED coordinates
    (index into the sorted end-point list E of their data set; TLC checks E and the piece widths);
    block pieces in real coordinates."""
    datasets = []          # distinct category data sets
    ds_of: dict = {}
    for v, tab in exp['cats'].items():
        key = repr(sorted(tab.items()))
        if key not in ds_of:
            ds_of[key] = len(datasets)
            datasets.append(dict(versions=[v], tab=tab))
        else:
            datasets[ds_of[key]]['versions'].append(v)
    lines = ['---------------------------- MODULE Impl_UnicodeData ----------------------------',
             '(* GENERATED at check time from the working tree: do not edit. *)',
             'EXTENDS Integers, Sequences', '']
    ds_txt = []
    for d in datasets:
        pts = {0, MAXU1}
        for raw in d['tab'].values():
            for p in raw:
                if isinstance(p, int):
                    pts.update((p, p + 1))
                else:
                    pts.update(p)
        E = sorted(pts)
        d['E'] = E
        index = {x: i + 1 for i, x in enumerate(E)}
        cat_txt = ', '.join(f'{n} |-> {tla_pieces(raw, index)}' for n, raw in d['tab'].items())
        ds_txt.append(f'[name |-> "{d["versions"][0]}", E |-> <<{",".join(map(str, E))}>>,\n   cat |-> [{cat_txt}]]')
    lines.append('DataSets == <<\n  ' + ',\n  '.join(ds_txt) + '\n>>')
    bdefs: list = []
    bidx: dict = {}
    vers_txt = []
    for v, cur in exp['blocks'].items():
        ids = []
        for n, raw in cur.items():
            key = (n, repr(raw))
            if key not in bidx:
                bidx[key] = len(bdefs) + 1
                bdefs.append((n, raw))
            ids.append(bidx[key])
        vers_txt.append(f'[ver |-> "{v}", blocks |-> <<{",".join(map(str, ids))}>>]')
    lines.append('BlockDefs == <<\n  ' + ',\n  '.join(f'[name |-> "{n}", p |-> {tla_pieces(raw)}]' for n, raw in bdefs) + '\n>>')
    lines.append('BlockVersions == <<\n  ' + ',\n  '.join(vers_txt) + '\n>>')
    lines.append('SubCatSeq == <<' + ', '.join(f'"{c}"' for c in SUBCATS) + '>>')
    lines.append('MajorSeq == <<' + ', '.join(f'"{c}"' for c in MAJORS) + '>>')
    lines.append('SubsOf == [' + ', '.join(
        f'{m} |-> {{' + ', '.join(f'"{c}"' for c in SUBCATS if c[0] == m) + '}' for m in MAJORS) + ']')
    lines.append('=============================================================================')
    with open(path, 'w') as f:
        f.write('\n'.join(lines) + '\n')
    return datasets, bdefs


def find_cp(raw_a, raw_b):
    """a concrete code point in both raw lists (projection used to confirm a TLC counterexample)"""
    A, B = merged(raw_a), merged(raw_b)
    for a0, a1 in A:
        for b0, b1 in B:
            if max(a0, b0) < min(a1, b1):
                return max(a0, b0)
    return None


def run_tables(chk: core.Check, conf: dict) -> None:
    import elementpath.regex as rx
    t0 = time.time()
    exp = export_tables(conf['install_versions'])
    gen = os.path.join(chk.scratch, 'gen')
    os.makedirs(gen, exist_ok=True)
    datasets, bdefs = gen_tables_module(exp, os.path.join(gen, 'Impl_UnicodeData.tla'))
    wd = os.path.join(chk.scratch, 'tables')
    cfg = tla.cfg_text({}, spec='Spec', invariants=['Verdict'])
    r = tla.require_ok(tla.run_tlc('UnicodeTables', cfg, wd, workers=1, extra_modules_dir=gen, heap='6g'),
                       'UnicodeTables on exported tables')
    chk.model('UnicodeTables/exported', r)
    viols = list(tla.printed_values(r.output, 'c13viol'))
    n_ob = r.distinct
    chk.add('transitions', n_ob)
    chk.add('table_obligations_checked_by_tlc', n_ob)
    chk.add('distinct_nontrivial', n_ob)
    chk.coverage['tables'] = dict(
        category_datasets=[dict(versions=d['versions'], endpoints=len(d['E']),
                                pieces=sum(len(x) for x in d['tab'].values())) for d in datasets],
        block_versions=len(exp['blocks']), distinct_block_definitions=len(bdefs),
        running_unicode_version=exp['running'], not_installable_tables=exp['not_installable'], notes=exp['notes'],
        export_and_tlc_s=round(time.time() - t0, 1))
    # C proposes, A confirms: every obligation TLC refutes is confirmed through the public API
    for ob in viols:
        law = ob[0]
        feat = dict(impl='tables', law=law, kind='table')
        case = dict(impl='tables', law=law, ob=core.jsonable(ob))
        confirmed = True
        witness = None
        if law in ('disjoint', 'major', 'cover', 'canonical'):
            d = datasets[ob[1] - 1]
            feat['version'] = d['versions'][0]
            case['versions'] = d['versions']
            if law == 'disjoint':
                c1, c2 = SUBCATS[ob[2] - 1], SUBCATS[ob[3] - 1]
                witness = find_cp(d['tab'][c1], d['tab'][c2])
                feat['names'] = f'{c1},{c2}'
                ver = d['versions'][0]
                if witness is not None and ver != 'running':
                    with warnings.catch_warnings():
                        warnings.simplefilter('ignore')
                        rx.install_unicode_data(ver)
                    try:
                        confirmed = witness in rx.unicode_category(c1) and witness in rx.unicode_category(c2)
                    finally:
                        rx.install_unicode_data()
            else:
                feat['names'] = str(ob[2]) if len(ob) > 2 else '-'
        elif law == 'blockcanonical':
            feat['version'] = '-'
            feat['names'] = bdefs[ob[1] - 1][0]
        else:
            feat['version'] = exp['installable'][ob[1] - 1]
            feat['names'] = bdefs[ob[2] - 1][0]
            others = [bdefs[i - 1] for i in
                      {bidx for bidx in range(1, len(bdefs) + 1)} if i > ob[2] and
                      bdefs[i - 1][0] in exp['blocks'][feat['version']] and
                      exp['blocks'][feat['version']][bdefs[i - 1][0]] == bdefs[i - 1][1]]
            hit = [(n, find_cp(bdefs[ob[2] - 1][1], raw)) for n, raw in others]
            hit = [(n, w) for n, w in hit if w is not None]
            if hit:
                witness = hit[0][1]
                feat['names'] += ',' + hit[0][0]
                ud = rx.UnicodeData(feat['version'], categories={})
                confirmed = all(witness in ud.block(n) for n in feat['names'].split(','))
            else:
                confirmed = False
        if not confirmed:
            raise tla.MachineryError(f'TLC refuted table obligation {ob} but the API does not confirm it')
        chk.fail(feat, case, 'law holds on the exported tables', dict(tlc_refuted=core.jsonable(ob), witness=witness),
                 what=f'table law {law} fails for {feat.get("version")} {feat.get("names")}')
    print(f'  tables: datasets={len(datasets)} block versions={len(exp["blocks"])} obligations={n_ob} '
          f'refuted={len(viols)} t={time.time() - t0:.1f}s', flush=True)
    # harness sweep (NOT model checking): the running version against unicodedata, all code points
    t0 = time.time()
    tab = exp['cats']['running']
    owner = [None] * MAXU1
    multi = 0
    for n in SUBCATS:
        for p in tab[n]:
            a, b = (p, p + 1) if isinstance(p, int) else p
            for cp in range(a, b):
                if owner[cp] is not None:
                    multi += 1
                owner[cp] = n
    bad = []
    cat = unicodedata.category
    for cp in range(MAXU1):
        if owner[cp] != cat(chr(cp)):
            bad.append(cp)
    maj_bad = []
    for m in MAJORS:
        cover = bytearray(MAXU1)
        for p in tab[m]:
            a, b = (p, p + 1) if isinstance(p, int) else p
            cover[a:b] = b'\x01' * (b - a)
        for cp in range(MAXU1):
            if bool(cover[cp]) != (owner[cp] is not None and owner[cp][0] == m):
                maj_bad.append((m, cp))
                break
    rnd = random.Random(chk.seed)
    api_bad = []
    for cp in [rnd.randrange(MAXU1) for _ in range(conf['api_sample'])] + [0, 0x7F, 0xD7FF, 0xD800, 0xFFFF, 0x10000, MAXU1 - 1]:
        c = cat(chr(cp))
        if cp not in rx.unicode_category(c) or cp not in rx.unicode_category(c[0]):
            api_bad.append(cp)
    chk.coverage['unicodedata_sweep'] = dict(
        kind='plain harness sweep over all code points (data comparison, not model checking)',
        unicodedata_version=unicodedata.unidata_version, installed_version=exp['running'],
        code_points_compared=MAXU1, mismatches=len(bad), multiply_assigned=multi, major_mismatches=len(maj_bad),
        api_membership_probes=conf['api_sample'] + 7, api_mismatches=len(api_bad), wall_s=round(time.time() - t0, 1))
    chk.add('evaluations', MAXU1 + conf['api_sample'] + 7)
    if exp['running'] != unicodedata.unidata_version:
        chk.fail(dict(impl='tables', law='version', kind='table', version=exp['running'], names='-'),
                 dict(impl='tables', law='version'), unicodedata.unidata_version, exp['running'],
                 what='installed Unicode data version differs from unicodedata.unidata_version')
    if bad or multi or maj_bad or api_bad:
        cp = (bad or [x[1] for x in maj_bad] or api_bad or [0])[0]
        chk.fail(dict(impl='tables', law='unicodedata', kind='table', version=exp['running'],
                      names=cat(chr(cp))),
                 dict(impl='tables', law='unicodedata', cp=cp), cat(chr(cp)), owner[cp],
                 what=f'category table differs from unicodedata.category at {len(bad)} code points '
                      f'(first U+{cp:04X}); multiply assigned={multi}; major mismatches={maj_bad[:3]}; '
                      f'API probes failing={api_bad[:3]}')
    print(f'  sweep: 0x110000 code points vs unicodedata {unicodedata.unidata_version}: mismatches={len(bad)} '
          f't={time.time() - t0:.1f}s', flush=True)


# ---------------------------------------------------------------------------------------------


def run_apalache(chk: core.Check, timeout_s: int) -> None:
    """best effort: Canonical is an INDUCTIVE invariant of the repaired add()/discard() for symbolic code points
    (spec/CodePointSetInd.tla).  Nothing depends on the outcome; it is recorded in the evidence."""
    wd = os.path.join(chk.scratch, 'apalache')
    os.makedirs(wd, exist_ok=True)
    src = os.path.join(tla.SPEC_DIR, 'CodePointSetInd.tla')
    with open(src) as f:
        text = f.read()
    with open(os.path.join(wd, 'CodePointSetInd.tla'), 'w') as f:
        f.write(text)
    cmd = ['apalache-mc', 'check', '--init=IndInit', '--inv=StepInv', '--length=1', '--cinit=ConstInit',
           '--out-dir=' + os.path.join(wd, 'out'), 'CodePointSetInd.tla']
    rec = dict(module='CodePointSetInd', cmd=' '.join(cmd[:6]), obligation='from any canonical list of <= 4 pieces over '
               '0..0x10FFFF one add/discard of any range gives a canonical list denoting the updated set')
    t0 = time.time()
    try:
        p = subprocess.run(cmd, cwd=wd, capture_output=True, text=True, timeout=timeout_s)
        out = p.stdout + p.stderr
        rec['outcome'] = 'NoError' if 'The outcome is: NoError' in out else \
            'Error' if 'The outcome is: Error' in out else 'failed to run'
        rec['discharged'] = rec['outcome'] == 'NoError'
        if rec['outcome'] == 'Error':
            raise tla.MachineryError('Apalache refutes the inductive invariant of spec/CodePointSetInd.tla:\n' + out[-1500:])
        if rec['discharged']:
            # the proof must not be vacuous: the same check on a broken fold must fail
            bad = text.replace('IF p[2] < acc.s THEN [acc EXCEPT', 'IF p[2] <= acc.s THEN [acc EXCEPT')
            if bad == text:
                raise tla.MachineryError('CodePointSetInd.tla: mutation site not found')
            with open(os.path.join(wd, 'CodePointSetInd.tla'), 'w') as f:
                f.write(bad)
            p2 = subprocess.run(cmd[:-2] + ['--out-dir=' + os.path.join(wd, 'out2'), 'CodePointSetInd.tla'], cwd=wd,
                                capture_output=True, text=True, timeout=timeout_s)
            rec['mutated_spec_refuted'] = 'The outcome is: Error' in (p2.stdout + p2.stderr)
            if not rec['mutated_spec_refuted']:
                raise tla.MachineryError('Apalache accepts a broken add fold: the inductive check is vacuous')
    except subprocess.TimeoutExpired:
        rec['outcome'] = f'not discharged (timeout {timeout_s}s)'
        rec['discharged'] = False
    except FileNotFoundError:
        rec['outcome'] = 'not discharged (apalache-mc not installed)'
        rec['discharged'] = False
    rec['wall_s'] = round(time.time() - t0, 1)
    chk.coverage['apalache_inductive_invariant'] = rec
    print(f'  apalache: {rec["outcome"]} ({rec["wall_s"]}s)', flush=True)


def replay(rec: dict) -> int:
    core.setup_repo_path()
    case = rec['case']
    US, CC = _classes()
    print('case     :', {k: v for k, v in case.items() if k not in ('rep2',)})
    print('expected :', rec['expected'])
    if case.get('impl') == 'UnicodeSubset' and 'action' in case:
        win = Win(case['W'], case['M'])
        tup = lambda x: tuple(tup(y) for y in x) if isinstance(x, list) else x   # noqa: E731
        action, form = case['action'], case['form']
        args = tup(case['args'])
        if action in ('Update', 'DiffUpdate', 'Ior', 'Isub', 'Iand', 'Ixor'):
            args = (frozenset(case['args'][0]),)
        S2 = frozenset(case['S2'])
        rep2 = tup(case['rep2'])
        # canonical lists of the argument set: taken from the recorded TLC state where needed
        canon_of = {}
        if action in ('Update', 'DiffUpdate', 'Ior', 'Isub', 'Iand', 'Ixor'):
            canon_of[args[0]] = tuple((a,) if (b == a + 1 and a not in win.wide) else (a, b) for a, b in runs(args[0]))
        G['canon_of'] = canon_of
        G['cur_S'] = frozenset(case['S'])
        G['cur_rep2'] = rep2
        try:
            u = US(win.pieces(tup(case['src'])))
            r, note = apply_us(US, u, win, action, args, form, canon_of, case.get('seed', 0))
            kind = note or observe_us(US, r, win, S2, rep2)[0]
            raw = list(r.codepoints)
        except Exception as e:
            kind, raw = 'exception:' + type(e).__name__, repr(e)
        print('observed :', dict(kind=kind, raw=raw))
        if kind:
            print('VIOLATION property=C13 replay=(replayed)')
            return 1
        return 0
    if case.get('impl') == 'CharacterClass':
        win = Win(case['W'], case['M'])
        tup = lambda x: tuple(tup(y) for y in x) if isinstance(x, list) else x   # noqa: E731
        action = case['action']
        args = (frozenset(case['args'][0]),) if action == 'Isub' else tup(case['args'])
        try:
            cc = cc_build(US, CC, [tup(p) for p in case['positive']], [tup(p) for p in case['negative']])
            r, note = cc_apply(US, CC, cc, win, action, args, case['form'])
            kind = note or cc_observe(r, win, frozenset(case['S2']))
            obs = dict(kind=kind, positive=list(r.positive.codepoints), negative=list(r.negative.codepoints))
        except Exception as e:
            kind, obs = 'exception', repr(e)
        print('observed :', obs)
        if kind:
            print('VIOLATION property=C13 replay=(replayed)')
            return 1
        return 0
    if case.get('impl') == 'UnicodeSubset' and 'history' in case:
        win = Win(case['W'], case['M'])
        tup = lambda x: tuple(tup(y) for y in x) if isinstance(x, list) else x   # noqa: E731
        canon_of: dict = {}
        G['canon_of'] = canon_of
        u = US()
        kind = None
        try:
            for action, args in case['history']:
                if action in ('Update', 'DiffUpdate', 'Ior', 'Isub', 'Iand', 'Ixor'):
                    args = (frozenset(args[0]),)
                    canon_of[args[0]] = tuple((a,) if (b == a + 1 and a not in win.wide) else (a, b)
                                              for a, b in runs(args[0]))
                else:
                    args = tup(args)
                G['cur_S'] = None
                u, _ = apply_us(US, u, win, action, args, PRIMARY[action], canon_of, 0)
            kind = observe_us(US, u, win, frozenset(case['S2']), tup(case['rep2']))[0]
            raw = list(u.codepoints)
        except Exception as e:
            kind, raw = 'exception:' + type(e).__name__, repr(e)
        print('observed :', dict(kind=kind, raw=raw))
        if kind:
            print('VIOLATION property=C13 replay=(replayed)')
            return 1
        return 0
    if case.get('impl') == 'tables':
        # re-export the tables of the working tree and let TLC / the sweep judge them again
        chk2 = core.Check('C13', 'quick', 0)
        chk2.known = []
        try:
            run_tables(chk2, TIERS['quick'])
        finally:
            import shutil
            shutil.rmtree(chk2.scratch, ignore_errors=True)
        want = rec.get('features', {})
        again = [f for f in chk2.failures if f['features'].get('law') == want.get('law')
                 and f['features'].get('names') == want.get('names')]
        print('observed :', [f['observed'] for f in again][:3] or 'the law holds on the exported tables')
        if again:
            print('VIOLATION property=C13 replay=(replayed)')
            return 1
        return 0
    print('unknown case class')
    return 2


def run(chk: core.Check) -> None:
    core.setup_repo_path()
    conf = TIERS[chk.tier]
    G['costly_mod'] = conf['costly_mod']
    _classes()      # import elementpath.regex once, before any worker is forked
    import elementpath.regex.unicode_subsets  # noqa: F401
    chk.assumptions += [
        'the oracle is spec/CodePointSet.tla (TLC checks CanonSound, SetLaws, RepInjective on every state and '
        'CanonUnique on a small universe); expected member set AND expected raw list of every replayed step are read '
        'from the TLC state graph',
        'abstract points map to real code points through monotone windows (offsets in coverage.configs); the two outer '
        'points stand for the blocks left / right of the window, so complement and maxunicode are exercised',
        'members are observed with `in` on every window point plus 3 probes per outer block, by iteration / len / '
        'reversed when the set has no outer block, and by the raw `codepoints` list',
        'operations whose implementation iterates over every single code point of an outer block (^=, &=) are '
        'replayed on a 1/costly_mod sample of such transitions (seconds per call), the rest is counted in coverage.skipped_costly',
        'which exception is raised for arguments outside 0..0x10FFFF is not compared (only: the set is unchanged)',
        'table laws are checked by TLC on the tables as exported through unicode_category/unicode_block/'
        'install_unicode_data/UnicodeData; the unicodedata comparison is a harness sweep, not model checking',
    ]
    chk.coverage['configs'] = core.jsonable({k: v for k, v in conf.items()})
    run_unique(chk, conf['unique_M'])
    for ac in conf['abstract']:
        run_abstract(chk, ac, conf['closure_depth'], ac.get('closure_max', conf['closure_max']))
    run_cc(chk, conf['cc'])
    run_cc_cells(chk, conf)
    run_impl(chk, conf['impl'])
    run_tables(chk, conf)
    if conf.get('apalache_timeout'):
        run_apalache(chk, conf['apalache_timeout'])
    skipped = chk.coverage.get('skipped_costly', 0) + chk.coverage.get('cc_skipped_costly', 0)
    chk.coverage['exhaustive'] = skipped == 0
    if skipped:
        chk.coverage['exhaustive_except'] = (
            f'{skipped} transitions whose implementation walks every single code point of an outer block '
            '(^=, &=, difference(UnicodeSubset), CharacterClass calls on a class holding a block in `negative`; '
            'about a second each) were replayed on a sample only; every other transition of the graphs was replayed')
    chk.coverage['rule'] = (
        'one case = one transition of the TLC state graph of CodePointSet (every action x every argument from every '
        'subset of the abstract universe), replayed in every window and every argument form; plus one case per '
        'table obligation evaluated by TLC; non-trivial = the transition changes the set (or is Complement/Assign), '
        'or is a table obligation')
