"""X01 (extension, not one of the listed properties): xml:lang scoping and fn:lang -- spec/LangScope.tla.

TLC enumerates every element chain (xml:lang absent / "" / a tag per element), the focus kinds and the answer table
of fn:lang; the laws (definitional nearest-ancestor reading = the walking evaluator, case blindness, prefix closure,
xml:lang="" hides) are TLC invariants.  Every state is replayed on the real code: the chain is rendered 1:1 as an XML
document (under an unmarked wrapper element), for xml.etree and lxml, and fn:lang is asked from the focus node
  pred  count(PATH[lang('t')])           every parser version (1.0, 2.0, 3.0, 3.1)
  step  PATH/lang('t')                   2.0+
  arg   lang('t', PATH)                  2.0+
Second oracle for the SPEC: libxml2's XPath 1.0 lang() through lxml (disagreement = machinery error).

Implementation-defined / excluded: $testlang = "", an xml:lang attribute node as the context node.
"""
from __future__ import annotations

import os

from engine import core, tla

LEVEL = 'model_checking'
INVS = ['TypeOK', 'InvDefinitional', 'InvCaseBlind', 'InvPrefixClosed', 'InvNoLanguage', 'InvSelf']
NONE = ('#none',)
KIND_STEP = {'elem': '', 'attr': '/@a', 'text': '/text()', 'comment': '/comment()', 'pi': '/processing-instruction()'}
VERSIONS = ('1.0', '2.0', '3.0', '3.1')


def render(chain) -> str:
    """chain of xml:lang settings -> XML text; every chain element carries an attribute, a text, a comment and a PI."""
    out, close = ['<r>'], ['</r>']
    for i, v in enumerate(chain, 1):
        lang = '' if tuple(v) == NONE else ' xml:lang="%s"' % '-'.join(v)
        out.append(f'<e{i}{lang} a="1">t<!--c--><?p d?>')
        close.append(f'</e{i}>')
    return ''.join(out) + ''.join(reversed(close))


def focus_path(chain, kind) -> str:
    if kind == 'doc':
        return '/self::node()'
    return '/r' + ''.join(f'/e{i}' for i in range(1, len(chain) + 1)) + KIND_STEP[kind]


_parsers: dict = {}
_tokens: dict = {}


def _token(version, expr):
    key = (version, expr)
    tok = _tokens.get(key)
    if tok is None:
        import elementpath
        p = _parsers.get(version)
        if p is None:
            cls = {'1.0': elementpath.XPath1Parser, '2.0': elementpath.XPath2Parser}.get(version)
            if cls is None:
                from elementpath.xpath30 import XPath30Parser
                from elementpath.xpath31 import XPath31Parser
                cls = XPath30Parser if version == '3.0' else XPath31Parser
            p = _parsers[version] = cls()
        tok = _tokens[key] = p.parse(expr)
    return tok


def ask(root, version, form, path, test):
    """-> True/False, or ('err', code) / ('escaped', class)"""
    import elementpath
    t = '-'.join(test)
    expr = {'pred': f"count({path}[lang('{t}')])", 'step': f"{path}/lang('{t}')", 'arg': f"lang('{t}', {path})"}[form]
    try:
        tok = _token(version, expr)
        val = tok.evaluate(elementpath.XPathContext(root))
    except elementpath.ElementPathError as e:
        return ('err', getattr(e, 'code', None) or str(e)[:40]), expr
    except Exception as e:  # noqa: BLE001
        return ('escaped', type(e).__name__), expr
    if form == 'pred':
        return (True if val == 1 else False if val == 0 else ('value', repr(val))), expr
    if isinstance(val, list) and len(val) == 1:
        val = val[0]
    return (val if isinstance(val, bool) else ('value', repr(val))), expr


def work(job):
    import io
    import xml.etree.ElementTree as ET
    from lxml import etree as LET
    out = []
    for chain, kind, res in job:
        text = render(chain)
        path = focus_path(chain, kind)
        lroot = LET.parse(io.BytesIO(text.encode()))
        # second oracle for the spec: libxml2
        for test, want in res:
            got = lroot.xpath(f"count({path}[lang('{'-'.join(test)}')])") == 1.0
            if got != want:
                out.append(('oracle', chain, kind, test, want, got, 'libxml2', '', ''))
        eroot = ET.parse(io.StringIO(text), ET.XMLParser(target=ET.TreeBuilder(insert_comments=True, insert_pis=True)))
        for lib, root in (('etree', eroot), ('lxml', lroot)):
            for version in VERSIONS:
                for form in (('pred',) if version == '1.0' else ('pred', 'step', 'arg')):
                    if form == 'step' and kind == 'doc':
                        continue
                    p = '/' if (kind == 'doc' and form == 'arg') else path
                    for test, want in res:
                        got, expr = ask(root, version, form, p, test)
                        out.append(('ok' if got == want else 'bad', chain, kind, test, want, got, lib, version, form, expr))
    return out


def lang_class(v):
    v = tuple(v)
    return 'none' if v == NONE else 'empty' if v == () else 'tag%d' % len(v)


def features(chain, kind, test, want, got, lib, version, form):
    chain = [tuple(v) for v in chain]
    nearest = next((v for v in reversed(chain) if v != NONE), NONE)
    inherited = bool(chain) and chain[-1] == NONE and nearest != NONE
    return {'family': 'lang', 'kind': kind, 'form': form, 'version': version, 'lib': lib, 'expected': want,
            'observed': got if isinstance(got, bool) else got[0], 'nearest': lang_class(nearest), 'inherited': inherited,
            'hidden_outer': nearest == () and any(v not in (NONE, ()) for v in chain), 'test_subtags': len(test),
            'case_differs': nearest not in (NONE, ()) and '-'.join(test) != '-'.join(nearest)[:len('-'.join(test))]}


def run(chk: core.Check) -> None:
    consts = {'MaxDepth': 3 if chk.tier == 'quick' else 4, 'Wide': chk.tier != 'quick'}
    if chk.tier != 'quick':
        consts['MaxDepth'] = 3
    wd = os.path.join(chk.scratch, 'lang')
    dot = os.path.join(wd, 'g.dot')
    r = tla.require_ok(tla.run_tlc('LangScope', tla.cfg_text(consts, invariants=INVS), wd, dump_dot=dot, coverage=True),
                       'LangScope', min_distinct=300)
    chk.model('LangScope/' + chk.tier, r)
    g = tla.load_dot(dot)
    chk.add('transitions', len(g.edges))
    jobs = []
    nontrivial = 0
    for st in g.states.values():
        res = sorted((tuple(t), bool(b)) for t, b in st['res'].items())
        nontrivial += any(b for _, b in res)
        jobs.append((tuple(tuple(v) for v in st['chain']), st['kind'], res))
    if nontrivial < 50:
        raise tla.MachineryError('LangScope: answer tables almost all false (vacuous)')
    n = 0
    for out in core.pool_map(work, core.chunked(jobs, 12)):
        for rec in out:
            if rec[0] == 'oracle':
                raise tla.MachineryError(f'LangScope disagrees with libxml2: {rec}')
            n += 1
            if rec[0] == 'bad':
                _, chain, kind, test, want, got, lib, version, form, expr = rec
                chk.fail(features(chain, kind, test, want, got, lib, version, form),
                         {'xml': render(chain), 'expr': expr, 'lib': lib, 'version': version}, want, got,
                         f"fn:lang from {kind} focus")
            elif n % 40000 == 1:
                chk.sample({'xml': render(rec[1]), 'expr': rec[9], 'lib': rec[6], 'version': rec[7], 'value': rec[5]})
    chk.add('evaluations', n)
    chk.add('traces_validated_against_impl', len(jobs))
    chk.add('distinct_nontrivial', nontrivial)
    chk.coverage['rule'] = 'every state of LangScope (chain of xml:lang settings x focus kind) x tests x forms x versions x 2 tree libraries'
    chk.coverage['exhaustive'] = True
    chk.coverage['constants'] = consts
    chk.assumptions += ['$testlang = "" and an xml:lang attribute node as context are excluded (implementation-defined)',
                        'language subtags are ASCII letters; case folding beyond ASCII is not exercised']


def replay(rec) -> int:
    import io
    import xml.etree.ElementTree as ET
    from lxml import etree as LET
    import elementpath
    core.setup_repo_path()
    c = rec['case']
    root = ET.parse(io.StringIO(c['xml']), ET.XMLParser(target=ET.TreeBuilder(insert_comments=True, insert_pis=True))) if c['lib'] == 'etree' else LET.parse(io.BytesIO(c['xml'].encode()))
    tok = _token(c['version'], c['expr'])
    val = tok.evaluate(elementpath.XPathContext(root))
    print('expected', rec['expected'], 'observed', val)
    return 0
