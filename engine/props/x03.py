"""X03 (extension, not one of the listed properties): namespace scoping and the name accessors -- spec/NsScope.tla.

TLC enumerates element chains whose steps declare (or keep) the prefix p and the default namespace and choose the name
forms of the element and of its attribute; the machine carries the bindings in scope; laws: nearest declaration wins
(InvDefinitional), unprefixed attributes are in no namespace, prefixed names are bound, in-scope-prefixes agrees with
namespace-uri-for-prefix, the element's namespace is one of the in-scope bindings.  Every state is replayed on the real
code (document rendered 1:1; xml.etree and lxml; parser versions 1.0-3.1), asking from the focus element E (addressed
positionally, so no namespaces= argument is involved) and its attribute A:
  namespace-uri / local-name / name of E and A (name() only where the prefix is defined: lxml, or no namespace)
  node-name parts of E and A (2.0+), in-scope-prefixes(E), namespace-uri-for-prefix('p' | '' | 'xml', E),
  count(E/namespace::*) (lxml: it retains the declarations)
Second oracle for the SPEC: libxml2's XPath 1.0 namespace-uri / local-name / name (disagreement = machinery error).
"""
from __future__ import annotations

import os

from engine import core, tla

LEVEL = 'model_checking'
INVS = ['TypeOK', 'InvDefinitional', 'InvAttrNoDefault', 'InvPrefixedBound', 'InvScopeAgrees', 'InvElemNsInScope']
VERSIONS = ('1.0', '2.0', '3.0', '3.1')
XML_NS = 'http://www.w3.org/XML/1998/namespace'


def uri(u):
    return '' if u in ('', 'none') else 'urn:' + u


def render(chain) -> str:
    out, close = ['<r a="1">'], ['</r>']
    for i, s in enumerate(chain, 1):
        name = ('p:' if s['ef'] == 'p' else '') + f'e{i}'
        decl = ''
        if s['dp'] != 'keep':
            decl += f' xmlns:p="urn:{s["dp"]}"'
        if s['dd'] != 'keep':
            decl += f' xmlns="urn:{s["dd"]}"'
        attr = ('p:' if s['af'] == 'p' else '') + 'a'
        out.append(f'<{name}{decl} {attr}="1">')
        close.append(f'</{name}>')
    return ''.join(out) + ''.join(reversed(close))


def questions(chain, obs, lib, version):
    """-> [(question tag, expression, expected abstract answer)]"""
    n = len(chain)
    E = '/*' + '/*' * n
    A = E + '/@*'
    ename = f'e{n}' if n else 'r'
    qs = [('e-namespace-uri', f'string(namespace-uri({E}))', uri(obs['ens'])),
          ('e-local-name', f'local-name({E})', ename),
          ('a-namespace-uri', f'string(namespace-uri({A}))', uri(obs['ans'])),
          ('a-local-name', f'local-name({A})', 'a')]
    # several prefixes bound to the element's namespace: which one name() shows is left to the implementation
    ambiguous = obs['ens'] != '' and obs['forp'] == obs['ford']
    if (lib == 'lxml' and not ambiguous) or obs['ens'] == '':
        qs.append(('e-name', f'name({E})', (obs['epfx'] + ':' if obs['epfx'] else '') + ename))
    if lib == 'lxml' or obs['ans'] == '':
        qs.append(('a-name', f'name({A})', (obs['apfx'] + ':' if obs['apfx'] else '') + 'a'))
    if version != '1.0':
        qs += [('e-node-name-ns', f'string(namespace-uri-from-QName(node-name({E})))', uri(obs['ens'])),
               ('e-node-name-local', f'local-name-from-QName(node-name({E}))', ename),
               ('a-node-name-ns', f'string(namespace-uri-from-QName(node-name({A})))', uri(obs['ans'])),
               ('e-step-namespace-uri', f'{E}/string(namespace-uri())', uri(obs['ens'])),
               ('a-step-namespace-uri', f'{A}/string(namespace-uri())', uri(obs['ans'])),
               ('for-prefix-xml', f"string(namespace-uri-for-prefix('xml', {E}))", XML_NS)]
        if lib == 'lxml':
            scope = sorted(obs['scope'])
            qs += [('in-scope-prefixes', f"in-scope-prefixes({E})", scope),
                   ('for-prefix-p', f"namespace-uri-for-prefix('p', {E})", uri(obs['forp']) or None),
                   ('for-prefix-default', f"namespace-uri-for-prefix('', {E})", uri(obs['ford']) or None),
                   ('for-prefix-empty-seq', f"namespace-uri-for-prefix((), {E})", uri(obs['ford']) or None)]
    if lib == 'lxml':
        qs.append(('namespace-axis-count', f'count({E}/namespace::*)', len(obs['scope'])))
    return qs


_parsers: dict = {}
_tokens: dict = {}


def _token(version, expr, ns=()):
    key = (version, expr, ns)
    tok = _tokens.get(key)
    if tok is None:
        import elementpath
        p = _parsers.get((version, ns))
        if p is None:
            cls = {'1.0': elementpath.XPath1Parser, '2.0': elementpath.XPath2Parser}.get(version)
            if cls is None:
                from elementpath.xpath30 import XPath30Parser
                from elementpath.xpath31 import XPath31Parser
                cls = XPath30Parser if version == '3.0' else XPath31Parser
            p = _parsers[(version, ns)] = cls(namespaces=dict(ns))
        tok = _tokens[key] = p.parse(expr)
    return tok


def static_ns(obs):
    """the library's documented convention: prefixes are resolved through the namespaces= argument; the check passes the
    bindings in scope on the focus element"""
    ns = []
    if obs['forp'] != 'none':
        ns.append(('p', uri(obs['forp'])))
    if obs['ford'] != 'none':
        ns.append(('', uri(obs['ford'])))
    return tuple(ns)


def ask(root, version, tag, expr, ns=()):
    import elementpath
    try:
        val = _token(version, expr, ns).evaluate(elementpath.XPathContext(root))
    except elementpath.ElementPathError as e:
        return ('err', getattr(e, 'code', None) or str(e)[:40])
    except Exception as e:  # noqa: BLE001
        return ('escaped', type(e).__name__)
    if tag == 'in-scope-prefixes':
        return sorted(str(x) for x in val) if isinstance(val, list) else ('value', repr(val))
    if tag.startswith('for-prefix-') and tag != 'for-prefix-xml':
        if val is None or val == []:
            return None
        if isinstance(val, list) and len(val) == 1:
            val = val[0]
        return str(val)
    if isinstance(val, list) and len(val) == 1:
        val = val[0]
    if tag == 'namespace-axis-count':
        return int(val) if isinstance(val, (int, float)) else ('value', repr(val))
    return val if isinstance(val, str) else ('value', repr(val))


def work(job):
    import io
    import xml.etree.ElementTree as ET
    from lxml import etree as LET
    out = []
    for chain, obs in job:
        text = render(chain)
        lroot = LET.parse(io.BytesIO(text.encode()))
        for tag, expr, want in questions(chain, obs, 'lxml', '1.0'):
            if tag in ('e-namespace-uri', 'e-local-name', 'a-namespace-uri', 'a-local-name', 'e-name', 'a-name'):
                got = lroot.xpath(expr)
                if got != want:
                    out.append(('oracle', text, tag, expr, want, got))
        eroot = ET.parse(io.StringIO(text))
        for lib, root in (('etree', eroot), ('lxml', lroot)):
            for version in VERSIONS:
                for tag, expr, want in questions(chain, obs, lib, version):
                    got = ask(root, version, tag, expr, static_ns(obs))
                    out.append(('ok' if got == want else 'bad', chain, tag, expr, want, got, lib, version, static_ns(obs)))
    return out


def features(chain, tag, want, got, lib, version):
    last = chain[-1] if chain else None
    return {'family': 'ns-accessors', 'question': tag, 'lib': lib, 'version': version, 'depth': len(chain),
            'observed': got[0] if isinstance(got, tuple) else 'value',
            'elem_form': last['ef'] if last else 'wrapper', 'attr_form': last['af'] if last else 'plain',
            'declares_p': bool(last) and last['dp'] != 'keep', 'declares_default': bool(last) and last['dd'] != 'keep',
            'redeclared': sum(1 for s in chain if s['dp'] != 'keep') > 1 or sum(1 for s in chain if s['dd'] != 'keep') > 1}


def run(chk: core.Check) -> None:
    consts = {'MaxDepth': 2 if chk.tier == 'quick' else 3}
    wd = os.path.join(chk.scratch, 'ns')
    dot = os.path.join(wd, 'g.dot')
    r = tla.require_ok(tla.run_tlc('NsScope', tla.cfg_text(consts, invariants=INVS), wd, dump_dot=dot, coverage=True),
                       'NsScope', min_distinct=300)
    chk.model('NsScope/' + chk.tier, r)
    g = tla.load_dot(dot)
    chk.add('transitions', len(g.edges))
    jobs, classes = [], set()
    for st in g.states.values():
        obs = dict(st['obs'])
        obs['scope'] = sorted(obs['scope'])
        classes.add(tla.to_tla(st['obs']))
        jobs.append((tuple(dict(s) for s in st['chain']), obs))
    if len(classes) < 12:
        raise tla.MachineryError('NsScope: too few distinct observation records (vacuous)')
    n = 0
    for out in core.pool_map(work, core.chunked(jobs, 16)):
        for rec in out:
            if rec[0] == 'oracle':
                raise tla.MachineryError(f'NsScope disagrees with libxml2: {rec}')
            n += 1
            if rec[0] == 'bad':
                _, chain, tag, expr, want, got, lib, version, ns = rec
                chk.fail(features(chain, tag, want, got, lib, version),
                         {'xml': render(chain), 'expr': expr, 'lib': lib, 'version': version, 'ns': ns}, want, got, tag)
            elif n % 20000 == 1:
                chk.sample({'xml': render(rec[1]), 'expr': rec[3], 'lib': rec[6], 'version': rec[7], 'value': rec[5]})
    chk.add('evaluations', n)
    chk.add('traces_validated_against_impl', len(jobs))
    chk.add('distinct_nontrivial', len(classes))
    chk.coverage['rule'] = 'every state of NsScope (chain of declaration / name-form steps) x accessor questions x versions x 2 tree libraries'
    chk.coverage['exhaustive'] = True
    chk.coverage['constants'] = consts
    chk.assumptions += ['xmlns="" and prefix undeclaration are excluded; one prefix p, two namespace URIs',
                        'in-scope-prefixes / namespace-uri-for-prefix / namespace axis are asked on lxml trees only (xml.etree keeps no declarations)']


def replay(rec) -> int:
    import io
    import xml.etree.ElementTree as ET
    from lxml import etree as LET
    import elementpath
    core.setup_repo_path()
    c = rec['case']
    root = ET.parse(io.StringIO(c['xml'])) if c['lib'] == 'etree' else LET.parse(io.BytesIO(c['xml'].encode()))
    val = _token(c['version'], c['expr'], tuple(tuple(x) for x in c.get('ns', ()))).evaluate(elementpath.XPathContext(root))
    print('expected', rec['expected'], 'observed', val)
    return 0
