"""C11 -- date, time and duration values follow the proleptic Gregorian timeline.

Specs: spec/Calendar.tla (leap rule, month lengths, day odometer, closed-form DaysFromCivil /
CivilFromDays, XSD 1.0 / 1.1 year numbering, timeline stamps <<days, seconds, micros>>, timezones),
spec/CalendarSweep.tla (one TLC state per day of the swept windows: closed form = odometer =
classical count), spec/Durations.tla (yearMonth = months, dayTime = stamp; order, arithmetic,
multiplication) and spec/DateChain.tla (VALUE-STATE MACHINE: state = a dateTime/date/time/duration
value (gYear / gYearMonth: construction only), actions Construct, AddDTD, SubDTD, AddYMD, SubYMD, Diff,
Compare, AdjustTZ, AdjustImpl,
Components, AddTo, MulBy, DurPlus, DurMinus, DurCompare, DurComponents; the laws d + dur - dur = d,
d1 + (d2 - d1) = d2, comparison = order of instants, adjust preserves the instant, clamping are TLC
invariants; the pure operators and laws live in spec/DateOps.tla) and spec/DateObject.tla (HISTORY machine: one
bound value obj used by up to MaxUses operations Add, Sub, AddYM, Diff, Cmp, Adjust, AdjustAdd, AdjustDiff,
AdjustCmp, AdjustImplAdd - action property Immutable: obj' = obj - plus SetTZ, the caller's own assignment of the
tzinfo attribute; $timezone arguments 24 hours apart in both orders).  Every path of that graph (every incoming
edge of the source as prefix) is driven on ONE real object: the Python object itself, the same object passed as
variables={'d': obj} to successive select() calls, and `for $d in <literal> return (use1, use2, ...)`; after each
use the operand is compared with the bound value (lexical form, ==, hash).

Binding A: every edge  src --Act(args)--> dst  of the dumped TLC graph is replayed
  * on the Python API  (elementpath.datatypes: DateTime/DateTime10/Date/Date10/Time/DayTimeDuration/
    YearMonthDuration .fromstring, + - * < == >, str(), component attributes) and
  * as XPath 2.0 expressions evaluated by elementpath.select(None, expr, parser=XPath2Parser,
    xsd_version='1.0'|'1.1' [, timezone=...]) (constructors, operators incl. the commuted spelling,
    adjust-*-to-timezone, *-from-dateTime/date/time/duration; for two-operation chains also the NESTED
    expression that produced the source).
Rendering is digit formatting only (render_*), projection parses str(result).  Expected values come
from TLC only.  Second oracle for the SPEC: python datetime (toordinal for every swept day of years
1..9999; datetime/timedelta/astimezone arithmetic for every edge whose years are all in 1..9999);
disagreement = MachineryError.

Not judged (implementation-defined or outside the property): the Python attribute `.year` (the classes
use their own documented no-year-zero convention), canonical duration strings (C10), |year| > 5 000 000
(TLC integers are 32 bit), FODT0001/FODT0002 overflow, timezones beyond +-14:00.
"""
from __future__ import annotations

import datetime as pydt
import os
import re
from calendar import isleap
from collections import deque
from decimal import Decimal

from .. import core, tla

NOTZ = 9999

TIERS = {
    'quick': dict(
        sweep='quick',
        chains=[('11-small-1', dict(Xsd='11', GridName='small', MaxOps=1, LawOps=0, ImplicitTZcfg=0)),
                ('10-small-1', dict(Xsd='10', GridName='small', MaxOps=1, LawOps=0, ImplicitTZcfg=0)),
                ('11-tiny-2', dict(Xsd='11', GridName='tiny', MaxOps=2, LawOps=1, ImplicitTZcfg=0)),
                ('10-tiny-2', dict(Xsd='10', GridName='tiny', MaxOps=2, LawOps=1, ImplicitTZcfg=0)),
                ('11-tiny-impl', dict(Xsd='11', GridName='tiny', MaxOps=1, LawOps=1, ImplicitTZcfg=10030))],
        objects=[('obj-11', dict(Xsd='11', ImplicitTZcfg=0, MaxUses=2)),
                 ('obj-10-impl', dict(Xsd='10', ImplicitTZcfg=10030, MaxUses=2))],
        tlc_workers=4, parallel=8),
    'thorough': dict(
        sweep='thorough',
        chains=[('11-full-1', dict(Xsd='11', GridName='full', MaxOps=1, LawOps=0, ImplicitTZcfg=0)),
                ('10-full-1', dict(Xsd='10', GridName='full', MaxOps=1, LawOps=0, ImplicitTZcfg=0)),
                ('11-small-2', dict(Xsd='11', GridName='small', MaxOps=2, LawOps=1, ImplicitTZcfg=0)),
                ('10-small-2', dict(Xsd='10', GridName='small', MaxOps=2, LawOps=1, ImplicitTZcfg=0)),
                ('11-small-impl', dict(Xsd='11', GridName='small', MaxOps=1, LawOps=0, ImplicitTZcfg=330))],
        objects=[('obj-11', dict(Xsd='11', ImplicitTZcfg=0, MaxUses=3)),
                 ('obj-10', dict(Xsd='10', ImplicitTZcfg=0, MaxUses=2)),
                 ('obj-11-impl', dict(Xsd='11', ImplicitTZcfg=330, MaxUses=2)),
                 ('obj-10-impl', dict(Xsd='10', ImplicitTZcfg=10030, MaxUses=2))],
        tlc_workers=8, parallel=4),
}

# ---------------------------------------------------------------------------------------
# rendering: abstract value -> lexical text (digit formatting only)


def lex_year(y: int) -> str:
    return ('-' if y < 0 else '') + '%04d' % abs(y)


def lex_tz(tz: int) -> str:
    if tz == NOTZ:
        return ''
    if tz == 0:
        return 'Z'
    return '%s%02d:%02d' % ('-' if tz < 0 else '+', abs(tz) // 60, abs(tz) % 60)


def lex_frac(us: int) -> str:
    return ('.' + ('%06d' % us).rstrip('0')) if us else ''


def render_val(v) -> str:
    """a "raw" or "val" record -> the literal as written"""
    k = v['k']
    tm = '%02d:%02d:%02d%s' % (v['h'], v['mi'], v['s'], lex_frac(v['us']))
    if k == 'time':
        return tm + lex_tz(v['tz'])
    if k == 'gYear':
        return lex_year(v['y']) + lex_tz(v['tz'])
    if k == 'gYearMonth':
        return '%s-%02d' % (lex_year(v['y']), v['mo']) + lex_tz(v['tz'])
    d = '%s-%02d-%02d' % (lex_year(v['y']), v['mo'], v['d'])
    if k == 'date':
        return d + lex_tz(v['tz'])
    return d + 'T' + tm + lex_tz(v['tz'])


def render_dur(r) -> str:
    """sign-magnitude duration record -> literal (PnYnM / PnDTnHnMnS)"""
    sign = '-' if r['neg'] else ''
    if r['k'] == 'ymd':
        yy, mm = divmod(r['m'], 12)
        return sign + 'P' + ('%dY' % yy if yy else '') + ('%dM' % mm if mm or not yy else '')
    h, rem = divmod(r['s'], 3600)
    mi, s = divmod(rem, 60)
    t = ('%dH' % h if h else '') + ('%dM' % mi if mi else '') + \
        ('%d%sS' % (s, lex_frac(r['us'])) if s or r['us'] else '')
    out = sign + 'P' + ('%dD' % r['d'] if r['d'] else '') + ('T' + t if t else '')
    return out if out[-1] != 'P' else out + 'T0S'


def render_rawdur(r) -> str:
    sign = '-' if r['neg'] else ''
    if r['k'] == 'ymd':
        body = ('%dY' % r['yy'] if r['yy'] else '') + ('%dM' % r['mm'] if r['mm'] or not r['yy'] else '')
        return sign + 'P' + body
    t = ('%dH' % r['hh'] if r['hh'] else '') + ('%dM' % r['mi'] if r['mi'] else '') + \
        ('%d%sS' % (r['ss'], lex_frac(r['us'])) if r['ss'] or r['us'] else '')
    out = sign + 'P' + ('%dD' % r['dd'] if r['dd'] else '') + ('T' + t if t else '')
    return out if out[-1] != 'P' else out + 'T0S'


XS = {'dateTime': 'xs:dateTime', 'date': 'xs:date', 'time': 'xs:time', 'dtd': 'xs:dayTimeDuration',
      'ymd': 'xs:yearMonthDuration', 'gYear': 'xs:gYear', 'gYearMonth': 'xs:gYearMonth'}


def xp_lit(kind: str, text: str) -> str:
    return '%s("%s")' % (XS[kind], text)


def xp_tz(tz: int) -> str:
    if tz == NOTZ:
        return '()'
    return xp_lit('dtd', render_dur(dict(k='dtd', neg=tz < 0, m=0, d=0, s=abs(tz) * 60, us=0)))


# ---------------------------------------------------------------------------------------
# projection: real result -> abstract value

_val_re = re.compile(r'^(?:(?P<y>-?\d{4,})-(?P<mo>\d\d)-(?P<d>\d\d))?T?(?:(?P<h>\d\d):(?P<mi>\d\d):(?P<s>\d\d)(?:\.(?P<f>\d+))?)?'
                     r'(?P<tz>Z|[+-]\d\d:\d\d)?$')
KIND_OF = {'DateTime': 'dateTime', 'DateTime10': 'dateTime', 'Date': 'date', 'Date10': 'date', 'Time': 'time'}
GKIND_OF = {'GregorianYear': 'gYear', 'GregorianYear10': 'gYear', 'GregorianYearMonth': 'gYearMonth',
            'GregorianYearMonth10': 'gYearMonth'}
_g_re = re.compile(r'^(?P<y>-?\d{4,})(?:-(?P<mo>\d\d))?(?P<tz>Z|[+-]\d\d:\d\d)?$')
DUR_OF = {'DayTimeDuration': 'dtd', 'YearMonthDuration': 'ymd'}


def project(r):
    """real value -> ('val', kind, fields..., text) | ('dur', kind, months, seconds) | ('bool', b) | ('num', x) | ..."""
    from elementpath.datatypes import AbstractDateTime, Duration
    if isinstance(r, list):
        if len(r) == 1:
            r = r[0]
        else:
            return ('seq', tuple(project(x) for x in r))
    if isinstance(r, bool):
        return ('bool', r)
    if isinstance(r, (int, Decimal)):
        return ('num', Decimal(r))
    if isinstance(r, AbstractDateTime):
        name = type(r).__name__
        text = str(r)
        if name in GKIND_OF:
            m = _g_re.match(text)
            if not m:
                return ('other', name, text)
            tz = m.group('tz')
            tzv = NOTZ if tz is None else 0 if tz == 'Z' else \
                (int(tz[1:3]) * 60 + int(tz[4:6])) * (-1 if tz[0] == '-' else 1)
            return ('val', GKIND_OF[name], int(m.group('y')), int(m.group('mo') or 0), 0, 0, 0, 0, 0, tzv, text)
        m = _val_re.match(text)
        if not m or name not in KIND_OF:
            return ('other', name, text)
        g = m.groupdict()
        tz = g['tz']
        if tz is None:
            tzv = NOTZ
        elif tz == 'Z':
            tzv = 0
        else:
            tzv = (int(tz[1:3]) * 60 + int(tz[4:6])) * (-1 if tz[0] == '-' else 1)
        us = int((g['f'] or '0').ljust(6, '0')[:6])
        return ('val', KIND_OF[name], int(g['y'] or 0), int(g['mo'] or 0), int(g['d'] or 0), int(g['h'] or 0),
                int(g['mi'] or 0), int(g['s'] or 0), us, tzv, text)
    if isinstance(r, Duration):
        name = type(r).__name__
        return ('dur', DUR_OF.get(name, name), r.months, Decimal(r.seconds))
    return ('other', type(r).__name__, str(r)[:60])


FIELDS = ('y', 'mo', 'd', 'h', 'mi', 's', 'us', 'tz')


def exp_val(v):
    return ('val', v['k']) + tuple(v[f] for f in FIELDS) + (render_val(v),)


def exp_dur(v):
    secs = Decimal(v['d'] * 86400 + v['s']) + Decimal(v['us']) / Decimal(1000000)
    sign = -1 if v['neg'] else 1
    return ('dur', v['k'], sign * v['m'], sign * secs)


def outcome_of(call):
    """run a thunk; classify: value | ('err', code) | ('escaped', class)"""
    from elementpath.exceptions import ElementPathError
    try:
        return project(call())
    except ElementPathError as e:
        return ('err', (e.code or '').split(':')[-1])
    except RecursionError:
        return ('escaped', 'RecursionError', '')
    except Exception as e:  # noqa
        return ('escaped', type(e).__name__, str(e)[:80])


def py_outcome(call, ctor=False):
    """Python datatypes API: ValueError is the documented rejection of a literal (ctor=True only)"""
    try:
        return project(call())
    except ValueError as e:
        return ('err', 'ValueError') if ctor else ('escaped', type(e).__name__, str(e)[:80])
    except Exception as e:  # noqa
        return ('escaped', type(e).__name__, str(e)[:80])


def judge(exp, obs):
    """None if obs conforms to the expected abstract value, else (outcome, diff)"""
    if exp[0] == 'err':
        if obs[0] == 'err':
            return None
        return ('escaped:' + obs[1], '') if obs[0] == 'escaped' else ('no_error', '')
    if obs[0] == 'err':
        return ('error:' + obs[1], '')
    if obs[0] == 'escaped':
        return ('escaped:' + obs[1], '')
    if exp[0] == 'val':
        if obs[0] != 'val':
            return ('type:' + obs[0], '')
        if obs[1] != exp[1]:
            return ('kind:' + obs[1], '')
        diff = [f for f, a, b in zip(FIELDS, exp[2:10], obs[2:10]) if a != b]
        if diff:
            return ('value', ','.join(diff))
        if exp[10] != obs[10]:
            return ('lexical', '')
        return None
    if exp[0] == 'dur':
        if obs[0] != 'dur':
            return ('type:' + obs[0], '')
        if obs[1] != exp[1]:
            return ('kind:' + str(obs[1]), '')
        if obs[2] != exp[2] or obs[3] != exp[3]:
            return ('value', 'months' if obs[2] != exp[2] else 'seconds')
        return None
    if exp[0] == 'cmp':
        want = ('seq', (('bool', exp[1] < 0), ('bool', exp[1] == 0), ('bool', exp[1] > 0)))
        if obs == want:
            return None
        if obs[0] != 'seq':
            return ('type:' + obs[0], '')
        got = ''.join('T' if x == ('bool', True) else 'F' for x in obs[1])
        return ('value', 'lt,eq,gt=' + got)
    if exp[0] == 'num':
        if obs[0] == 'num' and obs[1] == exp[1]:
            return None
        return ('value', '') if obs[0] == 'num' else ('type:' + obs[0], '')
    if exp[0] == 'empty':
        return None if obs == ('seq', ()) else ('value', '')
    raise tla.MachineryError(f'cannot judge {exp!r}')


# ---------------------------------------------------------------------------------------
# the two bindings

_cls = None


def classes():
    global _cls
    if _cls is None:
        from elementpath import datatypes as dt
        _cls = {('gYear', '10'): dt.GregorianYear10, ('gYear', '11'): dt.GregorianYear,
                ('gYearMonth', '10'): dt.GregorianYearMonth10, ('gYearMonth', '11'): dt.GregorianYearMonth,
                ('dateTime', '10'): dt.DateTime10, ('dateTime', '11'): dt.DateTime, ('date', '10'): dt.Date10,
                ('date', '11'): dt.Date, ('time', '10'): dt.Time, ('time', '11'): dt.Time,
                'dtd': dt.DayTimeDuration, 'ymd': dt.YearMonthDuration}
    return _cls


def xp_eval(expr: str, cfg, timezone=None):
    import elementpath
    from elementpath import XPath2Parser
    kw = {}
    timezone = timezone or cfg['timezone']
    if timezone is not None:
        kw['timezone'] = timezone
    return outcome_of(lambda: elementpath.select(None, expr, parser=XPath2Parser, item=1,
                                                 xsd_version='1.0' if cfg['xsd'] == '10' else '1.1', **kw))


COMP_FN = {'dateTime': [('year', 'year-from-dateTime'), ('month', 'month-from-dateTime'), ('day', 'day-from-dateTime'),
                        ('hours', 'hours-from-dateTime'), ('minutes', 'minutes-from-dateTime'),
                        ('seconds', 'seconds-from-dateTime'), ('tz', 'timezone-from-dateTime')],
           'date': [('year', 'year-from-date'), ('month', 'month-from-date'), ('day', 'day-from-date'),
                    ('tz', 'timezone-from-date')],
           'time': [('hours', 'hours-from-time'), ('minutes', 'minutes-from-time'), ('seconds', 'seconds-from-time'),
                    ('tz', 'timezone-from-time')]}
DCOMP_FN = [('years', 'years-from-duration'), ('months', 'months-from-duration'), ('days', 'days-from-duration'),
            ('hours', 'hours-from-duration'), ('minutes', 'minutes-from-duration'), ('seconds', 'seconds-from-duration')]
PY_ATTR = {'month': 'month', 'day': 'day', 'hours': 'hour', 'minutes': 'minute'}


def comp_expected(dst, name):
    """expected abstract result of one component function"""
    if name == 'tz':
        if dst['tz'] == NOTZ:
            return ('empty',)
        return exp_dur(dict(k='dtd', neg=dst['tz'] < 0, m=0, d=0, s=abs(dst['tz']) * 60, us=0))
    if name == 'seconds':
        return ('num', Decimal(dst['seconds']) + Decimal(dst['micros']) / Decimal(1000000))
    return ('num', Decimal(dst[name]))


def dcomp_expected(dst, name):
    sign = -1 if dst['neg'] else 1
    if name == 'seconds':
        return ('num', sign * (Decimal(dst['seconds']) + Decimal(dst['micros']) / Decimal(1000000)))
    return ('num', Decimal(sign * dst[name]))


def src_text_xp(src):
    if src['st'] in ('val', 'raw'):
        return xp_lit(src['k'], render_val(src))
    if src['st'] == 'dur':
        return xp_lit(src['k'], render_dur(src))
    return xp_lit(src['k'], render_rawdur(src))


def xp_cases(stext, action, args, src, dst, cfg):
    """-> list of (spelling, expression, expected) for one edge; stext is the source operand text"""
    others, durothers = cfg['others'], cfg['durothers']
    if action == 'Construct':
        return [('plain', stext, expect(dst))]
    if action in ('AddDTD', 'AddYMD'):
        d = xp_lit(args[0]['k'], render_dur(args[0]))
        return [('plain', f'{stext} + {d}', expect(dst)), ('commuted', f'{d} + {stext}', expect(dst))]
    if action in ('SubDTD', 'SubYMD'):
        d = xp_lit(args[0]['k'], render_dur(args[0]))
        return [('plain', f'{stext} - {d}', expect(dst))]
    if action == 'Diff':
        o = xp_lit(src['k'], render_val(others[src['k']][args[0] - 1]))
        return [('plain', f'{stext} - {o}', expect(dst))]
    if action == 'Compare':
        o = xp_lit(src['k'], render_val(others[src['k']][args[0] - 1]))
        return [('plain', f'({stext} lt {o}, {stext} eq {o}, {stext} gt {o})', expect(dst)),
                ('negated', f'({stext} ge {o}, {stext} ne {o}, {stext} le {o})', ('cmpneg', dst['r']))]
    if action == 'AdjustTZ':
        k = src['k']
        return [('plain', f'adjust-{k}-to-timezone({stext}, {xp_tz(args[0])})', expect(dst))]
    if action == 'AdjustImpl':
        k = src['k']
        imp = cfg['implicit']
        return [('plain', f'adjust-{k}-to-timezone({stext})', expect(dst)),
                # fn:implicit-timezone() is the configured implicit timezone itself (a constant of the model)
                ('implicit-timezone', 'implicit-timezone()',
                 exp_dur(dict(k='dtd', neg=imp < 0, m=0, d=0, s=abs(imp) * 60, us=0)))]
    if action == 'Components':
        return [(name, f'{fn}({stext})', comp_expected(dst, name)) for name, fn in COMP_FN[src['k']]]
    if action == 'AddTo':
        o = xp_lit(args[0], render_val(others[args[0]][args[1] - 1]))
        return [('plain', f'{o} + {stext}', expect(dst)), ('commuted', f'{stext} + {o}', expect(dst))]
    if action == 'MulBy':
        return [('plain', f'{stext} * {args[0]}', expect(dst)), ('commuted', f'{args[0]} * {stext}', expect(dst))]
    if action in ('DurPlus', 'DurMinus'):
        o = xp_lit(src['k'], render_dur(durothers[src['k']][args[0] - 1]))
        return [('plain', f'{stext} {"+" if action == "DurPlus" else "-"} {o}', expect(dst))]
    if action == 'DurCompare':
        o = xp_lit(src['k'], render_dur(durothers[src['k']][args[0] - 1]))
        return [('plain', f'({stext} lt {o}, {stext} eq {o}, {stext} gt {o})', expect(dst))]
    if action == 'DurComponents':
        return [(name, f'{fn}({stext})', dcomp_expected(dst, name)) for name, fn in DCOMP_FN]
    raise tla.MachineryError(f'unknown action {action}')


def expect(dst):
    st = dst['st']
    if st in ('val', 'gval'):
        return exp_val(dst)
    if st == 'dur':
        return exp_dur(dst)
    if st == 'cmp':
        return ('cmp', dst['r'])
    if st == 'err':
        return ('err',)
    raise tla.MachineryError(f'no expectation for {dst!r}')


def py_construct(src, cfg):
    c = classes()
    if src['st'] in ('val', 'raw'):
        return c[(src['k'], cfg['xsd'])].fromstring(render_val(src))
    if src['st'] == 'dur':
        return c[src['k']].fromstring(render_dur(src))
    return c[src['k']].fromstring(render_rawdur(src))


def py_cases(obj, action, args, src, dst, cfg):
    """-> list of (spelling, thunk, expected); obj is the real source object"""
    c = classes()
    others, durothers = cfg['others'], cfg['durothers']
    if action in ('AddDTD', 'AddYMD'):
        d = c[args[0]['k']].fromstring(render_dur(args[0]))
        return [('plain', lambda: obj + d, expect(dst))]
    if action in ('SubDTD', 'SubYMD'):
        d = c[args[0]['k']].fromstring(render_dur(args[0]))
        return [('plain', lambda: obj - d, expect(dst))]
    if action == 'Diff':
        o = py_construct(others[src['k']][args[0] - 1], cfg)
        return [('plain', lambda: obj - o, expect(dst))]
    if action == 'Compare':
        o = py_construct(others[src['k']][args[0] - 1], cfg)
        return [('plain', lambda: [obj < o, obj == o, obj > o], expect(dst)),
                ('negated', lambda: [obj >= o, obj != o, obj <= o], ('cmpneg', dst['r']))]
    if action == 'Components':
        out = []
        for name, _ in COMP_FN[src['k']]:
            if name in PY_ATTR:
                out.append((name, (lambda a=PY_ATTR[name]: getattr(obj, a)), comp_expected(dst, name)))
            elif name == 'seconds':
                out.append((name, lambda: obj.second + Decimal(obj.microsecond) / Decimal(1000000), comp_expected(dst, name)))
        return out
    if action == 'AddTo':
        o = py_construct(others[args[0]][args[1] - 1], cfg)
        return [('plain', lambda: o + obj, expect(dst))]
    if action == 'MulBy':
        return [('plain', lambda: obj * args[0], expect(dst))]
    if action == 'DurPlus':
        o = c[src['k']].fromstring(render_dur(durothers[src['k']][args[0] - 1]))
        return [('plain', lambda: obj + o, expect(dst))]
    if action == 'DurMinus':
        o = c[src['k']].fromstring(render_dur(durothers[src['k']][args[0] - 1]))
        return [('plain', lambda: obj - o, expect(dst))]
    if action == 'DurCompare':
        o = c[src['k']].fromstring(render_dur(durothers[src['k']][args[0] - 1]))
        return [('plain', lambda: [obj < o, obj == o, obj > o], expect(dst))]
    return []      # AdjustTZ / AdjustImpl / DurComponents: XPath functions only


def judge_any(exp, obs):
    if exp[0] == 'cmpneg':
        r = exp[1]
        want = ('seq', (('bool', r >= 0), ('bool', r != 0), ('bool', r <= 0)))
        if obs == want:
            return None
        if obs[0] in ('err', 'escaped'):
            return judge(('cmp', r), obs)
        if obs[0] != 'seq':
            return ('type:' + obs[0], '')
        return ('value', 'ge,ne,le=' + ''.join('T' if x == ('bool', True) else 'F' for x in obs[1]))
    return judge(exp, obs)


# ---------------------------------------------------------------------------------------
# fingerprint features (for classifying failures only -- never for verdicts)

def astro(cfg, ly):
    return ly if cfg['xsd'] == '11' else (ly + 1 if ly < 0 else ly)


def has_date(v):
    return v is not None and v.get('st') in ('val', 'raw', 'gval') and v['k'] != 'time'


def era(cfg, v):
    """bbce: astronomical year <= -9999 (5 digits in XSD 1.1); bce: year <= 0; ce: 1..9999; big: > 9999"""
    if not has_date(v):
        return '-'
    a = astro(cfg, v['y'])
    return 'bbce' if a <= -9999 else 'bce' if a <= 0 else 'ce' if a <= 9999 else 'big'


def leap(cfg, v):
    """leap | before_leap (the next year is leap) | after_leap (the previous year is leap) | common"""
    if not has_date(v):
        return '-'
    a = astro(cfg, v['y'])
    return 'leap' if isleap(a) else 'before_leap' if isleap(a + 1) else 'after_leap' if isleap(a - 1) else 'common'


MD = {(1, 1): 'jan1', (1, 31): 'jan31', (2, 28): 'feb28', (2, 29): 'feb29', (3, 1): 'mar1', (12, 31): 'dec31'}


def md(v):
    return MD.get((v['mo'], v['d']), 'other') if has_date(v) else '-'


def tz_class(v):
    if v is None or 'tz' not in v:
        return '-'
    tz = v['tz']
    return 'none' if tz == NOTZ else 'z' if tz == 0 else 'east' if tz > 0 else 'west'


def dur_class(r):
    if r is None:
        return '-'
    if r['k'] == 'ymd':
        return ('-' if r['neg'] else '+' if r['m'] else '0') + 'months'
    if not (r['d'] or r['s'] or r['us']):
        return '0'
    unit = 'days' if (r['d'] and not r['s'] and not r['us']) else 'micros' if r['us'] else 'seconds'
    return ('-' if r['neg'] else '+') + unit


def features(cfg, binding, spelling, action, args, src, dst, out, diff, style='lit'):
    isv = src['st'] in ('val', 'raw')
    timed = isv and src['k'] in ('dateTime', 'time')
    f = dict(op=action, binding=binding, spelling=spelling, style=style, xsd=cfg['xsd'], kind=src.get('k'),
             implicit_tz='utc' if cfg['implicit'] == 0 else 'other', outcome=out, diff=diff,
             era_src=era(cfg, src), leap_src=leap(cfg, src), md_src=md(src), tz_src=tz_class(src) if isv else '-',
             time_src=('-' if not timed else 'h24' if src['h'] == 24 else
                       'zero' if (src['h'], src['mi'], src['s'], src['us']) == (0, 0, 0, 0) else 'nonzero'),
             frac_src=('-' if not timed else 'none' if not src['us'] else 'lead0' if src['us'] < 100000 else 'full'),
             era_dst=era(cfg, dst) if dst['st'] in ('val', 'gval') else dst['st'],
             leap_dst=leap(cfg, dst), md_dst=md(dst),
             time_dst=('-' if dst['st'] != 'val' or dst['k'] == 'date' else
                       'zero' if (dst['h'], dst['mi'], dst['s'], dst['us']) == (0, 0, 0, 0) else 'nonzero'),
             res='-', arg='-', era_other='-', tz_other='-', shift='-', year_rel='-', exp_cmp='-')
    f['eras'] = f['era_src'].replace('bbce', 'bce') + '>' + f['era_dst'].replace('bbce', 'bce')
    if dst['st'] == 'dur' and dst['k'] == 'dtd':
        f['res'] = ('zero' if not (dst['d'] or dst['s'] or dst['us']) else 'neg' if dst['neg'] else 'pos') + \
                   ('_frac' if dst['us'] else '')
    if action in ('AddDTD', 'SubDTD', 'AddYMD', 'SubYMD'):
        f['arg'] = dur_class(args[0])
    elif action in ('Diff', 'Compare'):
        o = cfg['others'][src['k']][args[0] - 1]
        f['era_other'], f['tz_other'] = era(cfg, o), tz_class(o)
        if has_date(src):
            f['year_rel'] = 'lt' if src['y'] < o['y'] else 'eq' if src['y'] == o['y'] else 'gt'
        if action == 'Compare':
            f['exp_cmp'] = str(dst['r'])
    elif action == 'AddTo':
        o = cfg['others'][args[0]][args[1] - 1]
        f['era_other'], f['tz_other'], f['arg'], f['kind'] = era(cfg, o), tz_class(o), dur_class(src), args[0]
        f['eras'] = f['era_other'].replace('bbce', 'bce') + '>' + f['era_dst'].replace('bbce', 'bce')
    elif action in ('AdjustTZ', 'AdjustImpl'):
        new = args[0] if action == 'AdjustTZ' else cfg['implicit']
        f['arg'] = 'none' if new == NOTZ else 'tz'
        if new != NOTZ and src['tz'] != NOTZ:
            sh = new - src['tz']
            f['shift'] = 'ge24h' if sh >= 1440 else 'east' if sh > 0 else 'same' if sh == 0 else 'le-24h' if sh <= -1440 else 'west'
    elif action == 'MulBy':
        f['arg'] = str(args[0])
    elif action == 'Construct' and src['st'] == 'raw':
        f['arg'] = 'year0' if src['y'] == 0 and src['k'] != 'time' else '-'
    return f


# ---------------------------------------------------------------------------------------
# second oracle for the SPEC: python datetime on years 1..9999

def to_py(v, cfg):
    if v['st'] != 'val' or v['k'] == 'time' or not (2 <= v['y'] <= 9998):
        return None
    tz = cfg['implicit'] if v['tz'] == NOTZ else v['tz']
    return pydt.datetime(v['y'], v['mo'], v['d'], v['h'], v['mi'], v['s'], v['us'],
                         tzinfo=pydt.timezone(pydt.timedelta(minutes=tz)))


def td_of(r):
    t = pydt.timedelta(days=r['d'], seconds=r['s'], microseconds=r['us'])
    return -t if r['neg'] else t


def fields_of(p, kind):
    if kind == 'date':
        return (p.year, p.month, p.day, 0, 0, 0, 0)
    return (p.year, p.month, p.day, p.hour, p.minute, p.second, p.microsecond)


def second_oracle(action, args, src, dst, cfg):
    """-> message if python datetime disagrees with the SPEC on this edge, else None"""
    if src['st'] != 'val':
        return None
    a = to_py(src, cfg)
    if a is None:
        return None
    want = None
    if action in ('AddDTD', 'SubDTD'):
        t = td_of(args[0])
        p = a + t if action == 'AddDTD' else a - t
        if not (2 <= p.year <= 9998):
            return None
        want = fields_of(p, src['k']) + (src['tz'],)
        got = tuple(dst[f] for f in FIELDS)
    elif action in ('Diff', 'Compare'):
        b = to_py(cfg['others'][src['k']][args[0] - 1], cfg)
        if b is None:
            return None
        if action == 'Compare':
            want, got = (a > b) - (a < b), dst['r']
        else:
            want, got = a - b, td_of(dst)
    elif action == 'AdjustTZ' and src['k'] == 'dateTime' and src['tz'] != NOTZ and args[0] != NOTZ:
        p = a.astimezone(pydt.timezone(pydt.timedelta(minutes=args[0])))
        if not (2 <= p.year <= 9998):
            return None
        want = fields_of(p, 'dateTime') + (args[0],)
        got = tuple(dst[f] for f in FIELDS)
    else:
        return None
    cfg['oracle_n'] = cfg.get('oracle_n', 0) + 1
    return None if want == got else f'{action}{args} on {render_val(src)}: spec {got} python {want}'


# ---------------------------------------------------------------------------------------
# replay of one chunk of edges (runs in a forked worker; EDGES/CFGS are inherited globals)

KNOWN: list = []      # the known-finding patterns of this property (matched in the workers: a thorough run
                      # meets ~10^6 known failures, only unmatched ones travel back to the parent)
EDGES: dict = {}      # model name -> list of (src, action, args, dst, pred) ; pred = (psrc, paction, pargs) | None
CFGS: dict = {}


def replay_edge(cfg, src, action, args, dst, pred, fails, stats):
    """returns the number of evaluations"""
    n = 0
    # --- Python API (it has no dynamic context: only the models whose implicit timezone is UTC) ------
    if cfg['implicit'] != 0:
        pass
    elif action == 'Construct':
        obs = py_outcome(lambda: py_construct(src, cfg), ctor=True)
        n += 1
        bad = judge(expect(dst), obs)
        if bad:
            fails.append((features(cfg, 'py', 'plain', action, args, src, dst, bad[0], bad[1]),
                          dict(model=cfg['name'], binding='py', src=src, action=action, args=args, spelling='plain',
                               xsd=cfg['xsd'], other=None),
                          expect(dst), obs, f'python: {src["k"]}.fromstring({render_src(src)!r})'))
        py_ok = bad is None
    else:
        try:
            obj = py_construct(src, cfg)
            py_ok = judge(expect(src), project(obj)) is None
        except Exception:  # noqa
            py_ok = False
        if not py_ok:
            stats['unreached_py'] = stats.get('unreached_py', 0) + 1
        else:
            for spelling, thunk, exp in py_cases(obj, action, args, src, dst, cfg):
                obs = py_outcome(thunk)
                n += 1
                bad = judge_any(exp, obs)
                if bad:
                    fails.append((features(cfg, 'py', spelling, action, args, src, dst, bad[0], bad[1]),
                                  dict(model=cfg['name'], binding='py', src=src, action=action, args=args, spelling=spelling,
                                       xsd=cfg['xsd'], other=operand_of(action, args, src, cfg)),
                                  exp, obs, f'python: {render_src(src)} {action}{render_args(args)}'))
    # --- XPath ----------------------------------------------------------------------------
    texts = []
    lit = src_text_xp(src)
    if action == 'Construct':
        texts.append(('lit', lit))
    else:
        ok = cfg['lit_ok'].get(lit)
        if ok is None:
            ok = cfg['lit_ok'][lit] = judge(expect(src), xp_eval(lit, cfg)) is None
            n += 1
        if ok:
            texts.append(('lit', lit))
        else:
            stats['unreached_xp'] = stats.get('unreached_xp', 0) + 1
        if pred is not None:
            # the NESTED spelling: the expression that produced the source (prefix hygiene: only if it
            # really evaluates to the source value)
            psrc, paction, pargs = pred
            pc = xp_cases(src_text_xp(psrc), paction, pargs, psrc, src, cfg)
            if pc and paction not in ('Components', 'Compare'):
                nested = '(' + pc[0][1] + ')'
                ok = cfg['lit_ok'].get(nested)
                if ok is None:
                    ok = cfg['lit_ok'][nested] = judge(expect(src), xp_eval(nested, cfg)) is None
                    n += 1
                if ok:
                    texts.append(('nested', nested))
    # the one-argument adjust functions read the implicit timezone from the dynamic context
    tz = lex_tz(cfg['implicit']) if action == 'AdjustImpl' else cfg['timezone']
    for style, stext in texts:
        for spelling, expr, exp in xp_cases(stext, action, args, src, dst, cfg):
            obs = xp_eval(expr, cfg, tz)
            n += 1
            bad = judge_any(exp, obs)
            if bad:
                fails.append((features(cfg, 'xp', spelling, action, args, src, dst, bad[0], bad[1], style),
                              dict(model=cfg['name'], binding='xp', expr=expr, xsd=cfg['xsd'], timezone=tz, spelling=spelling),
                              exp, obs, expr))
    return n


def operand_of(action, args, src, cfg):
    if action in ('Diff', 'Compare'):
        return cfg['others'][src['k']][args[0] - 1]
    if action == 'AddTo':
        return cfg['others'][args[0]][args[1] - 1]
    if action in ('DurPlus', 'DurMinus', 'DurCompare'):
        return cfg['durothers'][src['k']][args[0] - 1]
    return None


def render_src(src):
    if src['st'] in ('val', 'raw'):
        return render_val(src)
    return render_dur(src) if src['st'] == 'dur' else render_rawdur(src)


def render_args(args):
    return '(' + ', '.join(render_dur(a) if isinstance(a, dict) and 'neg' in a else str(a) for a in args) + ')'


# ---------------------------------------------------------------------------------------
# DateObject: ONE value object driven along every path of the history graph

OBJS: dict = {}       # model name -> dict(cfg, states, out, tree, incoming, groups)


class Unsupported(Exception):
    pass


def load_obj(name, consts, dot, output):
    g = tla.load_dot(dot)
    os.remove(dot)
    others = {k: list(v) for k, v in printed_table(output, 'others', name).items()}
    imp = consts['ImplicitTZcfg']
    imp = 10000 - imp if imp >= 10000 else imp
    cfg = dict(name=name, xsd=consts['Xsd'], implicit=imp, timezone=None if imp == 0 else lex_tz(imp),
               others=others, durothers={})
    out = g.out()
    incoming = {s: [] for s in g.states}
    for s0, d, a, args in g.edges:
        incoming[d].append((s0, a, args))
    tree, root = {}, {}
    q = deque()
    for i in sorted(g.init, key=lambda x: render_val(g.states[x]['obj'])):
        tree[i], root[i] = [], i
        q.append(i)
    while q:
        s0 = q.popleft()
        for d, a, args in out[s0]:
            if d not in tree:
                tree[d], root[d] = tree[s0] + [(a, args, d)], root[s0]
                q.append(d)
    groups = {}
    for s0 in g.states:
        groups.setdefault(root[s0], []).append(s0)
    return dict(cfg=cfg, states=g.states, out=out, tree=tree, incoming=incoming, groups=groups, root=root,
                n_edges=len(g.edges), n_states=len(g.states))


def tz_object(tz):
    from elementpath.datatypes import Timezone
    return None if tz == NOTZ else Timezone(pydt.timedelta(minutes=tz))


def obj_other(cfg, kind, i):
    return cfg['others'][kind][i - 1]


HOUR = dict(k='dtd', neg=False, m=0, d=0, s=3600, us=0)


def obj_expr(action, args, cur, cfg):
    """XPath text of one use of the bound variable $d (cur = abstract value bound to $d)"""
    k = cur['k']
    adj = lambda tz: f'adjust-{k}-to-timezone($d, {xp_tz(tz)})'          # noqa: E731
    oth = lambda i: xp_lit(k, render_val(obj_other(cfg, k, i)))          # noqa: E731
    dur = lambda r: xp_lit(r['k'], render_dur(r))                        # noqa: E731
    cmp3 = lambda a, o: f'({a} lt {o}, {a} eq {o}, {a} gt {o})'          # noqa: E731
    if action in ('Add', 'AddYM'):
        return f'$d + {dur(args[0])}'
    if action == 'Sub':
        return f'$d - {dur(args[0])}'
    if action == 'Diff':
        return f'$d - {oth(args[0])}'
    if action == 'Cmp':
        return cmp3('$d', oth(args[0]))
    if action == 'Adjust':
        return adj(args[0])
    if action == 'AdjustAdd':
        return f'{adj(args[0])} + {dur(args[1])}'
    if action == 'AdjustDiff':
        return f'{adj(args[0])} - {oth(args[1])}'
    if action == 'AdjustCmp':
        return cmp3(adj(args[0]), oth(args[1]))
    if action == 'AdjustImplAdd':
        return f'adjust-{k}-to-timezone($d) + {dur(args[0])}'
    raise Unsupported(action)


def obj_py(action, args, obj, cur, cfg):
    """one use of the real Python object through the datatypes API"""
    from copy import copy
    c = classes()
    k = cur['k']

    def relabelled(tz):
        # fn:adjust-*-to-timezone that only sets or strips the timezone = a copy with another tzinfo
        if cur['tz'] != NOTZ and tz != NOTZ:
            raise Unsupported('adjust between two timezones is an XPath function')
        v = copy(obj)
        v.tzinfo = tz_object(tz)
        return v
    other = lambda i: py_construct(obj_other(cfg, k, i), cfg)            # noqa: E731
    dur = lambda r: c[r['k']].fromstring(render_dur(r))                  # noqa: E731
    if action in ('Add', 'AddYM'):
        return obj + dur(args[0])
    if action == 'Sub':
        return obj - dur(args[0])
    if action == 'Diff':
        return obj - other(args[0])
    if action == 'Cmp':
        o = other(args[0])
        return [obj < o, obj == o, obj > o]
    if action == 'Adjust':
        return relabelled(args[0])
    if action == 'AdjustAdd':
        return relabelled(args[0]) + dur(args[1])
    if action == 'AdjustDiff':
        return relabelled(args[0]) - other(args[1])
    if action == 'AdjustCmp':
        v, o = relabelled(args[0]), other(args[1])
        return [v < o, v == o, v > o]
    raise Unsupported(action)


def obj_features(cfg, binding, style, path, cur, exp_state, out, diff):
    action, args, _ = path[-1]
    prev = path[-2][0] if len(path) > 1 else '-'
    f = dict(op={'Cmp': 'Compare', 'AdjustCmp': 'Compare'}.get(action, action), use=action, prev=prev, uses=len(path),
             binding=binding, style=style, spelling='object', xsd=cfg['xsd'], kind=cur['k'],
             implicit_tz='utc' if cfg['implicit'] == 0 else 'other', outcome=out, diff=diff,
             era_src=era(cfg, cur), tz_src=tz_class(cur), tz_other='-', arg='-')
    if action in ('Adjust', 'AdjustAdd', 'AdjustDiff', 'AdjustCmp', 'SetTZ'):
        f['arg'] = 'none' if args[0] == NOTZ else 'tz'
    if action == 'AdjustCmp':
        f['tz_src'] = tz_class(dict(tz=args[0]))
        f['tz_other'] = tz_class(obj_other(cfg, cur['k'], args[1]))
    elif action == 'Cmp':
        f['tz_other'] = tz_class(obj_other(cfg, cur['k'], args[0]))
    return f


def obj_unchanged(obj, cur, cfg):
    """the operand object still IS the bound value: same lexical form, equal to and hashing like a fresh one"""
    fresh = py_construct(cur, cfg)
    got = project(obj)
    if judge(exp_val(cur), got) is not None:
        return ('mutated', str(got[-1]))
    if not (obj == fresh) or hash(obj) != hash(fresh):
        return ('mutated', 'eq/hash')
    return None


def replay_path(M, path, init_sid, binding, fails, stats):
    """drive one real object along the path; judge the last step (earlier steps only for prefix hygiene).
    Returns the number of evaluations."""
    import elementpath
    from elementpath import XPath2Parser
    cfg, states = M['cfg'], M['states']
    cur = states[init_sid]['obj']
    n = 0
    last = len(path) - 1
    if binding == 'for':
        # one expression: for $d in <literal> return (use1, use2, ...)
        if any(a == 'SetTZ' for a, _, _ in path):
            return 0
        try:
            items = [obj_expr(a, args, cur, cfg) for a, args, _ in path]
        except Unsupported:
            return 0
        expr = f'for $d in {xp_lit(cur["k"], render_val(cur))} return (' + ', '.join(items) + ')'
        tz = lex_tz(cfg['implicit']) if any(a == 'AdjustImplAdd' for a, _, _ in path) else cfg['timezone']
        obs = xp_eval(expr, cfg, tz)
        n += 1
        widths = [3 if a in ('Cmp', 'AdjustCmp') else 1 for a, _, _ in path]
        if obs[0] not in ('seq', 'err', 'escaped'):
            obs = ('seq', (obs,))          # a sequence of one item comes back as the item
        stats['for_expressions'] = stats.get('for_expressions', 0) + 1
        if obs[0] == 'seq' and len(obs[1]) == sum(widths):
            pos = 0
            for i, w in enumerate(widths):
                part = obs[1][pos:pos + w]
                pos += w
                o = ('seq', part) if w == 3 else part[0]
                exp = expect(states[path[i][2]]['res'])
                bad = judge_any(exp, o)
                if bad and i < last:
                    stats['unreached_for'] = stats.get('unreached_for', 0) + 1
                    return n
                if bad:
                    fails.append((obj_features(cfg, 'xp', 'for', path, cur, None, bad[0], bad[1]),
                                  dict(model=cfg['name'], binding='xp', expr=expr, xsd=cfg['xsd'], timezone=tz, spelling='object',
                                       item=i), exp, o, expr))
        else:
            exp = expect(states[path[last][2]]['res'])
            bad = judge_any(exp, obs) if obs[0] in ('err', 'escaped') else ('shape', '')
            fails.append((obj_features(cfg, 'xp', 'for', path, cur, None, bad[0], bad[1]),
                          dict(model=cfg['name'], binding='xp', expr=expr, xsd=cfg['xsd'], timezone=tz, spelling='object', item=last),
                          exp, obs, expr))
        return n
    # 'py' (datatypes API) and 'var' (the caller's object passed as $d to successive select() calls)
    try:
        obj = py_construct(cur, cfg)
    except Exception:  # noqa
        stats['unreached_obj'] = stats.get('unreached_obj', 0) + 1
        return n
    trail = []
    for i, (action, args, dsid) in enumerate(path):
        dst = states[dsid]
        if action == 'SetTZ':
            obj.tzinfo = tz_object(args[0])          # the caller changes ITS object
            cur = dst['obj']
            obs, exp, what = project(obj), exp_val(cur), f'd.tzinfo = {lex_tz(args[0]) or None}'
        else:
            exp = expect(dst['res'])
            try:
                if binding == 'py':
                    obs = py_outcome(lambda: obj_py(action, args, obj, cur, cfg))
                    what = f'{action}{render_args(args)}'
                    if obs[0] == 'escaped' and obs[1] == 'Unsupported':
                        return n
                else:
                    what = obj_expr(action, args, cur, cfg)
                    tz = lex_tz(cfg['implicit']) if action == 'AdjustImplAdd' else cfg['timezone']
                    kw = {'timezone': tz} if tz is not None else {}
                    obs = outcome_of(lambda: elementpath.select(
                        None, what, parser=XPath2Parser, item=1, variables={'d': obj},
                        xsd_version='1.0' if cfg['xsd'] == '10' else '1.1', **kw))
            except Unsupported:
                return n
            n += 1
        trail.append(what)
        bad = judge_any(exp, obs)
        if bad is None:
            # values are immutable: the operand is still the bound value
            m = obj_unchanged(obj, cur, cfg)
            if m is not None:
                bad, exp, obs = m, exp_val(cur), project(obj)
                what = what + '  [operand afterwards]'
        if bad:
            if i < last:
                stats['unreached_' + binding] = stats.get('unreached_' + binding, 0) + 1
                return n
            fails.append((obj_features(cfg, binding if binding == 'py' else 'xp', 'object' if binding == 'py' else 'var',
                                       path, cur, None, bad[0], bad[1]),
                          dict(model=cfg['name'], binding='obj-' + binding, xsd=cfg['xsd'], timezone=cfg['timezone'],
                               literal=render_val(states[init_sid]['obj']), kind=states[init_sid]['obj']['k'], trail=trail,
                               spelling='object'),
                          exp, obs, f'$d := {render_val(states[init_sid]["obj"])}: ' + ' ; '.join(trail)))
            return n
    return n


def obj_worker(job):
    _, name, root_sid = job
    core.setup_repo_path()
    M = OBJS[name]
    cfg, tree, incoming, out = M['cfg'], M['tree'], M['incoming'], M['out']
    fails, stats = [], {}
    n_eval = n_paths = 0
    bindings = ['var', 'for'] + (['py'] if cfg['implicit'] == 0 else [])
    for s in sorted(M['groups'][root_sid], key=lambda x: len(tree[x])):
        # every incoming edge of s is a prefix (a state can be reached from the literal of another group)
        prefixes = [(M['root'][p], tree[p] + [(a, args, s)]) for p, a, args in incoming[s]] or [(root_sid, [])]
        for d, a, args in out[s]:
            for init_sid, pre in prefixes:
                path = pre + [(a, args, d)]
                n_paths += 1
                for b in bindings:
                    n_eval += replay_path(M, path, init_sid, b, fails, stats)
    stats['object_paths'] = n_paths
    unmatched, hits = [], {}
    for f in fails:
        feat = core.jsonable(f[0])
        for idx, k in enumerate(KNOWN):
            if core.match_pattern(k['fingerprint'], feat):
                hits[idx] = hits.get(idx, 0) + 1
                break
        else:
            unmatched.append(f)
    return n_eval, unmatched, [], stats, hits



def worker(job):
    if job[0] == 'obj':
        return obj_worker(job)
    name, lo, hi = job
    core.setup_repo_path()
    cfg = CFGS[name]
    cfg['lit_ok'] = {}
    cfg['oracle_n'] = 0
    fails, oracle, stats = [], [], {}
    n_eval = 0
    for (src, action, args, dst, pred) in EDGES[name][lo:hi]:
        msg = second_oracle(action, args, src, dst, cfg)
        if msg:
            oracle.append(msg)
        n_eval += replay_edge(cfg, src, action, args, dst, pred, fails, stats)
    stats['edges_cross_checked_with_python_datetime'] = cfg['oracle_n']
    unmatched, hits = [], {}
    for f in fails:
        feat = core.jsonable(f[0])
        for idx, k in enumerate(KNOWN):
            if core.match_pattern(k['fingerprint'], feat):
                hits[idx] = hits.get(idx, 0) + 1
                break
        else:
            unmatched.append(f)
    return n_eval, unmatched, oracle, stats, hits


def replay(rec: dict) -> int:
    core.setup_repo_path()
    case = rec['case']
    exp = _tuplify(rec['expected'])
    if case['binding'].startswith('obj-'):
        # one object, several uses: re-drive the recorded trail on a fresh object
        import elementpath
        from elementpath import XPath2Parser
        cfg = dict(xsd=case['xsd'], timezone=case['timezone'])
        obj = classes()[(case['kind'], case['xsd'])].fromstring(case['literal'])
        print('$d :=', case['literal'], ' xsd', case['xsd'], ' timezone', case['timezone'])
        obs = None
        for step in case['trail']:
            if case['binding'] == 'obj-py':
                print('python step:', step, '(re-run the check to replay Python API paths)')
                continue
            if step.startswith('d.tzinfo = '):
                t = step[len('d.tzinfo = '):]
                from elementpath.datatypes import Timezone
                obj.tzinfo = None if t == 'None' else Timezone.fromstring(t)
                obs = project(obj)
            else:
                kw = {'timezone': case['timezone']} if case['timezone'] else {}
                if '-to-timezone($d)' in step and not kw:
                    kw = {'timezone': 'Z'}
                obs = outcome_of(lambda: elementpath.select(None, step, parser=XPath2Parser, item=1, variables={'d': obj},
                                                            xsd_version='1.0' if case['xsd'] == '10' else '1.1', **kw))
            print('  ', step, '->', obs, ' | $d is now', str(obj))
        if case['binding'] == 'obj-py':
            print('expected :', exp, '\nobserved :', rec['observed'])
            return 1
    elif case['binding'] == 'xp':
        cfg = dict(xsd=case['xsd'], timezone=case['timezone'])
        obs = xp_eval(case['expr'], cfg)
        print('expr     :', case['expr'], ' xsd', case['xsd'], ' timezone', case['timezone'])
    else:
        src, action, args = _freeze(case['src']), case['action'], _freeze(case['args'])
        other = _freeze(case['other'])
        cfg = dict(xsd=case['xsd'], others=_Const(other), durothers=_Const(other))
        print('python   :', render_src(src), action + render_args(args), ' other', other and render_src(other), ' xsd', case['xsd'])
        if action == 'Construct':
            obs = py_outcome(lambda: py_construct(src, cfg), ctor=True)
        else:
            obj = py_construct(src, cfg)
            thunks = {sp: th for sp, th, _ in py_cases(obj, action, args, src, _AnyDst(), cfg)}
            obs = py_outcome(thunks[case['spelling']])
    print('expected :', exp)
    print('observed :', obs)
    bad = judge_any(exp, obs)
    if bad is not None:
        print(f'VIOLATION property=C11 replay=(replayed) outcome={bad}')
        return 1
    return 0


class _Const:
    """stands for the operand tables when a single recorded operand is replayed"""
    def __init__(self, v):
        self.v = v

    def __getitem__(self, k):
        return _Const(self.v) if not isinstance(k, int) else self.v


class _AnyDst(dict):
    def __getitem__(self, k):
        return 'val' if k == 'st' else 0


def _freeze(x):
    if isinstance(x, dict):
        return tla.FrozenDict({k: _freeze(v) for k, v in x.items()})
    if isinstance(x, list):
        return tuple(_freeze(i) for i in x)
    return x


def _tuplify(x):
    if isinstance(x, list):
        return tuple(_tuplify(i) for i in x)
    if isinstance(x, str) and re.fullmatch(r"Decimal\('(.*)'\)", x):
        return Decimal(re.fullmatch(r"Decimal\('(.*)'\)", x).group(1))
    return x


# ---------------------------------------------------------------------------------------

_sweep_re = re.compile(r'civ = <<(-?\d+), (\d+), (\d+)>>\\n/\\\\ n = (-?\d+)')


def check_sweep(r, dot):
    """second oracle: python date.toordinal for every swept day of years 1..9999"""
    n = ce = 0
    with open(dot, encoding='utf-8') as f:
        for line in f:
            m = _sweep_re.search(line)
            if not m:
                continue
            y, mo, d, num = int(m.group(1)), int(m.group(2)), int(m.group(3)), int(m.group(4))
            n += 1
            if 1 <= y <= 9999:
                ce += 1
                if pydt.date(y, mo, d).toordinal() - 1 != num:
                    raise tla.MachineryError(f'spec/Calendar disagrees with python date.toordinal on {y}-{mo}-{d}: {num}')
    os.remove(dot)
    if n != r.distinct:
        raise tla.MachineryError(f'sweep dump has {n} states, TLC reported {r.distinct}')
    return n, ce


def printed_table(output: str, tag: str, name: str):
    """value printed by TLC with PrintT(<<tag, value>>) (pretty-printed over several lines)"""
    m = re.search(r'<<\s*"%s",' % tag, output)
    if not m:
        raise tla.MachineryError(f'{name}: TLC did not print the {tag} table')
    depth, k, n = 0, m.start(), len(output)
    in_str = False
    while k < n:
        c = output[k]
        if in_str:
            in_str = c != '"'
        elif c == '"':
            in_str = True
        elif output.startswith('<<', k):
            depth += 1
            k += 1
        elif output.startswith('>>', k):
            depth -= 1
            k += 1
            if depth == 0:
                break
        k += 1
    return tla.parse_value(output[m.start():k + 1])[1]


def load_chain(name, consts, dot, output):
    g = tla.load_dot(dot)
    os.remove(dot)
    tables = {}
    for tag in ('others', 'durothers'):
        tables[tag] = printed_table(output, tag, name)
    others = {k: list(v) for k, v in tables['others'].items()}
    durothers = {k: list(v) for k, v in tables['durothers'].items()}
    imp = consts['ImplicitTZcfg']
    imp = 10000 - imp if imp >= 10000 else imp       # 10000 + m stands for -m in the cfg file
    cfg = dict(name=name, xsd=consts['Xsd'], implicit=imp, timezone=None if imp == 0 else lex_tz(imp),
               others=others, durothers=durothers)
    # BFS tree: predecessor edge of every state that is the result of an operation (for the nested spelling)
    out = g.out()
    pred = {}
    seen = set(g.init)
    q = deque(g.init)
    while q:
        s = q.popleft()
        for d, a, args in out[s]:
            if d not in seen:
                seen.add(d)
                if a != 'Construct':
                    pred[d] = (g.states[s]['val'], a, args)
                q.append(d)
    edges = []
    for s, d, a, args in g.edges:
        src, dst = g.states[s]['val'], g.states[d]['val']
        edges.append((src, a, args, dst, pred.get(s)))
    return cfg, edges, len(g.states)


def model_worker(job):
    """one TLC run (+ loading of its dump) in a forked worker"""
    name, consts, scratch, conf = job
    if name == 'sweep':
        wd = os.path.join(scratch, 'sweep')
        dot = os.path.join(wd, 'g.dot')
        cfg = tla.cfg_text(dict(Sweep=conf['sweep']), invariants=['SweepLaws'])
        r = tla.require_ok(tla.run_tlc('CalendarSweep', cfg, wd, workers=conf['tlc_workers'], dump_dot=dot),
                           'CalendarSweep', min_distinct=1000)
        n, ce = check_sweep(r, dot)
        r.output = ''
        return name, (r, n, ce)
    wd = os.path.join(scratch, name)
    dot = os.path.join(wd, 'g.dot')
    if name.startswith('obj-'):
        cfg = tla.cfg_text(consts, invariants=['ObjLaws'], properties=['Immutable', 'HistoryFree'])
        r = tla.require_ok(tla.run_tlc('DateObject', cfg, wd, workers=conf['tlc_workers'], dump_dot=dot),
                           f'DateObject/{name}', min_distinct=500)
        M = load_obj(name, consts, dot, r.output)
        r.output = ''
        return name, (r, M)
    cfg = tla.cfg_text(consts, invariants=['Laws'], properties=['LawsHold'])
    r = tla.require_ok(tla.run_tlc('DateChain', cfg, wd, workers=conf['tlc_workers'], dump_dot=dot),
                       f'DateChain/{name}', min_distinct=1000)
    cfg2, edges, n_states = load_chain(name, consts, dot, r.output)
    r.output = ''
    return name, (r, cfg2, edges, n_states)


def run(chk: core.Check) -> None:
    core.setup_repo_path()
    conf = TIERS[chk.tier]
    chk.assumptions += [
        'spec/Calendar.tla + Durations.tla + DateOps.tla + DateChain.tla + DateObject.tla are the oracle; python datetime cross-checks the spec on years 1..9999 (every swept day, every edge within range)',
        'TLC integers are 32 bit: |year| <= 5 000 000 in the specification (day numbers must fit); the property text allows years up to 2^31',
        'implicit timezone = UTC (elementpath without a context timezone) except in the *-impl models, which pass timezone=-00:30 (quick) / +05:30 (thorough) to the dynamic context',
        'XSD 1.0 year numbering is read as the proleptic Gregorian calendar without a year 0 (-0001 = 1 BCE, a leap year)',
        'not judged: Python attribute .year (documented no-year-zero convention of the classes), canonical duration strings (C10), overflow errors',
    ]
    # ---- TLC + graph loading: one forked worker per model, all models concurrently -----------------
    mjobs = [('sweep', None, chk.scratch, conf)] + [(n, c, chk.scratch, conf) for n, c in conf['chains'] + conf['objects']]
    mres = dict(core.pool_map(model_worker, mjobs, procs=conf['parallel']))
    # ---- calendar sweep ---------------------------------------------------------------------
    r, n_days, n_ce = mres['sweep']
    chk.model(f'CalendarSweep/{conf["sweep"]}', r)
    chk.coverage['sweep_days'] = n_days
    chk.coverage['sweep_days_cross_checked_with_python'] = n_ce
    print(f'  sweep: days={n_days} cross-checked={n_ce} tlc={r.wall_s:.1f}s', flush=True)
    # ---- chains -----------------------------------------------------------------------------
    jobs = []
    for name, consts in conf['chains']:
        r, cfg, edges, n_states = mres[name]
        chk.model(f'DateChain/{name}', r)
        CFGS[name] = cfg
        EDGES[name] = edges
        chk.add('transitions', len(edges))
        chk.add('traces_validated_against_impl', len(edges))
        chk.add('distinct_nontrivial', sum(1 for e in edges if e[0] != e[3] and e[1] != 'Components' and
                                           not (e[1] in ('AddDTD', 'SubDTD', 'AddYMD', 'SubYMD') and dur_class(e[2][0]) == '0')))
        step = 400
        jobs += [(name, lo, min(lo + step, len(edges))) for lo in range(0, len(edges), step)]
        for e in edges[:: max(1, len(edges) // 3)][:3]:
            chk.sample(dict(model=name, source=render_src(e[0]), action=e[1] + render_args(e[2]), expected=e[3]))
        print(f'  {name}: states={r.distinct} edges={len(edges)} tlc={r.wall_s:.1f}s', flush=True)
    # interleave the models so that the pool stays busy
    jobs.sort(key=lambda j: (j[1], j[0]))
    # ---- one object, several uses ----------------------------------------------------------------
    ojobs = []
    for name, consts in conf['objects']:
        r, M = mres[name]
        chk.model(f'DateObject/{name}', r)
        OBJS[name] = M
        chk.add('transitions', M['n_edges'])
        ojobs += [('obj', name, root) for root in M['groups']]
        print(f'  {name}: states={r.distinct} edges={M["n_edges"]} tlc={r.wall_s:.1f}s', flush=True)
    jobs = ojobs + jobs          # the object walks are the longest jobs: start them first
    KNOWN[:] = chk.known
    res = core.pool_map(worker, jobs)
    oracle_msgs = []
    stats: dict = {}
    for n_eval, fails, oracle, st, hits in res:
        chk.add('evaluations', n_eval)
        for idx, cnt in hits.items():
            chk.known_hits[idx] = chk.known_hits.get(idx, 0) + cnt
        oracle_msgs += oracle
        for k, v in st.items():
            stats[k] = stats.get(k, 0) + v
        for feat, case, exp, obs, what in fails:
            chk.fail(feat, case, exp, obs, what=what)
    if oracle_msgs:
        raise tla.MachineryError(f'spec/DateChain disagrees with python datetime: {oracle_msgs[:5]}')
    chk.coverage['edges_cross_checked_with_python_datetime'] = stats.pop('edges_cross_checked_with_python_datetime', 0)
    n_paths = stats.pop('object_paths', 0)
    chk.coverage['object_paths'] = n_paths
    chk.add('traces_validated_against_impl', n_paths)
    chk.coverage['unreached'] = stats
    chk.coverage['exhaustive'] = True
    chk.coverage['rule'] = ('every day of the swept windows is one TLC state of CalendarSweep (closed form = odometer = classical count, '
                            'cross-checked with python date.toordinal); every edge of the TLC graph of DateChain (grid value x operation x '
                            'operand, chains of MaxOps operations, XSD 1.0 and 1.1) is replayed on the Python datatypes API and as XPath '
                            'expressions (plain, commuted and nested spellings); every path of the history graph of DateObject (one '
                            'bound value used by up to MaxUses operations, every incoming edge of the source as prefix) is driven on ONE real '
                            'object: Python API, a caller variable passed to successive select() calls, and one for-expression; the operand '
                            'is compared with the bound value after every use')
