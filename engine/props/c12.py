"""C12 -- XSD/XPath regular expressions translate to Python regexes with the same language.

Specifications (all expected values come out of TLC, as the dumped state graphs):
  spec/Regex.tla        definitional semantics over a 9-character alphabet (class algebra as set
                        algebra, positional matching M, Brzozowski derivatives as second definition)
  spec/RegexNames.tla   named constructors (cfg files cannot hold records)
  spec/RegexClass.tla   step machine building a character class (AddItem* Negate? Subtract?) with the
                        definitional denotation `den` and the implementation-shaped (positive, negative)
                        pair; refinement invariant; Variant pinned / fixed
  spec/RegexAst.tla     value-state machine over pattern ASTs: state = (r, full, found)
  spec/RegexFns.tla     (pattern, growing input): matches / tokenize / replace / analyze-string laws,
                        `adm` = admissible partitions
  spec/RegexReplace.tla replacement strings of fn:replace: $N references cut back to the longest valid group
                        number, \\$ and \\\\ escapes, expansion per number of capturing groups
  spec/RegexSyntax.tla  recogniser of valid token strings, flag q literal sub-string relation

Binding A (this module): AST -> pattern text (dumb renderer) -> elementpath.regex.translate_pattern
-> re.compile -> fullmatch / search, and select(root, 'matches($s,$p,$f)') with the XPath 2.0 / 3.1
parsers; invalid token strings must raise RegexError (FORX0002 through fn:matches); the partition
laws of analyze-string / tokenize / replace are checked on the implementation's own outputs, the
admissible partitions and all language membership coming from TLC.
Second oracle for the SPEC: Python `re` on the fragment it supports natively with identical meaning,
and `unicodedata.category` for the category table; disagreement = MachineryError.

Outside (not specified, excluded from the vectors): which substring is matched (greedy/lazy extents);
Unicode category membership beyond the nine characters; case-insensitive matching beyond a/A and the
effect of flag i on escapes and on RANGES inside classes (a range contains the case partners of
letters that are not alphabet members); position of an unescaped '-' in a class under XSD 1.1;
Python-only syntax met through flag x ('#' comments).
"""
from __future__ import annotations

import os
import re
import time
import unicodedata
import zlib

from .. import core, tla

# ------------------------------------------------------------------------------------------
# binding table: abstract characters -> concrete characters (code point order, see Regex.tla)
CH = {1: '\n', 2: ' ', 3: '-', 4: '5', 5: 'A', 6: '_', 7: 'a', 8: 'b', 9: '\U0001F600'}
CHNAME = {1: 'NL', 2: 'SP', 3: 'HY', 4: '5', 5: 'A', 6: '_', 7: 'a', 8: 'b', 9: 'AS'}
SIGMA = tuple(range(1, 10))
MINOR = ("Cc", "Zs", "Pd", "Nd", "Lu", "Pc", "Ll", "Ll", "So")     # must equal Regex!Minor
TLC_WORKERS = 4      # per TLC run; TLC_PAR runs at a time (JVM start-up dominates the small models)
TLC_PAR = 4
PROCS = 16
class _ReFlags(dict):
    """flag string ('', 'i', 'is', 'imsx', 'si', 'ii' ..) -> re flags: the letters compose"""
    def __missing__(self, key):
        v = 0
        for c in key:
            v |= {'s': re.S, 'm': re.M, 'i': re.I, 'x': re.X}[c]
        return v


RE_FLAGS = _ReFlags()


def subj(t) -> str:
    return ''.join(CH[c] for c in t)


def pat_char(c: int, in_class: bool, native: bool = False) -> str:
    if c == 1:
        return '\\n'
    if c == 3 and in_class:
        return '\\-'
    return CH[c]


def render_esc(e: str, cat: str) -> str:
    return '\\%s{%s}' % (e, cat) if e in 'pP' else '\\' + e


def render_class(cl, native: bool = False) -> str:
    """Class AST -> text.  native=True renders for Python's re (subtraction as a lookahead)."""
    out = ['[', '^' if cl['neg'] else '']
    for it in cl['items']:
        if it['k'] == 'c':
            out.append(pat_char(it['c'], True))
        elif it['k'] == 'r':
            out.append(pat_char(it['lo'], True) + '-' + pat_char(it['hi'], True))
        elif it['k'] == 'rx':       # range whose end point is the metacharacter it['x'], written as an escape
            out.append(pat_char(it['lo'], True) + '-\\' + it['x'])
        else:
            out.append(render_esc(it['e'], it['cat']))
    if cl['sub']:
        if native:
            return '(?!' + render_class(cl['sub'][0], True) + ')' + ''.join(out) + ']'
        out.append('-' + render_class(cl['sub'][0]))
    out.append(']')
    return ''.join(out)


class Renderer:
    """Dumb 1:1 renderer AST -> token list.  ncg: text used to open a non-capturing group (needed
    only where the grammar needs parentheses that the AST does not have)."""

    def __init__(self, ncg: str = '(?:', native: bool = False):
        self.ncg = ncg
        self.native = native
        self.groups = 0

    def open_nc(self) -> str:
        if self.ncg == '(':
            self.groups += 1
        return self.ncg

    def atomic(self, r) -> list:
        """tokens of r as ONE quantifiable atom"""
        t = r['t']
        if t in ('chr', 'any', 'esc', 'cls', 'grp', 'bol', 'eol'):
            return self.toks(r)
        if t == 'refd' and self.ncg == '(':
            raise tla.MachineryError('refd pattern inside a capturing wrapper')
        return [self.open_nc()] + self.toks(r) + [')']

    def toks(self, r) -> list:
        t = r['t']
        if t == 'chr':
            return [pat_char(r['c'], False)]
        if t == 'any':
            return ['.']
        if t == 'esc':
            return [render_esc(r['e'], r['cat'])]
        if t == 'cls':
            return [render_class(r, self.native)] if not (self.native and r['sub']) else \
                ['(?:' + render_class(r, True) + ')']
        if t == 'eps':
            return []
        if t == 'bol':
            return ['^']
        if t == 'eol':
            return ['$']
        if t == 'cat':
            out = []
            for x in (r['l'], r['r']):
                out += ([self.open_nc()] + self.toks(x) + [')']) if x['t'] == 'alt' else self.toks(x)
            return out
        if t == 'alt':
            return self.toks(r['l']) + ['|'] + self.toks(r['r'])
        if t in ('star', 'plus', 'opt', 'rep'):
            a = self.atomic(r['r'])
            if t == 'rep':
                n, m = r['n'], r['m']
                q = '{%d}' % n if n == m else ('{%d,}' % n if m == 99 else '{%d,%d}' % (n, m))
            else:
                q = {'star': '*', 'plus': '+', 'opt': '?'}[t]
            return a + [q + ('?' if r['lazy'] else '')]
        if t == 'grp':
            self.groups += 1
            return ['('] + self.toks(r['r']) + [')']
        if t == 'refd':
            # ( a ) ( b? ) ( ) .. ( ) ( b? ) \digits -- the digits are absolute group numbers: nothing capturing before
            if self.groups:
                raise tla.MachineryError('refd pattern rendered after another capturing group')
            g = r['g']
            self.groups += g
            bodies = ['a'] + (['b?'] if g >= 2 else []) + [''] * max(g - 3, 0) + (['b?'] if g >= 3 else [])
            return [x for b in bodies for x in ('(', b, ')') if x] + ['\\' + ''.join(map(str, r['digs']))]
        if t == 'dup':
            self.groups += 1
            k = self.groups
            return ['('] + self.toks(r['r']) + [')', '\\%d' % k]
        raise tla.MachineryError(f'cannot render AST node {t!r}')


def render(r, ncg: str = '(?:', sep: str = '', native: bool = False) -> str:
    return sep.join(Renderer(ncg, native).toks(r))


def walk(r):
    yield r
    for k in ('l', 'r'):
        if k in r and isinstance(r[k], dict):
            yield from walk(r[k])


def atom_tag(a) -> str:
    t = a['t']
    if t == 'chr':
        return 'chr:' + CHNAME[a['c']]
    if t == 'esc':
        return 'esc:' + a['e'] + (':' + a['cat'] if a['cat'] else '')
    if t == 'cls':
        return 'cls:' + render_class(a)
    if t == 'refd':
        return 'refd:%d:%s' % (a['g'], ''.join(map(str, a['digs'])))
    return t


def atom_tags(r) -> list:
    return sorted({atom_tag(x) for x in walk(r) if x['t'] in ('chr', 'any', 'esc', 'cls', 'bol', 'eol', 'refd')})


def node_types(r) -> set:
    return {x['t'] + ('L' if x.get('lazy') else '') for x in walk(r)}


def depth(r) -> int:
    ds = [depth(r[k]) for k in ('l', 'r') if k in r and isinstance(r[k], dict)]
    return 1 + max(ds) if ds else 0


# ------------------------------------------------------------------------------------------
# calling the implementation (public API only)

_PARSERS = None
_ROOT = None


def _api():
    global _PARSERS, _ROOT
    if _PARSERS is None:
        import xml.etree.ElementTree as ET
        from elementpath import XPath2Parser
        from elementpath.xpath30 import XPath30Parser
        from elementpath.xpath31 import XPath31Parser
        _PARSERS = {'2.0': XPath2Parser, '3.0': XPath30Parser, '3.1': XPath31Parser}
        _ROOT = ET.XML('<r/>')
    return _PARSERS, _ROOT


def outcome(fn):
    """value | ('err', code) | ('escaped', class name)"""
    from elementpath.exceptions import ElementPathError
    from elementpath.regex import RegexError
    try:
        return fn()
    except ElementPathError as e:
        return ('err', (getattr(e, 'code', None) or '').split(':')[-1])
    except RegexError:
        return ('err', 'RegexError')
    except re.error:
        return ('err', 're.error')
    except Exception as e:  # noqa
        return ('escaped', type(e).__name__)


def compile_pattern(p: str, flag: str, ver: str, xsd_mode: bool):
    """translate_pattern + re.compile -> compiled pattern or ('err'|'escaped', ..)"""
    from elementpath.regex import translate_pattern
    fl = RE_FLAGS[flag]

    def go():
        if xsd_mode == 'noanchors':       # XPath syntax (back-references, lazy quantifiers) but implicit anchoring
            py = translate_pattern(p, fl, ver, True, True, False)
        elif xsd_mode:
            py = translate_pattern(p, fl, ver, False, False, False)
        else:
            py = translate_pattern(p, fl, ver)
        return re.compile(py, fl)
    return outcome(go)


def xpath_call(expr: str, version: str, ver: str = '1.0', **variables):
    import elementpath
    parsers, root = _api()

    def go():
        kw = {'xsd_version': ver} if ver != '1.0' else {}
        return elementpath.select(root, expr, variables=variables, parser=parsers[version], **kw)
    return outcome(go)


def fn_matches(s: str, p: str, flag: str, version: str, ver: str = '1.0'):
    r = xpath_call('matches($s,$p,$f)', version, ver, s=s, p=p, f=flag)
    if isinstance(r, list) and len(r) == 1:
        return r[0]
    return r


def tlc_batch(jobs, tier: str = 'quick'):
    """jobs: (key, module, constants, invariants, workdir).  Runs the TLC models TLC_PAR at a time;
    returns key -> (TLCResult, dot path).  A failed run is a machinery failure."""
    from concurrent.futures import ThreadPoolExecutor

    def one(job):
        key, module, consts, invs, wd = job
        dot = os.path.join(wd, 'g.dot')
        r = tla.run_tlc(module, tla.cfg_text(consts, spec='Spec', invariants=invs), wd, dump_dot=dot,
                        workers=TLC_WORKERS if tier == 'quick' else 2 * TLC_WORKERS)
        return key, r, dot
    out = {}
    with ThreadPoolExecutor(max_workers=TLC_PAR if tier == 'quick' else TLC_PAR // 2) as ex:
        for key, r, dot in ex.map(one, jobs):
            tla.require_ok(r, f'{key}')
            out[key] = (r, dot)
    return out



# One fork pool for ALL replays of a run: every part submits (worker, jobs, continuation); flush() maps them together
# (starting a pool per configuration costs more than the small configurations themselves).
_PENDING: list = []


def submit(worker, jobs, then) -> None:
    _PENDING.append((worker.__name__, [j for j in jobs], then))


def _dispatch(item):
    name, job = item
    return globals()[name](job)


def flush() -> None:
    flat = [(name, j) for name, jobs, _ in _PENDING for j in jobs]
    # longest jobs first would need a cost model; interleave the parts instead so that no part is last alone
    order = sorted(range(len(flat)), key=lambda i: (i * 7919) % max(len(flat), 1))
    res = core.pool_map(_dispatch, [flat[i] for i in order], procs=PROCS)
    back = [None] * len(flat)
    for i, r in zip(order, res):
        back[i] = r
    pos = 0
    for name, jobs, then in _PENDING:
        then(back[pos:pos + len(jobs)])
        pos += len(jobs)
    _PENDING.clear()


# ------------------------------------------------------------------------------------------
# failure bookkeeping inside workers: one entry per feature class (first instance + count)

class Bag:
    def __init__(self):
        self.d: dict = {}
        self.stats: dict = {}
        self.oracle: list = []
        self.samples: list = []

    def add(self, key: str, n: int = 1):
        self.stats[key] = self.stats.get(key, 0) + n

    def fail(self, feat: dict, case: dict, expected, observed, what: str):
        key = tuple(sorted((k, str(v)) for k, v in feat.items()))
        e = self.d.get(key)
        if e is None:
            self.d[key] = [feat, 1, case, expected, observed, what]
        else:
            e[1] += 1

    def result(self):
        return self.stats, list(self.d.values()), self.oracle[:5], len(self.oracle), self.samples[:3]


def names(chars) -> str:
    return ','.join(CHNAME[c] for c in sorted(chars))


def char_set(c, xsd_mode: bool):
    """set of alphabet characters matched as a whole string by a compiled pattern"""
    if isinstance(c, tuple):
        return c
    if xsd_mode:
        return frozenset(ch for ch in SIGMA if c.search(CH[ch]) is not None)
    return frozenset(ch for ch in SIGMA if c.fullmatch(CH[ch]) is not None)


# ------------------------------------------------------------------------------------------
# RegexClass: every class expression of the graph

NATIVE_ESC = {'d', 'D', 's', 'S'}


def class_features(cl, ver: str, mode: str, den, obs, pinned) -> dict:
    def grp(c):
        negesc = sum(1 for it in c['items'] if it['k'] == 'e' and it['e'].isupper())
        posit = any(not (it['k'] == 'e' and it['e'].isupper()) for it in c['items'])
        return ('0', '1', '2+')[min(negesc, 2)], posit
    ne, po = grp(cl)
    f = dict(kind='class', mode=mode, xsd_version=ver, negated=cl['neg'], negesc=ne, posit=po, sub='none')
    if cl['sub']:
        s = cl['sub'][0]
        sne, spo = grp(s)
        f.update(sub='neg' if s['neg'] else 'pos', sub_negesc=sne, sub_posit=spo)
    escs = {it['e'].lower() for c in ([cl] + list(cl['sub'])) for it in c['items'] if it['k'] == 'e'}
    f['esc_ic'] = bool(escs & {'i', 'c'})
    groups = [cl] + list(cl['sub'])
    # an escape written directly after an escaped hyphen; a range whose start is written as an escape (\n-x)
    def escaped(it):     # rendered with a leading backslash
        return it['k'] == 'e' or (it['k'] == 'c' and it['c'] in (1, 3)) or (it['k'] == 'r' and it['lo'] in (1, 3))
    f['esc_after_hyphen'] = any(a['k'] == 'c' and a['c'] == 3 and escaped(b)
                                for g in groups for a, b in zip(g['items'], g['items'][1:]))
    f['esc_range_start'] = any(it['k'] == 'r' and it['lo'] == 1 for g in groups for it in g['items'])
    f['esc_range_end'] = any(it['k'] == 'rx' for g in groups for it in g['items'])
    if isinstance(obs, tuple):
        f['outcome'] = ':'.join(map(str, obs))
    else:
        f['outcome'] = 'extra' if obs > den else 'missing' if obs < den else 'wrong'
        astral = frozenset({9})
        # XSD 1.1 \\i \\c: is the astral character the only disagreement?
        f['only_astral'] = (obs ^ den) == astral
        if pinned is not None and pinned != den and obs == pinned:
            f['pinned_model'] = 'agrees'          # the as-implemented model of RegexClass.tla predicts exactly this set
        elif pinned is not None and ver == '1.1' and f['esc_ic'] and (pinned - astral) != (den - astral) \
                and (obs - astral) == (pinned - astral):
            f['pinned_model'] = 'agrees_modulo_astral'
        else:
            f['pinned_model'] = 'differs'
    return f


def class_worker(job):
    ver, states, fn_mod, xsd_mod = job
    bag = Bag()
    t_cpu = time.process_time()
    for idx, (cl, den, pinned) in enumerate(states):
        text = render_class(cl)
        h = zlib.crc32(text.encode())
        case0 = dict(kind='class', pattern=text, xsd_version=ver, should_match=[CH[c] for c in sorted(den)],
                     should_not_match=[CH[c] for c in SIGMA if c not in den])
        bag.add('classes')
        if den and den != frozenset(SIGMA):
            bag.add('nontrivial')
        for mode in ('xpath', 'xsd') if h % xsd_mod == 0 else ('xpath',):
            obs = char_set(compile_pattern(text, '', ver, mode == 'xsd'), mode == 'xsd')
            bag.add('evaluations', 9)
            if obs != den:
                bag.fail(class_features(cl, ver, mode, den, obs, pinned), dict(case0, mode=mode),
                         names(den), obs if isinstance(obs, tuple) else names(obs),
                         f'{text} ({mode}, XSD {ver}) should match exactly {{{names(den)}}}')
        if fn_mod and (h % fn_mod == 1):
            for version in (('2.0',) if h & 64 else ('3.1',)):
                got = set()
                err = None
                for ch in SIGMA:
                    r = fn_matches(CH[ch], text, '', version, ver)
                    bag.add('evaluations')
                    if r is True:
                        got.add(ch)
                    elif r is not False:
                        err = r
                obs = err if err is not None else frozenset(got)
                if obs != den:
                    bag.fail(class_features(cl, ver, 'fn:matches', den, obs, pinned),
                             dict(case0, mode='fn:matches', parser=version), names(den),
                             obs if isinstance(obs, tuple) else names(obs),
                             f"matches($c, '{text}') (XPath {version}, XSD {ver}) should hold exactly for {{{names(den)}}}")
        # second oracle for the SPEC: Python's re on natively supported classes
        groups = [cl] + list(cl['sub'])
        if all(it['k'] != 'e' or it['e'] in NATIVE_ESC for g in groups for it in g['items']):
            nat = re.compile(render_class(cl, native=True))
            nset = frozenset(ch for ch in SIGMA if nat.fullmatch(CH[ch]))
            bag.add('second_oracle_evaluations', 9)
            if nset != den:
                bag.oracle.append(dict(pattern=text, native=nat.pattern, spec=names(den), re=names(nset)))
        if len(cl['items']) == 1 and not cl['neg'] and not cl['sub'] and cl['items'][0]['k'] == 'e' \
                and cl['items'][0]['e'] == 'p':
            cat = cl['items'][0]['cat']
            uset = frozenset(ch for ch in SIGMA if unicodedata.category(CH[ch]).startswith(cat))
            bag.add('second_oracle_evaluations', 9)
            if uset != den:
                bag.oracle.append(dict(pattern=text, spec=names(den), unicodedata=names(uset)))
        if len(bag.samples) < 2 and cl['sub'] and cl['neg'] and den:
            bag.samples.append(dict(pattern=text, xsd_version=ver, matches_exactly=names(den)))
    bag.add('cpu_s', time.process_time() - t_cpu)
    return bag.result()


def class_key(st):
    return (st['items'], st['neg'], st['sub'])


ALL_ITEMS = {"NL", "SP", "HY", "5", "A", "_", "a", "b", "AS", "a-b", "A-a", "5-A", "SP-5", "NL-AS", "5-CARET", "a-RBRACE",
             "d", "D", "s", "S", "w", "W", "i", "I", "c", "C",
             "pL", "PL", "pLu", "PLu", "pNd", "pP", "PP", "pZs", "pS", "PS", "pCc"}

CLASS_CONFIGS = {
    # name, XSD version, constants, fn:matches on 1/n of the classes, XSD-mode translation on 1/n
    'quick': [
        ('items2', '1.0', dict(ItemNames=ALL_ITEMS, ItemNames3=set(), SubNames=set(), MaxItems=2, MaxSubItems=1), 16, 4),
        ('items3', '1.0', dict(ItemNames={"a", "b", "5", "NL", "AS", "HY", "a-b", "d", "D", "S", "W", "PL", "i"},
                               ItemNames3={"a", "5", "D", "S"}, SubNames=set(), MaxItems=3, MaxSubItems=1), 16, 4),
        ('items11', '1.1', dict(ItemNames={"a", "AS", "5", "i", "I", "c", "C", "d", "D", "w"}, ItemNames3=set(),
                                SubNames=set(), MaxItems=2, MaxSubItems=1), 8, 2),
        # (large positive sets in the main group are avoided where the subtracted class has a negated part:
        #  CharacterClass.__isub__ then intersects code point by code point, [\\w-[\\D]] and [\\D\\S-[^a]] take seconds)
        ('sub', '1.0', dict(ItemNames={"a", "5", "d", "D"}, ItemNames3=set(),
                            SubNames={"a", "5", "d", "D", "S"}, MaxItems=2, MaxSubItems=2), 64, 8),
    ],
    'thorough': [
        ('items', '1.0', dict(ItemNames=ALL_ITEMS | {"pLl", "PLl", "PNd", "pN", "PN", "pPd", "PPd", "pPc", "pZ", "PZ",
                                                      "pC", "PC", "PCc", "pSo", "PSo", "_-AS", "a-a"},
                              ItemNames3={"a", "5", "D", "PL"},
                              SubNames=set(), MaxItems=3, MaxSubItems=1), 16, 4),
        ('items11', '1.1', dict(ItemNames=ALL_ITEMS, ItemNames3={"a", "AS", "i", "I", "c", "C", "D", "d"},
                                SubNames=set(), MaxItems=3, MaxSubItems=1), 16, 4),
        ('sub', '1.0', dict(ItemNames={"a", "5", "NL", "AS", "HY", "a-b", "5-CARET", "d", "D", "s"},
                            ItemNames3=set(), SubNames={"a", "5", "d", "D", "S", "W", "a-b"},
                            MaxItems=2, MaxSubItems=2), 64, 8),
        ('sub11', '1.1', dict(ItemNames={"a", "AS", "5", "d", "D", "C", "s"}, ItemNames3=set(),
                              SubNames={"a", "AS", "D", "i", "C"}, MaxItems=2, MaxSubItems=2), 32, 8),
    ],
}


def class_variants(tier: str):
    # fixed: the repaired algorithm (in the tree since commit b292dd3) must refine the definitional set.
    # pinned: the transcription of the algorithm BEFORE that repair is only dumped (TLC refutes Refines for it); it
    # tells whether a failing class is the one the old algorithm produced (feature pinned_model).  Thorough only.
    return ('fixed', 'pinned') if tier == 'thorough' else ('fixed',)


def jobs_classes(chk: core.Check) -> list:
    return [(f'RegexClass/{name}/{variant}', 'RegexClass', dict(XsdVersion=ver, Flag="", Variant=variant, **consts),
             ['Laws', 'Refines'] if variant == 'fixed' else ['Laws'], os.path.join(chk.scratch, f'class-{name}-{variant}'))
            for name, ver, consts, fn_mod, xsd_mod in CLASS_CONFIGS[chk.tier] for variant in class_variants(chk.tier)]


def run_classes(chk: core.Check, totals: dict, done: dict) -> None:
    for name, ver, consts, fn_mod, xsd_mod in CLASS_CONFIGS[chk.tier]:
        graphs = {}
        for variant in class_variants(chk.tier):
            r, dot = done[f'RegexClass/{name}/{variant}']
            if variant == 'fixed':
                chk.model(f'RegexClass/{name}', r)
            graphs[variant] = tla.load_dot(dot)
            os.remove(dot)
        g = graphs['fixed']
        if consts['SubNames'] and not any(st['neg'] and st['sub'] and st['sub'][0]['neg'] for st in g.states.values()):
            raise tla.MachineryError(f'RegexClass/{name}: DoubleNegLaw is vacuous (no [^..-[^..]] state)')
        pin = {}
        if 'pinned' in graphs:
            pin = {class_key(st): (frozenset(st['ipos']) | (frozenset(SIGMA) - frozenset(st['ineg']))
                                   if st['ineg'] else frozenset(st['ipos']))
                   for st in graphs['pinned'].states.values()}
        refuted = sum(1 for st in g.states.values() if st['items'] and pin and pin[class_key(st)] != frozenset(st['den']))
        totals['pinned_model_refuted_states'] = totals.get('pinned_model_refuted_states', 0) + refuted
        states = [(dict(items=st['items'], neg=st['neg'], sub=st['sub']), frozenset(st['den']), pin.get(class_key(st)))
                  for st in g.states.values() if st['items']]
        states.sort(key=lambda x: render_class(x[0]))
        jobs = [(ver, ch, fn_mod, xsd_mod) for ch in core.chunked(states, 64)]
        submit(class_worker, jobs, lambda res: collect(chk, res, totals, 'class'))
        chk.add('transitions', len(g.edges))
        chk.add('traces_validated_against_impl', len(states))
        print(f'  RegexClass/{name}: states={len(g.states)} pinned-model-refuted={refuted}', flush=True)
    n = totals.get('pinned_model_refuted_states', 0)
    if chk.tier == 'thorough':
        chk.note(f'RegexClass: the model of the (positive, negative) algorithm as it was before commit b292dd3 '
                 f'(Variant=pinned) violates Refines in {n} class expressions; the repaired model (Variant=fixed) '
                 f'satisfies it in all')


# ------------------------------------------------------------------------------------------
# RegexAst: every pattern of the graph x every subject of the universe

NATIVE_OK = {'chr', 'any', 'cls', 'esc', 'cat', 'alt', 'star', 'plus', 'opt', 'rep', 'grp', 'dup'}


def native_supported(r, flag: str) -> bool:
    """fragment that Python's re supports natively with identical meaning"""
    if set(flag) - set('si'):
        return False
    for x in walk(r):
        if x['t'] not in NATIVE_OK:
            return False
        if x['t'] == 'esc' and x['e'] not in NATIVE_ESC:
            return False
        if x['t'] == 'cls':
            for g in [x] + list(x['sub']):
                if any(it['k'] == 'e' and it['e'] not in NATIVE_ESC for it in g['items']):
                    return False
    return True


def has_space(r) -> bool:
    for x in walk(r):
        if x['t'] == 'chr' and x['c'] == 2:
            return True
        if x['t'] == 'cls' and any(it['k'] == 'c' and it['c'] == 2 or it['k'] == 'r' and it['lo'] <= 2 <= it['hi']
                                   for g in [x] + list(x['sub']) for it in g['items']):
            return True
    return False


def show(strings, cap=6):
    return [subj(s) for s in sorted(strings, key=lambda t: (len(t), t))[:cap]]


def direction(obs, exp) -> str:
    if isinstance(obs, tuple):
        return ':'.join(map(str, obs))
    return 'accepts_too_much' if obs > exp else 'rejects_too_much' if obs < exp else 'both'


def ast_worker(job):
    flag, ver, states, subjects, fn_mod = job
    texts = {s: subj(s) for s in subjects}
    bag = Bag()
    fails = []
    t_cpu = time.process_time()

    def report(r, mode, which, p, exp, obs, extra=None):
        d = direction(obs, exp)
        case = dict(kind='ast', pattern=p, flag=flag, xsd_version=ver, mode=mode, which=which)
        if extra:
            case.update(extra)
        if isinstance(obs, tuple):
            e, o = show(exp), list(obs)
            case.update(should_match=e, should_not_match=[])
        else:
            e, o = show(exp - obs), show(obs - exp)
            case.update(should_match=e, should_not_match=o)
        qa = any(x['t'] in ('star', 'plus', 'opt', 'rep') and x['r']['t'] in ('bol', 'eol') for x in walk(r))
        fails.append((atom_tags(r), depth(r), mode, which, d, case, e, o, qa))

    for r, full, found in states:
        types = node_types(r)
        bag.add('patterns')
        nontrivial = 0
        sep = ' ' if 'x' in flag else ''
        if 'x' in flag and has_space(r):
            bag.add('skipped_x_space')
            continue
        # --- XPath mode: translate_pattern defaults, re.search / re.fullmatch
        for ncg in ('(?:', '('):
            p = render(r, ncg, sep)
            if ncg == '(' and '(?:' not in render(r, '(?:', sep):
                continue        # same text
            c = compile_pattern(p, flag, ver, False)
            if isinstance(c, tuple):
                report(r, 'xpath', 'search', p, found, c)
                continue
            o_found = frozenset(s for s in subjects if c.search(texts[s]) is not None)
            o_full = frozenset(s for s in subjects if c.fullmatch(texts[s]) is not None)
            bag.add('evaluations', 2 * len(subjects))
            nontrivial += sum(1 for s in subjects if (s in found) != (s in full))
            if o_found != found:
                report(r, 'xpath', 'search', p, found, o_found)
            if o_full != full:
                report(r, 'xpath', 'full', p, full, o_full)
        # --- XSD mode: anchors=False, no back-references, no lazy quantifiers: implicit full match
        if not (types & {'bol', 'eol', 'dup', 'refd', 'starL', 'plusL', 'optL', 'repL'}):
            p = render(r, '(', sep)
            c = compile_pattern(p, flag, ver, True)
            if isinstance(c, tuple):
                report(r, 'xsd', 'full', p, full, c)
            else:
                o = frozenset(s for s in subjects if c.search(texts[s]) is not None)
                bag.add('evaluations', len(subjects))
                if o != full:
                    report(r, 'xsd', 'full', p, full, o)
        # --- anchors=False with back-references kept: the numbers of the groups must not move
        if (types & {'dup', 'refd'}) and not (types & {'bol', 'eol'}):
            p = render(r, '(?:', sep)
            c = compile_pattern(p, flag, ver, 'noanchors')
            if isinstance(c, tuple):
                report(r, 'xpath-noanchors', 'full', p, full, c)
            else:
                o = frozenset(s for s in subjects if c.search(texts[s]) is not None)
                bag.add('evaluations', len(subjects))
                if o != full:
                    report(r, 'xpath-noanchors', 'full', p, full, o)
        # --- fn:matches through the XPath parsers
        p = render(r, '(?:', sep)
        h = zlib.crc32(p.encode())
        if fn_mod and h % fn_mod == 0:
            version = ('2.0', '3.0', '3.1')[(h >> 8) % 3]
            if version == '2.0':
                p = render(r, '(', sep)
            got, err = set(), None
            for s in subjects:
                res = fn_matches(texts[s], p, flag, version, ver)
                bag.add('evaluations')
                if res is True:
                    got.add(s)
                elif res is not False:
                    err = res
            o = err if err is not None else frozenset(got)
            if o != found:
                report(r, 'fn:matches', 'search', p, found, o, dict(parser=version))
        # --- second oracle for the SPEC: Python's re on the natively supported fragment
        if native_supported(r, flag):
            n = re.compile(render(r, '(?:', '', native=True), RE_FLAGS[flag])
            n_full = frozenset(s for s in subjects if n.fullmatch(texts[s]) is not None)
            n_found = frozenset(s for s in subjects if n.search(texts[s]) is not None)
            bag.add('second_oracle_evaluations', 2 * len(subjects))
            if n_full != full or n_found != found:
                bag.oracle.append(dict(native=n.pattern, flag=flag, full_diff=show(n_full ^ full),
                                       found_diff=show(n_found ^ found)))
        bag.add('nontrivial', 1 if (found and len(found) < len(subjects)) else 0)
        if len(bag.samples) < 1 and depth(r) >= 2 and 0 < len(full) < len(found) < len(subjects):
            bag.samples.append(dict(pattern=render(r), flag=flag, full_matches=show(full, 4), not_found=show(set(subjects) - found, 4)))
    bag.add('cpu_s', time.process_time() - t_cpu)
    st, _, odis, n_odis, samples = bag.result()
    return st, fails, odis, n_odis, samples


WIDE_ATOMS = {"NL", "SP", "HY", "5", "A", "_", "a", "b", "AS", "any", "d", "D", "s", "S", "w", "W", "i", "I", "c", "C",
              "pL", "PL", "pLu", "PLu", "pLl", "pNd", "PNd", "pP", "PP", "pPd", "pPc", "pZs", "PZs", "pCc", "PC", "pS", "PSo",
              "c_ab", "c_na", "c_A", "c_rg", "c_r5", "c_nr5", "c_sub", "c_nsn", "c_dn", "c_nS", "c_wsb", "c_sp"}
ALL_UNARIES = {"star", "plus", "opt", "starL", "plusL", "optL", "rep2", "rep12", "rep1U", "rep0U", "rep02", "rep00",
               "rep12L", "grp", "dup"}
U5 = {"star", "plus", "opt", "rep2", "dup"}

AST_CONFIGS = {
    # name, Flag, XsdVersion, constants, fn:matches on 1/n of the patterns, check the (slower) SearchLaw too
    'quick': [
        ('wide', '', '1.0', dict(AtomNames=WIDE_ATOMS, OperandNames={"a", "NL", "any", "d"}, OperandDepth=0,
                                 Unaries=ALL_UNARIES, Unaries2=set(), Binaries={"cat", "alt"}, MaxDepth=1,
                                 SubjChars=set(SIGMA), MaxLen=2), 16, True),
        ('deep', '', '1.0', dict(AtomNames={"a", "b", "any", "c_na"}, OperandNames={"a", "b", "any", "c_na"}, OperandDepth=1,
                                 Unaries=U5, Unaries2=U5, Binaries={"cat", "alt"}, MaxDepth=2,
                                 SubjChars={1, 7, 8}, MaxLen=3), 64, False),
        ('anchors', '', '1.0', dict(AtomNames={"a", "NL", "bol", "eol", "any"}, OperandNames={"a", "NL", "bol", "eol", "any"},
                                    OperandDepth=0, Unaries={"star", "opt", "rep2", "grp"}, Unaries2={"star", "opt"},
                                    Binaries={"cat", "alt"}, MaxDepth=2, SubjChars={1, 7}, MaxLen=4), 16, True),
        ('anchors-m', 'm', '1.0', dict(AtomNames={"a", "NL", "bol", "eol", "any"}, OperandNames={"a", "NL", "bol", "eol", "any"},
                                       OperandDepth=0, Unaries={"star", "opt", "rep2", "grp"}, Unaries2={"star", "opt"},
                                       Binaries={"cat", "alt"}, MaxDepth=2, SubjChars={1, 7}, MaxLen=4), 16, True),
        ('dotall', 's', '1.0', dict(AtomNames={"any", "NL", "a", "c_na", "S", "bol", "eol"}, OperandNames={"any", "NL", "a"},
                                    OperandDepth=0, Unaries={"star", "plus", "opt", "rep12", "starL"}, Unaries2=set(),
                                    Binaries={"cat", "alt"}, MaxDepth=1, SubjChars={1, 7, 8}, MaxLen=3), 8, True),
        ('icase', 'i', '1.0', dict(AtomNames={"a", "A", "b", "5", "_", "c_A", "c_nA", "c_ab", "c_na", "c_nsn",
                                              "pLu", "PLu", "pLl", "any"},
                                   OperandNames={"a", "A"}, OperandDepth=0, Unaries={"star", "dup", "rep2", "opt"},
                                   Unaries2=set(), Binaries={"cat", "alt"}, MaxDepth=1,
                                   SubjChars={4, 5, 6, 7, 8}, MaxLen=2), 8, True),
        ('verbose', 'x', '1.0', dict(AtomNames={"a", "HY", "5", "NL", "any", "d", "S", "pL", "c_ab", "c_na", "c_sub", "bol", "eol"},
                                     OperandNames={"a", "NL", "d"}, OperandDepth=0,
                                     Unaries={"star", "plusL", "rep12", "rep1U", "grp", "dup"}, Unaries2=set(),
                                     Binaries={"cat", "alt"}, MaxDepth=1, SubjChars={1, 3, 4, 7, 8}, MaxLen=2), 8, True),
        ('xsd11', '', '1.1', dict(AtomNames={"i", "I", "c", "C", "AS", "a", "w", "HY"}, OperandNames={"a", "AS"}, OperandDepth=0,
                                  Unaries={"star", "rep2", "grp"}, Unaries2=set(), Binaries={"cat", "alt"}, MaxDepth=1,
                                  SubjChars={3, 4, 7, 9}, MaxLen=2), 8, True),
        # flag COMBINATIONS (letters compose; order and repetition are irrelevant): category escapes, case-sensitive
        # classes, '.', anchors and back-references under i + s / m / x
    ] + [
        ('flags-' + f, f, '1.0', dict(AtomNames={"a", "A", "pLu", "PLu", "pLl", "c_A", "c_nA", "any", "NL", "bol", "eol"},
                                      OperandNames={"a", "NL"}, OperandDepth=0, Unaries={"plus", "dup"}, Unaries2=set(),
                                      Binaries={"cat", "alt"}, MaxDepth=1, SubjChars={1, 5, 7}, MaxLen=3), 4, False)
        for f in ('is', 'imsx', 'si', 'ix')
    ] + [
        # quantifiers with multi-digit bounds on an atom, a class and a group; subjects a^0 .. a^13
        ('bigrep', '', '1.0', dict(AtomNames={"a", "c_ab", "any"}, OperandNames={"a"}, OperandDepth=0,
                                   Unaries={"grp", "rep10", "rep2_10", "rep9_10", "rep3_12", "rep0_11", "rep10U", "rep2_10L"},
                                   Unaries2={"rep10", "rep2_10", "rep9_10", "rep3_12", "rep2_10L"},
                                   Binaries={"cat", "alt"}, MaxDepth=2, SubjChars={7}, MaxLen=13), 4, False),
        # back-references written as a run of digits, after 1, 2 and 10 groups: \\15 \\155 \\1555 \\255 \\1055 ..
        ('backref', '', '1.0', dict(AtomNames={"a", "r1_15", "r1_155", "r1_1555", "r1_125", "r2_25", "r2_255", "r2_155",
                                               "r10_105", "r10_1055", "r10_155", "r10_255", "r10_10"},
                                    OperandNames={"a"}, OperandDepth=0, Unaries=set(), Unaries2=set(),
                                    Binaries={"cat", "alt"}, MaxDepth=1, SubjChars={4, 7, 8}, MaxLen=5), 2, False),
    ],
}
AST_CONFIGS['thorough'] = AST_CONFIGS['quick'][2:] + [
    ('wide', '', '1.0', dict(AtomNames=WIDE_ATOMS, OperandNames={"a", "NL", "any", "W"}, OperandDepth=0,
                             Unaries=ALL_UNARIES, Unaries2={"star", "opt", "rep12", "grp"}, Binaries={"cat", "alt"}, MaxDepth=2,
                             SubjChars=set(SIGMA), MaxLen=2), 64, False),
    ('deep', '', '1.0', dict(AtomNames={"a", "b", "any", "d", "c_na", "NL"}, OperandNames={"a", "b", "any", "d", "c_na", "NL"},
                             OperandDepth=1, Unaries=U5 | {"grp", "starL"}, Unaries2=U5 | {"grp", "starL"},
                             Binaries={"cat", "alt"}, MaxDepth=2, SubjChars={1, 4, 7, 8}, MaxLen=3), 256, False),
    ('deep-i', 'i', '1.0', dict(AtomNames={"a", "A", "c_nA", "c_ab"}, OperandNames={"a", "A", "c_nA", "c_ab"},
                                OperandDepth=1, Unaries={"star", "opt", "dup"}, Unaries2={"star", "opt", "dup"},
                                Binaries={"cat", "alt"}, MaxDepth=2, SubjChars={5, 7, 8}, MaxLen=3), 64, False),
    ('backref12', 'i', '1.0', dict(AtomNames={"a", "r12_125", "r12_1255", "r12_155", "r12_1155", "r2_255", "r1_155"},
                                   OperandNames={"a"}, OperandDepth=0, Unaries=set(), Unaries2=set(),
                                   Binaries={"cat", "alt"}, MaxDepth=1, SubjChars={4, 5, 7, 8}, MaxLen=5), 2, False),
] + [
    ('flags-' + f, f, '1.0', dict(AtomNames={"a", "A", "b", "pLu", "PLu", "pLl", "c_A", "c_nA", "any", "NL", "bol", "eol"},
                                  OperandNames={"a", "NL", "A"}, OperandDepth=0, Unaries={"plus", "dup", "opt"}, Unaries2=set(),
                                  Binaries={"cat", "alt"}, MaxDepth=1, SubjChars={1, 5, 7, 8}, MaxLen=3), 4, False)
    for f in ('im', 'ims', 'sx', 'ii', 'sm')
] + [
    ('deep-m', 'm', '1.0', dict(AtomNames={"a", "NL", "bol", "eol"}, OperandNames={"a", "NL", "bol", "eol"},
                                OperandDepth=1, Unaries={"star", "opt", "plus"}, Unaries2={"star", "opt", "plus"},
                                Binaries={"cat", "alt"}, MaxDepth=2, SubjChars={1, 7}, MaxLen=4), 64, False),
]


def subjects_of(consts) -> list:
    import itertools
    chars = sorted(consts['SubjChars'])
    return [t for n in range(consts['MaxLen'] + 1) for t in itertools.product(chars, repeat=n)]


def jobs_asts(chk: core.Check) -> list:
    return [(f'RegexAst/{name}', 'RegexAst', dict(XsdVersion=ver, Flag=flag, **consts),
             ['Laws'] + (['SearchLaw'] if search_law else []), os.path.join(chk.scratch, f'ast-{name}'))
            for name, flag, ver, consts, fn_mod, search_law in AST_CONFIGS[chk.tier]]


def run_asts(chk: core.Check, totals: dict, done: dict) -> None:
    for name, flag, ver, consts, fn_mod, search_law in AST_CONFIGS[chk.tier]:
        r, dot = done[f'RegexAst/{name}']
        chk.model(f'RegexAst/{name}', r)
        g = tla.load_dot(dot)
        os.remove(dot)
        subjects = subjects_of(consts)
        tops = {st['r']['t'] for st in g.states.values()}
        if ('dup' in consts['Unaries'] and 'dup' not in tops) or not ({'cat', 'alt'} & tops):
            raise tla.MachineryError(f'RegexAst/{name}: laws are vacuous, top-level node types reached: {sorted(tops)}')
        states = [(st['r'], frozenset(st['full']), frozenset(st['found'])) for st in g.states.values()]
        states.sort(key=lambda x: (depth(x[0]), render(x[0])))
        jobs = [(flag, ver, states[k::48], subjects, fn_mod) for k in range(48)]
        def finish(results, flag=flag, ver=ver):
            # blame: a compound pattern's failure is attributed to an atom that already fails on its own
            raw = [f for res in results for f in res[1]]
            bad_atoms = {(f[0][0], f[2]) for f in raw if f[1] == 0 and len(f[0]) == 1}
            bad_any_mode = {a for a, _ in bad_atoms}
            bag = Bag()
            for tags, dp, mode, which, d, case, e, o, qa in raw:
                blame = next((t for t in tags if (t, mode) in bad_atoms), None) or \
                    next((t for t in tags if t in bad_any_mode), 'structure')
                feat = dict(kind='ast', flag=flag, xsd_version=ver, mode=mode, which=which, blame=blame, direction=d,
                            quantified_anchor=qa)
                bag.fail(feat, case, e, o, f"{case['pattern']!r} flag={flag!r} {mode}/{which}: should match {e}, "
                                           f"should not match {o}" if not isinstance(o, list) or d in
                         ('accepts_too_much', 'rejects_too_much', 'both') else f"{case['pattern']!r} {mode}: {o}")
            collect(chk, [(res[0], [], res[2], res[3], res[4]) for res in results] + [bag.result()], totals, 'ast')
        submit(ast_worker, [j for j in jobs if j[2]], finish)
        chk.add('transitions', len(g.edges))
        chk.add('traces_validated_against_impl', len(states))
        print(f'  RegexAst/{name}: states={len(g.states)} edges={len(g.edges)} tlc={r.wall_s:.1f}s', flush=True)


# ------------------------------------------------------------------------------------------
# RegexFns: matches / tokenize / replace / analyze-string on (pattern, growing input)

def as_list(v):
    return v if isinstance(v, (list, tuple)) and not (isinstance(v, tuple) and v and v[0] in ('err', 'escaped')) else [v]


def group_elements(match_el, base: int):
    """fn:group elements of one fn:match element -> [(nr, parent nr, start, end)], offsets in the input"""
    out = []

    def walk_el(el, parent, pos):
        pos += len(el.text or '')
        for ch in el:
            start = pos
            nr = int(ch.get('nr', '0'))
            pos = walk_el(ch, nr, pos)
            out.append((nr, parent, start, pos))
            pos += len(ch.tail or '')
        return pos
    walk_el(match_el, 0, base)
    return sorted(out)


XML_BINDING = {7: '&', 8: '<'}     # alternative binding of the abstract characters a, b (patterns without escapes / ranges)


def fns_worker(job):
    flag, ver, states, binding = job
    saved = dict(CH)
    CH.update(binding)
    try:
        return _fns_worker(flag, ver, states, 'xml' if binding else 'letters')
    finally:
        CH.update(saved)


def _fns_worker(flag, ver, states, binding):
    import elementpath
    parsers, root = _api()
    bag = Bag()
    t_cpu = time.process_time()
    for r, s, nullable, found, adm, ginfo, valid in states:
        types = node_types(r)
        p = render(r, '(?:')
        text = subj(s)
        h = zlib.crc32((p + '|' + text).encode())
        base = dict(kind='fns', flag=flag, xsd_version=ver, binding=binding, has_group=bool(types & {'grp', 'dup'}),
                    has_anchor=bool(types & {'bol', 'eol'}),
                    # a capturing group that contains an optional capturing group
                    # a capturing group inside a repetition (its last capture may lie anywhere in the match)
                    group_in_loop=any(x['t'] in ('star', 'plus', 'rep') and any(y['t'] in ('grp', 'dup') for y in walk(x['r']))
                                      for x in walk(r)),
                    opt_group_in_group=any(x['t'] in ('grp', 'dup') and any(
                        y['t'] in ('opt', 'star', 'rep') and y['r']['t'] in ('grp', 'dup') for y in walk(x['r'])) for x in walk(r)))
        case0 = dict(kind='fns', pattern=p, subject=text, flag=flag, xsd_version=ver)
        bag.add('pairs' if binding == 'letters' else 'pairs_xml_binding')
        if adm and any(len(a['parts']) > 1 for a in adm):
            bag.add('nontrivial')

        def bad(fn, law, version, expected, observed, what):
            out = ':'.join(map(str, observed)) if isinstance(observed, tuple) and observed and observed[0] in ('err', 'escaped') else 'value'
            bag.fail(dict(base, fn=fn, law=law, outcome=out), dict(case0, fn=fn, law=law, parser=version), expected, observed, what)

        versions = ('3.1', '2.0') if h % 4 == 0 else ('3.1',)
        for version in versions:
            pv = p if version != '2.0' else render(r, '(')
            if not valid:
                # not a pattern of this XSD version: the same verdict, FORX0002, from all four functions
                for fn, expr in (('matches', 'matches($s,$p,$f)'), ('tokenize', 'tokenize($s,$p,$f)'),
                                 ('replace', "replace($s,$p,'X',$f)"), ('analyze-string', 'analyze-string($s,$p,$f)')):
                    if fn == 'analyze-string' and version == '2.0':
                        continue
                    res = xpath_call(expr, version, ver, s=text, p=pv, f=flag)
                    bag.add('evaluations')
                    if not (isinstance(res, tuple) and res[:2] == ('err', 'FORX0002')):
                        bad(fn, 'invalid-pattern', version, 'err:FORX0002', res if isinstance(res, tuple) else 'a result',
                            f"{fn}({text!r}, {pv!r}) with an XSD {ver} parser: the pattern is not valid, FORX0002 is required")
                continue
            m = fn_matches(text, pv, flag, version, ver)
            bag.add('evaluations')
            if m is not found:
                bad('matches', 'membership', version, found, m, f"matches({text!r}, {pv!r}, {flag!r}) should be {found}")
            tok = xpath_call('tokenize($s,$p,$f)', version, ver, s=text, p=pv, f=flag)
            rep0 = xpath_call("replace($s,$p,'$0',$f)", version, ver, s=text, p=pv, f=flag)
            repx = xpath_call("replace($s,$p,'X',$f)", version, ver, s=text, p=pv, f=flag)
            bag.add('evaluations', 3)
            az = None
            if version != '2.0':
                # (the text nodes are joined explicitly: the string value of mixed content is property C02's business)
                az = xpath_call('for $e in analyze-string($s,$p,$f)/* return (local-name($e), string-join($e/descendant-or-self::node()/text(), ""))',
                                version, ver, s=text, p=pv, f=flag)
                bag.add('evaluations')
            if nullable:
                # a pattern that matches the zero-length string is an error for these three functions
                for fn, res in (('tokenize', tok), ('replace', rep0), ('analyze-string', az)):
                    if res is None:
                        continue
                    if not (isinstance(res, tuple) and res and res[0] == 'err'):
                        bad(fn, 'nullable-error', version, 'error (FORX0003)', res,
                            f"{fn}({text!r}, {pv!r}): the pattern matches the zero-length string, an error is required")
                continue
            tok_l = as_list(tok)
            if isinstance(tok, tuple) and tok and tok[0] in ('err', 'escaped'):
                bad('tokenize', 'outcome', version, 'a sequence of strings', tok, f"tokenize({text!r}, {pv!r}) failed")
                tok_l = None
            entry = None
            if az is not None:
                if isinstance(az, tuple) and az and az[0] in ('err', 'escaped'):
                    bad('analyze-string', 'outcome', version, 'a partition', az, f"analyze-string({text!r}, {pv!r}) failed")
                else:
                    az = as_list(az)
                    kinds, texts = az[0::2], az[1::2]
                    if ''.join(texts) != text:
                        bad('analyze-string', 'concat', version, text, az,
                            f"analyze-string({text!r}, {pv!r}): parts do not concatenate to the input")
                    pos, parts = 0, []
                    for k, t in zip(kinds, texts):
                        parts.append(('m' if k == 'match' else 'n', pos, pos + len(t)))
                        pos += len(t)
                    parts = tuple(parts)
                    entry = next((a for a in adm if a['parts'] == parts), None)
                    if entry is None:
                        bad('analyze-string', 'admissible', version, sorted(a['parts'] for a in adm), parts,
                            f"analyze-string({text!r}, {pv!r}) = {az}: not an admissible match / non-match partition")
            # fn:group elements: numbers, nesting and captured substrings as the specification admits them
            if version != '2.0' and entry is not None and ginfo:
                res = outcome(lambda: elementpath.select(root, 'analyze-string($s,$p,$f)', variables=dict(s=text, p=pv, f=flag),
                                                         parser=parsers[version]))
                bag.add('evaluations')
                el = res[0] if isinstance(res, list) and res else res
                if not hasattr(el, 'iter'):
                    bad('analyze-string', 'groups', version, 'an element', res, f"analyze-string({text!r}, {pv!r}) gave no element")
                else:
                    pos = 0
                    for part in el:
                        plen = len(''.join(part.itertext()))
                        if part.tag.endswith('}match'):
                            grs = group_elements(part, pos)
                            problems = []
                            for nr, parent, a, b in grs:
                                if not 1 <= nr <= len(ginfo):
                                    problems.append(('number', nr))
                                elif sum(1 for g in grs if g[0] == nr) > 1:
                                    problems.append(('twice', nr))
                                elif parent != ginfo[nr - 1]['parent']:
                                    problems.append(('nesting', nr))
                                elif (a - 0, b - 0) not in ginfo[nr - 1]['spans'] or not (pos <= a <= b <= pos + plen):
                                    problems.append(('capture', nr))
                            if problems:
                                kinds = sorted({k for k, _ in problems})
                                empties = any(a == b for _, _, a, b in grs)
                                bag.fail(dict(base, fn='analyze-string', law='groups', outcome='value', problem='+'.join(kinds),
                                              empty_group=empties, reversed_groups=any(
                                                  x[0] < y[0] and x[2] > y[2] for x in grs for y in grs)),
                                         dict(case0, fn='analyze-string', law='groups', parser=version),
                                         [dict(nr=n + 1, parent=g['parent'], spans=sorted(g['spans'])) for n, g in enumerate(ginfo)],
                                         [list(g) for g in grs],
                                         f"analyze-string({text!r}, {pv!r}): fn:group elements (nr, parent, start, end) {grs}: {problems}")
                        pos += plen
            # tokenize = the tokens induced by the partition analyze-string returned (or, for 2.0, by some admissible one)
            if tok_l is not None:
                cands = [entry] if entry is not None else list(adm)
                exp_tokens = [[subj(t) for t in a['tokens']] for a in cands]
                if list(tok_l) not in exp_tokens:
                    bad('tokenize', 'tokens', version, exp_tokens, list(tok_l),
                        f"tokenize({text!r}, {pv!r}) = {list(tok_l)}: not the non-match parts of the partition {exp_tokens}")
                exp_join = ['X'.join(t) for t in exp_tokens]
                rx = repx[0] if isinstance(repx, list) and len(repx) == 1 else repx
                if rx not in exp_join:
                    bad('replace', 'join', version, exp_join, rx,
                        f"replace({text!r}, {pv!r}, 'X') = {rx!r}: not the tokens joined by the replacement {exp_join}")
            r0 = rep0[0] if isinstance(rep0, list) and len(rep0) == 1 else rep0
            if r0 != text:
                bad('replace', 'identity', version, text, r0, f"replace({text!r}, {pv!r}, '$0') should be the input")
        if len(bag.samples) < 1 and adm and len(adm) > 1:
            bag.samples.append(dict(pattern=p, subject=text, admissible_partitions=[list(a['parts']) for a in adm]))
    bag.add('cpu_s', time.process_time() - t_cpu)
    return bag.result()


FNS_CONFIGS = {
    'quick': [
        ('d1', '', dict(PatAtoms={"a", "b", "any", "d", "c_na", "NL", "g_nest"}, PatUnaries={"star", "plus", "opt", "rep2", "grp", "dup"},
                        PatBinaries={"cat", "alt"}, PatDepth=1, SubjChars={1, 4, 7}, MaxLen=3)),
        ('groups', '', dict(PatAtoms={"a", "b"}, PatUnaries={"plus", "grp"}, PatBinaries={"cat", "alt"}, PatDepth=2,
                            SubjChars={1, 7, 8}, MaxLen=3)),
        # groups that take part in a match with an empty capture, in every position, next to ungrouped matched text
        ('emptygroups', '', dict(PatAtoms={"a", "b", "g_bs", "g_bo", "g_e", "g_ae", "g_mid", "g_mid2", "g_altp", "g_in", "g_nest"},
                                 PatUnaries={"grp", "opt"}, PatBinaries={"cat", "alt"}, PatDepth=1, SubjChars={7, 8}, MaxLen=3)),
        # the XSD version of the PARSER as a dimension of the four functions: \\p{IsNoSuchBlock} is an error under
        # XSD 1.0 (FORX0002 from all four) and matches every character under XSD 1.1
        ('xsd10', '', dict(PatAtoms={"a", "b", "pIsX"}, PatUnaries={"plus"}, PatBinaries={"cat", "alt"},
                           PatDepth=1, SubjChars={7, 8}, MaxLen=3), '1.0'),
        ('xsd11', '', dict(PatAtoms={"a", "b", "pIsX"}, PatUnaries={"plus"}, PatBinaries={"cat", "alt"},
                           PatDepth=1, SubjChars={7, 8}, MaxLen=3), '1.1'),
        ('anchors', '', dict(PatAtoms={"a", "NL", "bol", "eol"}, PatUnaries={"plus", "opt"}, PatBinaries={"cat", "alt"},
                             PatDepth=1, SubjChars={1, 7}, MaxLen=3)),
        ('anchors-m', 'm', dict(PatAtoms={"a", "NL", "bol", "eol"}, PatUnaries={"plus", "opt"}, PatBinaries={"cat", "alt"},
                                PatDepth=1, SubjChars={1, 7}, MaxLen=3)),
    ],
}
XML_BINDING_CONFIGS = {'groups'}
FNS_CONFIGS['thorough'] = FNS_CONFIGS['quick'] + [
    ('d1-wide', '', dict(PatAtoms={"a", "b", "any", "d", "D", "c_na", "c_sub", "NL", "w", "pL"},
                         PatUnaries={"star", "plus", "opt", "rep2", "rep12", "plusL", "grp", "dup"},
                         PatBinaries={"cat", "alt"}, PatDepth=1, SubjChars={1, 4, 7, 8}, MaxLen=4)),
    ('groups2', '', dict(PatAtoms={"a", "b", "any"}, PatUnaries={"plus", "grp", "opt", "dup"}, PatBinaries={"cat", "alt"},
                         PatDepth=2, SubjChars={1, 7, 8}, MaxLen=3)),
    ('icase', 'i', dict(PatAtoms={"a", "A", "c_nA", "b"}, PatUnaries={"plus", "grp", "dup"}, PatBinaries={"cat", "alt"},
                        PatDepth=1, SubjChars={5, 7, 8}, MaxLen=3)),
]


def jobs_fns(chk: core.Check) -> list:
    return [(f'RegexFns/{name}', 'RegexFns', dict(XsdVersion=(ver or ['1.0'])[0], Flag=flag, **consts), ['Laws'],
             os.path.join(chk.scratch, f'fns-{name}')) for name, flag, consts, *ver in FNS_CONFIGS[chk.tier]]


def run_fns(chk: core.Check, totals: dict, done: dict) -> None:
    for name, flag, consts, *xver in FNS_CONFIGS[chk.tier]:
        ver = (xver or ['1.0'])[0]
        r, dot = done[f'RegexFns/{name}']
        chk.model(f'RegexFns/{name}', r)
        g = tla.load_dot(dot)
        os.remove(dot)
        states = [(st['r'], st['s'], st['nullable'], st['found'], tuple(st['adm']),
                   tuple(dict(parent=gi['parent'], spans=frozenset(gi['spans'])) for gi in st['ginfo']), st['valid'])
                  for st in g.states.values()]
        if not any(len(x[4]) > 1 for x in states) or not any(not x[3] for x in states):
            raise tla.MachineryError(f'RegexFns/{name}: vacuous (no ambiguous partition or no non-matching input)')
        states.sort(key=lambda x: (render(x[0]), x[1]))
        jobs = [(flag, ver, states[k::48], {}) for k in range(48)]
        if name in XML_BINDING_CONFIGS:
            # the same vectors with a, b bound to the XML-significant characters & and <
            jobs += [(flag, ver, states[k::16], XML_BINDING) for k in range(16)]
        submit(fns_worker, [j for j in jobs if j[2]], lambda res: collect(chk, res, totals, 'fns'))
        chk.add('transitions', len(g.edges))
        chk.add('traces_validated_against_impl', len(g.edges))
        print(f'  RegexFns/{name}: states={len(g.states)} edges={len(g.edges)} tlc={r.wall_s:.1f}s', flush=True)


# ------------------------------------------------------------------------------------------
# RegexFns under SEVERAL flags: one parsed call site evaluated many times with varying input / flags / pattern.
# The same RegexFns model is run once per flag; the graphs are joined on (pattern, input), so every expected value
# still comes from TLC.  Routes: a predicate  /root/e[matches(., $p, @flags)]  over a document holding every
# (input, flags) pair, `for` batches over the four functions, and one token parsed once and evaluated with a new
# variable binding per item.  The mutual-consistency laws are checked on the batched results.

BATCH_FLAGS = ('', 'i', 's', 'm')
BATCH_CONFIGS = {
    'quick': dict(PatAtoms={"a", "A", "any", "NL", "bol", "eol"}, PatUnaries={"plus", "opt"}, PatBinaries={"cat", "alt"},
                  PatDepth=1, SubjChars={1, 5, 7}, MaxLen=3),
    'thorough': dict(PatAtoms={"a", "A", "b", "any", "NL", "bol", "eol", "c_nA"}, PatUnaries={"plus", "opt", "grp"},
                     PatBinaries={"cat", "alt"}, PatDepth=1, SubjChars={1, 5, 7, 8}, MaxLen=3),
}
FOR_EXPR = {
    'matches': 'for $i in 1 to count($ff) return matches($ss[$i], $pp[$i], $ff[$i])',
    'tokenize': "for $i in 1 to count($ff) return string-join(tokenize($ss[$i], $pp[$i], $ff[$i]), '|')",
    'replace': "for $i in 1 to count($ff) return replace($ss[$i], $pp[$i], 'X', $ff[$i])",
    'analyze-string': "for $i in 1 to count($ff) return string-join(for $e in analyze-string($ss[$i], $pp[$i], $ff[$i])/* "
                      "return concat(substring(local-name($e), 1, 1), ':', string-join($e/descendant-or-self::node()/text(), '')), '|')",
}


def batch_worker(job):
    import xml.etree.ElementTree as ET
    import elementpath
    from elementpath import XPathContext
    parsers, _ = _api()
    bag = Bag()
    t_cpu = time.process_time()
    once = {v: parsers[v]().parse('matches($s, $p, $f)') for v in ('2.0', '3.1')}     # ONE token per parser for the whole job

    def bad(route, fn, law, flag, prev, case, expected, observed, what):
        out = ':'.join(map(str, observed)) if isinstance(observed, tuple) and observed and observed[0] in ('err', 'escaped') else 'value'
        bag.fail(dict(kind='batch', route=route, fn=fn, law=law, flag=flag, previous_flag=prev, outcome=out),
                 dict(kind='batch', route=route, fn=fn, law=law, **case), expected, observed, what)

    for r, rows in job:
        p = render(r, '(?:')
        items = [(s, f, rec[f]) for s, rec in rows for f in BATCH_FLAGS]          # flags vary fastest: same pattern, same input
        texts = [subj(s) for s, f, _ in items]
        flags = [f for s, f, _ in items]
        bag.add('batched_patterns')
        # ---- route 1: predicate over a document, flags taken from an attribute of each item
        root = ET.Element('root')
        for t, f in zip(texts, flags):
            e = ET.SubElement(root, 'e', {'flags': f})
            e.text = t
        index = {id(e): k for k, e in enumerate(root)}
        for version in ('2.0', '3.1'):
            res = outcome(lambda: elementpath.select(root, '/root/e[matches(., $p, @flags)]', variables={'p': p},
                                                     parser=parsers[version]))
            bag.add('evaluations', len(items))
            want = [k for k, (s, f, rec) in enumerate(items) if rec[1]]
            got = res if isinstance(res, tuple) else sorted(index.get(id(e), -1) for e in res)
            if got != want:
                k = next((k for k in range(len(items)) if (k in want) != (not isinstance(got, tuple) and k in got)), 0)
                bad('predicate', 'matches', 'membership', flags[k], flags[k - 1] if k else None,
                    dict(pattern=p, subjects=texts, flags=flags, parser=version),
                    want, got, f"/root/e[matches(., {p!r}, @flags)] over {len(items)} items (XPath {version}): item {k + 1} "
                               f"({texts[k]!r}, flags {flags[k]!r}) should {'be selected' if k in want else 'not be selected'}")
        # ---- route 2: one token parsed once, a new variable binding per item
        for version, tok in once.items():
            got = []
            for t, f in zip(texts, flags):
                got.append(outcome(lambda: tok.evaluate(XPathContext(root, variables={'s': t, 'p': p, 'f': f}))))
            bag.add('evaluations', len(items))
            want = [rec[1] for s, f, rec in items]
            if got != want:
                k = next(k for k in range(len(items)) if got[k] != want[k])
                bad('parse_once', 'matches', 'membership', flags[k], flags[k - 1] if k else None,
                    dict(pattern=p, subjects=texts, flags=flags, parser=version), want, got,
                    f"token of 'matches($s, $p, $f)' parsed once (XPath {version}), binding {k + 1}: matches({texts[k]!r}, {p!r}, "
                    f"{flags[k]!r}) should be {want[k]}")
        # ---- route 3: `for` batches over the four functions + the consistency laws on the batched results
        ok_items = [(t, f, rec) for t, (s, f, rec) in zip(texts, items) if not rec[0]]      # not nullable
        if not ok_items:
            continue
        v = dict(ss=[t for t, f, rec in ok_items], pp=[p] * len(ok_items), ff=[f for t, f, rec in ok_items])
        out = {}
        for fn, expr in FOR_EXPR.items():
            res = xpath_call(expr, '3.1', '1.0', **v)
            bag.add('evaluations', len(ok_items))
            if isinstance(res, tuple) and res and res[0] in ('err', 'escaped') or len(as_list(res)) != len(ok_items):
                bad('for', fn, 'outcome', None, None, dict(pattern=p, subjects=v['ss'], flags=v['ff'], parser='3.1'),
                    f'{len(ok_items)} results', res, f"{expr} with $pp = {p!r}: failed")
                out = None
                break
            out[fn] = as_list(res)
        if out is None:
            continue
        for k, (t, f, rec) in enumerate(ok_items):
            nullable, found, adm = rec
            prev = v['ff'][k - 1] if k else None
            case = dict(pattern=p, subjects=v['ss'], flags=v['ff'], parser='3.1', item=k)
            m, tk, rp, az = out['matches'][k], out['tokenize'][k], out['replace'][k], out['analyze-string'][k]
            if m is not found:
                bad('for', 'matches', 'membership', f, prev, case, found, m,
                    f"{FOR_EXPR['matches']}: item {k + 1} matches({t!r}, {p!r}, {f!r}) should be {found}")
            pieces = [x.split(':', 1) for x in az.split('|')] if az else []
            pos, parts = 0, []
            for kind, x in pieces:
                parts.append(('m' if kind == 'm' else 'n', pos, pos + len(x)))
                pos += len(x)
            entry = next((a for a in adm if a['parts'] == tuple(parts)), None)
            if entry is None or ''.join(x for _, x in pieces) != t:
                bad('for', 'analyze-string', 'admissible', f, prev, case, sorted(a['parts'] for a in adm), parts,
                    f"analyze-string({t!r}, {p!r}, {f!r}) in a batch = {az!r}: not an admissible partition")
                continue
            want_tok = '|'.join(subj(x) for x in entry['tokens'])
            if tk != want_tok:
                bad('for', 'tokenize', 'tokens', f, prev, case, want_tok, tk,
                    f"tokenize({t!r}, {p!r}, {f!r}) in a batch = {tk!r}: not the non-match parts of {az!r}")
            if rp != 'X'.join(subj(x) for x in entry['tokens']):
                bad('for', 'replace', 'join', f, prev, case, 'X'.join(subj(x) for x in entry['tokens']), rp,
                    f"replace({t!r}, {p!r}, 'X', {f!r}) in a batch = {rp!r}: not the tokens of {az!r} joined by X")
            # mutual consistency of the implementation's own batched answers
            has_match = any(kind == 'm' for kind, _ in pieces)
            if not (m is has_match and (rp != t) is has_match):
                bad('for', 'matches', 'consistency', f, prev, case, dict(analyze_string=az), dict(matches=m, replace=rp),
                    f"item {k + 1}: matches({t!r}, {p!r}, {f!r}) = {m} but analyze-string = {az!r}, replace = {rp!r}")
        if len(bag.samples) < 1 and len({rec[1] for s, f, rec in items[:4]}) > 1:
            bag.samples.append(dict(pattern=p, subject=texts[0], flags=list(BATCH_FLAGS), matches=[rec[1] for s, f, rec in items[:4]]))
    bag.add('cpu_s', time.process_time() - t_cpu)
    return bag.result()


def jobs_batch(chk: core.Check) -> list:
    return [(f'RegexFns/flags-{f or "none"}', 'RegexFns', dict(XsdVersion='1.0', Flag=f, **BATCH_CONFIGS[chk.tier]), ['Laws'],
             os.path.join(chk.scratch, f'batch-{f or "none"}')) for f in BATCH_FLAGS]


def run_batch(chk: core.Check, totals: dict, done: dict) -> None:
    table: dict = {}
    for f in BATCH_FLAGS:
        r, dot = done[f'RegexFns/flags-{f or "none"}']
        chk.model(f'RegexFns/flags-{f or "none"}', r)
        g = tla.load_dot(dot)
        os.remove(dot)
        for st in g.states.values():
            row = table.setdefault(render(st['r']), [st['r'], {}])[1]
            row.setdefault(st['s'], {})[f] = (st['nullable'], st['found'], tuple(st['adm']))
        chk.add('transitions', len(g.edges))
    groups = []
    differ = 0
    for key in sorted(table):
        r, rows = table[key]
        if any(len(rec) != len(BATCH_FLAGS) for rec in rows.values()):
            raise tla.MachineryError(f'RegexFns/flags: the graphs of the flag runs do not have the same (pattern, input) pairs at {key}')
        differ += sum(1 for rec in rows.values() if len({x[1] for x in rec.values()}) > 1)
        groups.append((r, sorted(rows.items())))
    if not differ:
        raise tla.MachineryError('RegexFns/flags: vacuous, no (pattern, input) pair whose answer depends on the flags')
    totals['batch_pairs_depending_on_flags'] = differ
    submit(batch_worker, [groups[k::32] for k in range(32) if groups[k::32]], lambda res: collect(chk, res, totals, 'batch'))
    chk.add('traces_validated_against_impl', sum(len(rows) for _, rows in groups) * len(BATCH_FLAGS))
    chk.add('distinct_nontrivial', differ)
    print(f'  RegexFns/flags: patterns={len(groups)} pairs={sum(len(rows) for _, rows in groups)} x {len(BATCH_FLAGS)} flags, '
          f'{differ} pairs depend on the flags', flush=True)


# ------------------------------------------------------------------------------------------
# RegexSyntax: valid / invalid token strings, flag q

def tok_text(toks) -> str:
    return ''.join(t.replace('%', '\\') for t in toks)


def syntax_worker(job):
    mode, ver, states, do_fn = job
    from elementpath.regex import translate_pattern, RegexError
    bag = Bag()
    t_cpu = time.process_time()
    xp = mode != 'xsd'
    for toks, valid, why in states:
        p = tok_text(toks)
        bag.add('token_strings')
        if valid and len(toks) > 1:
            bag.add('nontrivial')
        nopen, nclose = toks.count('['), toks.count(']')
        feat0 = dict(kind='syntax', mode=mode, xsd_version=ver, expected='valid' if valid else 'invalid', why=why,
                     ncg='(?:' in toks, in_class='[' in toks,
                     brackets='open' if nopen > nclose else 'balanced' if nopen == nclose else 'extra',
                     subtraction=any(a == '-' and b == '[' for a, b in zip(toks, toks[1:])), stray_brace='}' in toks)
        case0 = dict(kind='syntax', pattern=p, mode=mode, xsd_version=ver)
        try:
            py = translate_pattern(p, 0, ver, xp, xp, xp)
            try:
                re.compile(py)
                obs = 'accepted'
            except re.error:
                obs = 're.error'
            except Exception as e:   # noqa
                obs = 'escaped:' + type(e).__name__
        except RegexError:
            obs = 'RegexError'
        except Exception as e:   # noqa
            obs = 'escaped:' + type(e).__name__
        bag.add('evaluations')
        exp = 'accepted' if valid else 'RegexError'
        if obs != exp:
            bag.fail(dict(feat0, stage='translate_pattern', observed=obs), dict(case0, stage='translate_pattern'), exp, obs,
                     f"translate_pattern({p!r}) [{mode}, XSD {ver}]: the pattern is {'valid' if valid else 'invalid (' + why + ')'}"
                     f", expected {exp}, observed {obs}")
        if xp and do_fn:
            version = '2.0' if mode == 'xp2' else '3.1'
            res = fn_matches('a', p, '', version, ver)
            bag.add('evaluations')
            if valid:
                o = 'accepted' if isinstance(res, bool) else ':'.join(map(str, res)) if isinstance(res, tuple) else repr(res)
            else:
                o = 'accepted' if isinstance(res, bool) else ':'.join(map(str, res)) if isinstance(res, tuple) else repr(res)
            e = 'accepted' if valid else 'err:FORX0002'
            if o != e:
                bag.fail(dict(feat0, stage='fn:matches', observed=o), dict(case0, stage='fn:matches', parser=version), e, o,
                         f"matches('a', {p!r}) [XPath {version}]: the pattern is {'valid' if valid else 'invalid (' + why + ')'}"
                         f", expected {e}, observed {o}")
    bag.add('cpu_s', time.process_time() - t_cpu)
    return bag.result()


def q_worker(job):
    pairs = job
    bag = Bag()
    for t, u, expected in pairs:
        res = fn_matches(tok_text(u), tok_text(t), 'q', '3.1')
        bag.add('evaluations')
        bag.add('q_pairs')
        if expected and t != u and t:
            bag.add('nontrivial')
        if res is not expected:
            bag.fail(dict(kind='q', expected=expected, observed=':'.join(map(str, res)) if isinstance(res, tuple) else res,
                          first=(t[0] if t else '')),
                     dict(kind='q', pattern=tok_text(t), subject=tok_text(u)), expected, res,
                     f"matches({tok_text(u)!r}, {tok_text(t)!r}, 'q') should be {expected} (literal sub-string)")
    return bag.result()


ALL_TOKENS = {"a", "-", "^", "$", ".", "*", "?", "+", "{2}", "{1,2}", "{2,1}", "{1,}", "{,2}", "(", ")", "(?:", "|",
              "[", "]", "%d", "%-", "%n", "%p{L}", "%1", "%e", "%f"}
CLS_TOKENS = {"a", "-", "^", "]", "[", "%d", "%-", "*", "("}
XP_TOKENS = {"a", "*", "?", "{2}", "(", ")", "|", "%1", "^", "[", "]", "(?:"}
XP_TOKENS_Q = {"a", "*", "?", "{2}", "(", ")", "|", "%1", "[", "]"}
QUANT_TOKENS = {"a", "(", ")", "[", "]", "?", "{10}", "{2,10}", "{9,10}", "{10,2}", "{10,9}", "{12,}", "{3,12}",
                "{7,100}", "{100,7}", "{0,0}"}
Q_TOKENS = {"a", ".", "*", "?", "(", "[", "]", "|", "^"}

SYNTAX_CONFIGS = {
    # name, Mode, XsdVersion, Tokens, First, MaxToks, also through fn:matches
    'quick': [
        ('xp3-all3', 'xp3', '1.0', ALL_TOKENS, ALL_TOKENS, 3, True),
        ('xsd-all3', 'xsd', '1.0', ALL_TOKENS, ALL_TOKENS, 3, False),
        ('xp2-all2', 'xp2', '1.1', ALL_TOKENS, ALL_TOKENS, 2, True),
        ('xp3-4', 'xp3', '1.0', XP_TOKENS_Q, XP_TOKENS_Q, 4, True),
        ('xsd-cls5', 'xsd', '1.0', CLS_TOKENS, {"["}, 5, False),
        ('xp3-cls5-11', 'xp3', '1.1', CLS_TOKENS, {"["}, 5, True),
        ('xp3-cls6', 'xp3', '1.0', {"a", "-", "[", "]", "^"}, {"["}, 6, True),
        ('xp3-quant', 'xp3', '1.0', (QUANT_TOKENS - {"{0,0}", "{100,7}"}) | {"}", "%0"}, {"a", "(", "["}, 4, True),
        ('xsd-quant', 'xsd', '1.1', QUANT_TOKENS, {"a"}, 4, False),
    ],
    'thorough': [
        ('xp3-all3', 'xp3', '1.0', ALL_TOKENS, ALL_TOKENS, 3, True),
        ('xp2-all3', 'xp2', '1.0', ALL_TOKENS, ALL_TOKENS, 3, True),
        ('xsd-all3', 'xsd', '1.0', ALL_TOKENS, ALL_TOKENS, 3, False),
        ('xsd11-all3', 'xsd', '1.1', ALL_TOKENS, ALL_TOKENS, 3, False),
        ('xp3-5', 'xp3', '1.0', XP_TOKENS_Q, XP_TOKENS_Q, 5, True),
        ('xp3-4', 'xp3', '1.0', XP_TOKENS | {"$", "+"}, XP_TOKENS | {"$", "+"}, 4, True),
        ('xsd-4', 'xsd', '1.0', XP_TOKENS | {"-", "%d", "{2,1}", "."}, XP_TOKENS | {"-", "%d", "{2,1}", "."}, 4, False),
        ('xsd-cls6', 'xsd', '1.0', CLS_TOKENS, {"["}, 6, False),
        ('xp3-cls6', 'xp3', '1.0', CLS_TOKENS, {"["}, 6, True),
        ('xp3-cls5-11', 'xp3', '1.1', CLS_TOKENS | {"|", "%n"}, {"["}, 5, True),
        ('xp3-quant', 'xp3', '1.0', QUANT_TOKENS | {"|", "{11,11}"}, {"a", "(", "["}, 4, True),
        ('xsd-quant', 'xsd', '1.1', QUANT_TOKENS | {"|", "{11,11}"}, {"a", "(", "["}, 4, False),
    ],
}


def jobs_syntax(chk: core.Check) -> list:
    nq = 3 if chk.tier == 'quick' else 4
    jobs = [(f'RegexSyntax/{name}', 'RegexSyntax', dict(Tokens=tokens, First=first, MaxToks=n, Mode=mode, XsdVersion=ver),
             ['Laws'], os.path.join(chk.scratch, f'syn-{name}'))
            for name, mode, ver, tokens, first, n, do_fn in SYNTAX_CONFIGS[chk.tier]]
    jobs.append(('RegexSyntax/q', 'RegexSyntax', dict(Tokens=Q_TOKENS, First=Q_TOKENS, MaxToks=nq, Mode='xp3', XsdVersion='1.0'),
                 ['Laws'], os.path.join(chk.scratch, 'syn-q')))
    return jobs


def run_syntax(chk: core.Check, totals: dict, done: dict) -> None:
    nq = 3 if chk.tier == 'quick' else 4
    for name, mode, ver, tokens, first, n, do_fn in SYNTAX_CONFIGS[chk.tier]:
        r, dot = done[f'RegexSyntax/{name}']
        chk.model(f'RegexSyntax/{name}', r)
        g = tla.load_dot(dot)
        os.remove(dot)
        sts = list(g.states.values())
        unsure = sum(1 for st in sts if st['unsure'])
        totals['syntax_unsure_excluded'] = totals.get('syntax_unsure_excluded', 0) + unsure
        states = sorted((st['toks'], st['valid'], st['why']) for st in sts if not st['unsure'])
        n_valid = sum(1 for s in states if s[1])
        if not n_valid or n_valid == len(states):
            raise tla.MachineryError(f'RegexSyntax/{name}: vacuous ({n_valid} valid of {len(states)})')
        jobs = [(mode, ver, states[k::48], do_fn) for k in range(48)]
        submit(syntax_worker, [j for j in jobs if j[2]], lambda res: collect(chk, res, totals))
        chk.add('transitions', len(g.edges))
        chk.add('traces_validated_against_impl', len(states))
        if len(chk.coverage['samples']) < 12:
            ex = next((s for s in states if s[1] and len(s[0]) == n and '[' in s[0]), None)
            if ex:
                chk.sample(dict(token_string=list(ex[0]), pattern=tok_text(ex[0]), mode=mode, valid=True))
        print(f'  RegexSyntax/{name}: states={len(g.states)} valid={n_valid} unsure={unsure} tlc={r.wall_s:.1f}s', flush=True)
    # flag q: the pattern is a literal; expected = the sub-string relation computed by TLC (qsub)
    n = nq
    r, dot = done['RegexSyntax/q']
    chk.model('RegexSyntax/q', r)
    g = tla.load_dot(dot)
    os.remove(dot)
    sts = sorted(((st['toks'], st['qsub']) for st in g.states.values()), key=lambda x: (len(x[0]), x[0]))
    pairs = [(t, u, t in qs) for (u, qs) in sts for (t, _) in sts
             if (len(t) <= 2 and len(u) <= 2) or (len(t) <= 1) or (len(t) == 2 and len(u) == n and zlib.crc32(repr((t, u)).encode()) % 16 == 0)]
    submit(q_worker, [pairs[k::32] for k in range(32)], lambda res: collect(chk, res, totals))
    chk.add('traces_validated_against_impl', len(pairs))
    print(f'  RegexSyntax/q: states={len(g.states)} pairs={len(pairs)}', flush=True)


# ------------------------------------------------------------------------------------------
# RegexReplace: the replacement string of fn:replace ($N references, \\$ and \\\\ escapes)

REP_TEXT = {'%$': '\\$', '%%': '\\\\'}
LETTERS = 'abcdefghijkl'
REPLACE_CONFIGS = {
    'quick': dict(Tokens={"$", "0", "1", "2", "%$", "%%", "x"}, Groups={0, 1, 2, 10, 12}, MaxToks=4),
    'thorough': dict(Tokens={"$", "0", "1", "2", "%$", "%%", "x"}, Groups={0, 1, 2, 9, 10, 11, 12}, MaxToks=5),
}


def group_pattern(n: int) -> str:
    """a pattern with n capturing groups that matches the whole of LETTERS once: group k captures the k-th letter"""
    return ''.join('(%s)' % c if k < n else c for k, c in enumerate(LETTERS))


def replace_worker(job):
    states = job
    bag = Bag()
    for rep, valid, exp in states:
        text = ''.join(REP_TEXT.get(t, t) for t in rep)
        bag.add('replacements')
        for n, pieces in sorted(exp.items()):
            h = zlib.crc32(f'{text}|{n}'.encode())
            version = '2.0' if h % 3 == 0 else '3.1'
            res = xpath_call('replace($s,$p,$r)', version, '1.0', s=LETTERS, p=group_pattern(n), r=text)
            bag.add('evaluations')
            res = res[0] if isinstance(res, list) and len(res) == 1 else res
            if valid:
                want = ''.join(LETTERS if x == 'g0' else LETTERS[int(x[1:]) - 1] if x[0] == 'g' and len(x) > 1 else
                               '\\' if x == 'B' else x for x in pieces)
                if any(x[0] == 'g' for x in pieces) and len(pieces) > 1:
                    bag.add('nontrivial')
            else:
                want = 'error (FORX0004)'
            ok = (res == want) if valid else (isinstance(res, tuple) and res[0] == 'err')
            if not ok:
                firsts = [int(b) for a, b in zip(rep, rep[1:]) if a == '$' and b in '012']
                bag.fail(dict(kind='replace', valid=valid, groups=n, outcome='value' if isinstance(res, str) else
                              ':'.join(map(str, res)) if isinstance(res, tuple) else repr(res),
                              # a reference whose first digit alone exceeds the number of groups (stands for '')
                              missing_ref=any(d > n for d in firsts),
                              # an escaped backslash directly in front of a '$'
                              bs_before_dollar=any(a == '%%' and b == '$' for a, b in zip(rep, rep[1:]))),
                         dict(kind='replace', subject=LETTERS, pattern=group_pattern(n), replacement=text, parser=version),
                         want, res, f"replace('{LETTERS}', '{group_pattern(n)}', {text!r}) should be {want!r}")
        if len(bag.samples) < 1 and valid and len(rep) == 4 and rep[0] == '$' and rep[1] in '12' and rep[2] in '012':
            bag.samples.append(dict(replacement=text, expansion_by_group_count={n: list(p) for n, p in exp.items()}))
    return bag.result()


def jobs_replace(chk: core.Check) -> list:
    return [('RegexReplace', 'RegexReplace', REPLACE_CONFIGS[chk.tier], ['Laws'], os.path.join(chk.scratch, 'replace'))]


def run_replace(chk: core.Check, totals: dict, done: dict) -> None:
    r, dot = done['RegexReplace']
    chk.model('RegexReplace', r)
    g = tla.load_dot(dot)
    os.remove(dot)
    sts = [st for st in g.states.values() if not st['unsure']]
    totals['replace_unsure_excluded'] = len(g.states) - len(sts)
    states = sorted(((st['rep'], st['valid'], dict(st['exp'])) for st in sts), key=lambda x: x[0])
    if not any(not v for _, v, _ in states) or not any(any(p[:1] == 'g' and p != 'g0' for p in e.get(10, ())) for _, _, e in states):
        raise tla.MachineryError('RegexReplace: vacuous (no invalid replacement or no group reference)')
    submit(replace_worker, [states[k::32] for k in range(32)], lambda res: collect(chk, res, totals, 'replace'))
    chk.add('transitions', len(g.edges))
    chk.add('traces_validated_against_impl', len(states))
    print(f'  RegexReplace: states={len(g.states)} tlc={r.wall_s:.1f}s', flush=True)


def collect(chk: core.Check, results, totals: dict, part: str = '') -> None:
    for stats, fails, odis, n_odis, samples in results:
        for k, v in stats.items():
            if k in ('evaluations', 'second_oracle_evaluations'):
                chk.add(k, v)
            elif k == 'nontrivial':
                chk.add('distinct_nontrivial', v)
            else:
                totals[k] = totals.get(k, 0) + v
        totals['oracle_disagreements'] = totals.get('oracle_disagreements', 0) + n_odis
        for d in odis:
            totals.setdefault('oracle_examples', []).append(d)
        for sm in samples:
            if totals.get('_samples_' + part, 0) < 3:
                totals['_samples_' + part] = totals.get('_samples_' + part, 0) + 1
                chk.sample(sm)
        for feat, cnt, case, exp, obs, what in fails:
            chk.fail(feat, case, exp, obs, what=what)
            if cnt > 1:
                fj = core.jsonable(feat)
                for idx, kf in enumerate(chk.known):
                    if core.match_pattern(kf['fingerprint'], fj):
                        chk.known_hits[idx] = chk.known_hits.get(idx, 0) + cnt - 1
                        break
                else:
                    totals['more_unlisted_failures'] = totals.get('more_unlisted_failures', 0) + cnt - 1


def replay_case(case: dict):
    """Re-run one recorded case on the working tree; returns (still_failing, observed)."""
    kind = case['kind']
    if kind in ('class', 'ast'):
        flag, ver, mode = case.get('flag', ''), case['xsd_version'], case['mode']
        if mode == 'fn:matches':
            def m(x):
                return fn_matches(x, case['pattern'], flag, case.get('parser', '3.1'), ver)
        else:
            c = compile_pattern(case['pattern'], flag, ver, 'noanchors' if mode == 'xpath-noanchors' else mode == 'xsd')
            if isinstance(c, tuple):
                return True, c
            full = (kind == 'class' and mode == 'xpath') or case.get('which') == 'full' and mode == 'xpath'

            def m(x):
                return (c.fullmatch(x) if full else c.search(x)) is not None
        obs = {x: m(x) for x in case['should_match'] + case['should_not_match']}
        bad = any(obs[x] is not True for x in case['should_match']) or any(obs[x] is not False for x in case['should_not_match'])
        return bad, obs
    if kind == 'syntax':
        from elementpath.regex import translate_pattern, RegexError
        xp = case['mode'] != 'xsd'
        if case['stage'] == 'fn:matches':
            res = fn_matches('a', case['pattern'], '', case['parser'], case['xsd_version'])
            return None, 'accepted' if isinstance(res, bool) else ':'.join(map(str, res))
        try:
            re.compile(translate_pattern(case['pattern'], 0, case['xsd_version'], xp, xp, xp))
            return None, 'accepted'
        except RegexError:
            return None, 'RegexError'
        except re.error:
            return None, 're.error'
    if kind == 'q':
        return None, fn_matches(case['subject'], case['pattern'], 'q', '3.1')
    if kind == 'batch':
        import xml.etree.ElementTree as ET
        import elementpath
        from elementpath import XPathContext
        parsers, _ = _api()
        p, texts, flags, v, exp = case['pattern'], case['subjects'], case['flags'], case['parser'], case.get('_expected')
        if case['route'] == 'predicate':
            root = ET.Element('root')
            for t, f in zip(texts, flags):
                ET.SubElement(root, 'e', {'flags': f}).text = t
            index = {id(e): k for k, e in enumerate(root)}
            res = outcome(lambda: elementpath.select(root, '/root/e[matches(., $p, @flags)]', variables={'p': p}, parser=parsers[v]))
            got = res if isinstance(res, tuple) else sorted(index.get(id(e), -1) for e in res)
            return got != exp, got
        if case['route'] == 'parse_once':
            tok = parsers[v]().parse('matches($s, $p, $f)')
            root = ET.Element('root')
            got = [outcome(lambda: tok.evaluate(XPathContext(root, variables={'s': t, 'p': p, 'f': f}))) for t, f in zip(texts, flags)]
            return got != exp, got
        var = dict(ss=texts, pp=[p] * len(texts), ff=flags)
        out = {fn: as_list(xpath_call(expr, v, '1.0', **var)) for fn, expr in FOR_EXPR.items()}
        k = case.get('item', 0)
        got = {fn: (x[k] if len(x) > k else x) for fn, x in out.items()}
        law, fn = case['law'], case['fn']
        if law in ('membership', 'tokens', 'join'):
            return got[fn] != exp, got[fn]
        has_match = isinstance(got['analyze-string'], str) and any(x.startswith('m:') for x in got['analyze-string'].split('|'))
        return not (got['matches'] is has_match and (got['replace'] != texts[k]) is has_match), got
    if kind == 'replace':
        r = xpath_call('replace($s,$p,$r)', case['parser'], '1.0', s=case['subject'], p=case['pattern'], r=case['replacement'])
        r = r[0] if isinstance(r, list) and len(r) == 1 else r
        exp = case.get('_expected')
        return (not (isinstance(r, tuple) and r[0] == 'err')) if exp == 'error (FORX0004)' else (r != exp), r
    if kind == 'fns':
        v, p, t, f, ver = case['parser'], case['pattern'], case['subject'], case['flag'], case['xsd_version']
        fn, law, exp = case['fn'], case.get('law'), case.get('_expected')

        def is_err(x):
            return isinstance(x, tuple) and len(x) > 0 and x[0] in ('err', 'escaped')
        if fn == 'matches':
            r = fn_matches(t, p, f, v, ver)
            return r is not exp, r
        if fn == 'tokenize':
            r = xpath_call('tokenize($s,$p,$f)', v, ver, s=t, p=p, f=f)
            if law == 'nullable-error':
                return not (is_err(r) and r[0] == 'err'), r
            r = r if is_err(r) else list(as_list(r))
            return r not in exp, r
        if fn == 'replace':
            r = xpath_call("replace($s,$p,'%s',$f)" % ('X' if law == 'join' else '$0'), v, ver, s=t, p=p, f=f)
            if law == 'nullable-error':
                return not (is_err(r) and r[0] == 'err'), r
            r = r[0] if isinstance(r, list) and len(r) == 1 else r
            return (r not in exp) if law == 'join' else (r != t), r
        if law == 'groups':

            parsers, root = _api()
            res = outcome(lambda: elementpath.select(root, 'analyze-string($s,$p,$f)', variables=dict(s=t, p=p, f=f), parser=parsers[v]))
            el = res[0] if isinstance(res, list) and res else res
            if not hasattr(el, 'iter'):
                return True, res
            pos, grs, wrong = 0, [], False
            for part in el:
                plen = len(''.join(part.itertext()))
                if part.tag.endswith('}match'):
                    for nr, parent, a, b in group_elements(part, pos):
                        grs.append([nr, parent, a, b])
                        g = exp[nr - 1] if 1 <= nr <= len(exp) else None
                        wrong = wrong or g is None or parent != g['parent'] or [a, b] not in g['spans']
                pos += plen
            return wrong or len({g[0] for g in grs}) < len(grs) and False, grs
        r = xpath_call('for $e in analyze-string($s,$p,$f)/* return (local-name($e), string-join($e/descendant-or-self::node()/text(), ""))', v, ver, s=t, p=p, f=f)
        if law == 'nullable-error':
            return not (is_err(r) and r[0] == 'err'), r
        if is_err(r):
            return True, r
        r = as_list(r)
        pos, parts = 0, []
        for k, x in zip(r[0::2], r[1::2]):
            parts.append(['m' if k == 'match' else 'n', pos, pos + len(x)])
            pos += len(x)
        if law == 'concat':
            return ''.join(r[1::2]) != t, r
        return parts not in exp, parts
    raise tla.MachineryError(f'unknown case kind {kind!r}')


def replay(rec: dict) -> int:
    core.setup_repo_path()
    case = dict(rec['case'], _expected=rec['expected'])
    bad, obs = replay_case(case)
    case.pop('_expected')
    print('case     :', case)
    print('what     :', rec.get('what'))
    print('expected :', rec['expected'])
    print('recorded :', rec['observed'])
    print('observed :', obs)
    if bad is None:
        bad = core.jsonable(obs) != rec['expected']      # syntax / q cases: expected outcome recorded verbatim
    if bad:
        print('VIOLATION property=C12 replay=(replayed)')
        return 1
    return 0


def run(chk: core.Check) -> None:
    core.setup_repo_path()
    chk.assumptions += [
        'specification spec/Regex.tla (+ RegexClass, RegexAst, RegexFns, RegexSyntax) is the oracle; Python re on the natively '
        'supported fragment and unicodedata.category must agree with it on every vector (else exit 2)',
        'alphabet of 9 representative characters (newline, space, -, 5, A, _, a, b, U+1F600); each escape is the set of '
        'alphabet members it contains; subjects and patterns bounded as listed in coverage.configs',
        'match selection (greedy / lazy extents, which alternative) is not specified: membership, leftmost start and the '
        'partition / tokenize / replace laws only',
        'flag i: only the pair a/A, no ranges and no escapes inside classes; flag x: patterns without literal blanks; '
        "XSD 1.1: position of an unescaped '-' in a class not judged (RegexSyntax.unsure)",
        'invalid patterns: translate_pattern must raise RegexError, fn:matches must raise FORX0002',
    ]
    totals: dict = {}
    parts = os.environ.get('C12_PARTS', 'class,ast,fns,batch,replace,syntax').split(',')      # development aid only
    plan = [('class', jobs_classes, run_classes), ('ast', jobs_asts, run_asts), ('fns', jobs_fns, run_fns),
            ('batch', jobs_batch, run_batch),
            ('replace', jobs_replace, run_replace), ('syntax', jobs_syntax, run_syntax)]
    plan = [p for p in plan if p[0] in parts]
    # all TLC models first (TLC_PAR JVMs at a time), then the replays
    done = tlc_batch([j for _, jobs, _ in plan for j in jobs(chk)], chk.tier)
    t1 = time.time()
    for _, _, go in plan:
        go(chk, totals, done)
    t2 = time.time()
    flush()
    print(f'  phases: tlc={t1 - chk.t0:.1f}s load={t2 - t1:.1f}s replay={time.time() - t2:.1f}s', flush=True)
    chk.coverage['details'] = {k: (round(v, 1) if isinstance(v, float) else v) for k, v in totals.items() if k != 'oracle_examples' and not k.startswith('_')}
    chk.coverage['configs'] = {
        'RegexClass': [dict(name=n, xsd_version=v, **{k: (sorted(x) if isinstance(x, set) else x) for k, x in c.items()})
                       for n, v, c, _, _ in CLASS_CONFIGS[chk.tier]],
        'RegexAst': [dict(name=n, flag=f, xsd_version=v, **{k: (sorted(x) if isinstance(x, set) else x) for k, x in c.items()})
                     for n, f, v, c, _, _ in AST_CONFIGS[chk.tier]],
        'RegexFns': [dict(name=n, flag=f, **{k: (sorted(x) if isinstance(x, set) else x) for k, x in c.items()})
                     for n, f, c, *_ in FNS_CONFIGS[chk.tier]],
        'RegexReplace': [{k: (sorted(x) if isinstance(x, set) else x) for k, x in REPLACE_CONFIGS[chk.tier].items()}],
        'RegexSyntax': [dict(name=n, mode=m, xsd_version=v, tokens=sorted(t), first=sorted(fi), max_tokens=k)
                        for n, m, v, t, fi, k, _ in SYNTAX_CONFIGS[chk.tier]],
    }
    chk.coverage['exhaustive'] = True
    chk.coverage['sampling'] = ('every state is replayed through translate_pattern + re (XPath mode); the slower routes are taken on a '
                                'deterministic crc32 subset: fn:matches through the XPath parsers on 1/n of the classes / patterns '
                                '(n per config, see CLASS_CONFIGS / AST_CONFIGS), XSD-mode translation on 1/n of the classes; '
                                'RegexFns and RegexSyntax states all go through the XPath functions')
    chk.coverage['rule'] = ('every state of the dumped TLC graphs is one case: a class expression with its exact character set; '
                            'a pattern AST with its membership for every subject of the universe (search and full match); a '
                            '(pattern, input) pair with its admissible partitions; a replacement string with its expansion per group count; '
                            'a token string with its validity. '
                            'evaluations = single match / API calls on the implementation; non-trivial = class that is neither '
                            'empty nor universal, pattern with both matching and non-matching subjects, partition with > 1 part, '
                            'valid token string of > 1 token')
    if totals.get('oracle_disagreements'):
        raise tla.MachineryError(f"specification and second oracle disagree on {totals['oracle_disagreements']} "
                                 f"vectors, e.g. {totals['oracle_examples'][:3]}")
