"""C12 -- XSD/XPath regular expressions translate to Python regexes with the same language.

Specifications (all expected values come out of TLC, as the dumped state graphs):
  spec/Regex.tla        definitional semantics over a 9-character alphabet (class algebra as set
                        algebra, positional matching M, Brzozowski derivatives as second definition)
  spec/RegexNames.tla   named constructors (cfg files cannot hold records)
  spec/RegexClass.tla   step machine building a character class (AddItem* Negate? Subtract?) with the
                        definitional denotation `den` and the implementation-shaped (positive, negative)
                        pair; refinement invariant; Variant pinned / fixed
  spec/RegexAst.tla     value-state machine over pattern ASTs: state = (r, full, found)
  spec/RegexFns.tla     (pattern, growing input): matches / tokenize / replace / analyze-string laws,
                        `adm` = admissible partitions
  spec/RegexSyntax.tla  recogniser of valid token strings, flag q literal sub-string relation

Binding A (this module): AST -> pattern text (dumb renderer) -> elementpath.regex.translate_pattern
-> re.compile -> fullmatch / search, and select(root, 'matches($s,$p,$f)') with the XPath 2.0 / 3.1
parsers; invalid token strings must raise RegexError (FORX0002 through fn:matches); the partition
laws of analyze-string / tokenize / replace are checked on the implementation's own outputs, the
admissible partitions and all language membership coming from TLC.
Second oracle for the SPEC: Python `re` on the fragment it supports natively with identical meaning,
and `unicodedata.category` for the category table; disagreement = MachineryError.

Outside (not specified, excluded from the vectors): which substring is matched (greedy/lazy extents);
Unicode category membership beyond the nine characters; case-insensitive matching beyond a/A and the
effect of flag i on escapes inside classes; position of an unescaped '-' in a class under XSD 1.1;
Python-only syntax met through flag x ('#' comments).
"""
from __future__ import annotations

import os
import re
import time
import unicodedata
import zlib

from .. import core, tla

# ------------------------------------------------------------------------------------------
# binding table: abstract characters -> concrete characters (code point order, see Regex.tla)
CH = {1: '\n', 2: ' ', 3: '-', 4: '5', 5: 'A', 6: '_', 7: 'a', 8: 'b', 9: '\U0001F600'}
CHNAME = {1: 'NL', 2: 'SP', 3: 'HY', 4: '5', 5: 'A', 6: '_', 7: 'a', 8: 'b', 9: 'AS'}
SIGMA = tuple(range(1, 10))
MINOR = ("Cc", "Zs", "Pd", "Nd", "Lu", "Pc", "Ll", "Ll", "So")     # must equal Regex!Minor
TLC_WORKERS = 8
PROCS = 8
RE_FLAGS = {'': 0, 's': re.S, 'm': re.M, 'i': re.I, 'x': re.X}


def subj(t) -> str:
    return ''.join(CH[c] for c in t)


def pat_char(c: int, in_class: bool, native: bool = False) -> str:
    if c == 1:
        return '\\n'
    if c == 3 and in_class:
        return '\\-'
    return CH[c]


def render_esc(e: str, cat: str) -> str:
    return '\\%s{%s}' % (e, cat) if e in 'pP' else '\\' + e


def render_class(cl, native: bool = False) -> str:
    """Class AST -> text.  native=True renders for Python's re (subtraction as a lookahead)."""
    out = ['[', '^' if cl['neg'] else '']
    for it in cl['items']:
        if it['k'] == 'c':
            out.append(pat_char(it['c'], True))
        elif it['k'] == 'r':
            out.append(pat_char(it['lo'], True) + '-' + pat_char(it['hi'], True))
        else:
            out.append(render_esc(it['e'], it['cat']))
    if cl['sub']:
        if native:
            return '(?!' + render_class(cl['sub'][0], True) + ')' + ''.join(out) + ']'
        out.append('-' + render_class(cl['sub'][0]))
    out.append(']')
    return ''.join(out)


class Renderer:
    """Dumb 1:1 renderer AST -> token list.  ncg: text used to open a non-capturing group (needed
    only where the grammar needs parentheses that the AST does not have)."""

    def __init__(self, ncg: str = '(?:', native: bool = False):
        self.ncg = ncg
        self.native = native
        self.groups = 0

    def open_nc(self) -> str:
        if self.ncg == '(':
            self.groups += 1
        return self.ncg

    def atomic(self, r) -> list:
        """tokens of r as ONE quantifiable atom"""
        t = r['t']
        if t in ('chr', 'any', 'esc', 'cls', 'grp', 'bol', 'eol'):
            return self.toks(r)
        return [self.open_nc()] + self.toks(r) + [')']

    def toks(self, r) -> list:
        t = r['t']
        if t == 'chr':
            return [pat_char(r['c'], False)]
        if t == 'any':
            return ['.']
        if t == 'esc':
            return [render_esc(r['e'], r['cat'])]
        if t == 'cls':
            return [render_class(r, self.native)] if not (self.native and r['sub']) else \
                ['(?:' + render_class(r, True) + ')']
        if t == 'bol':
            return ['^']
        if t == 'eol':
            return ['$']
        if t == 'cat':
            out = []
            for x in (r['l'], r['r']):
                out += ([self.open_nc()] + self.toks(x) + [')']) if x['t'] == 'alt' else self.toks(x)
            return out
        if t == 'alt':
            return self.toks(r['l']) + ['|'] + self.toks(r['r'])
        if t in ('star', 'plus', 'opt', 'rep'):
            a = self.atomic(r['r'])
            if t == 'rep':
                n, m = r['n'], r['m']
                q = '{%d}' % n if n == m else ('{%d,}' % n if m == 99 else '{%d,%d}' % (n, m))
            else:
                q = {'star': '*', 'plus': '+', 'opt': '?'}[t]
            return a + [q + ('?' if r['lazy'] else '')]
        if t == 'grp':
            self.groups += 1
            return ['('] + self.toks(r['r']) + [')']
        if t == 'dup':
            self.groups += 1
            k = self.groups
            return ['('] + self.toks(r['r']) + [')', '\\%d' % k]
        raise tla.MachineryError(f'cannot render AST node {t!r}')


def render(r, ncg: str = '(?:', sep: str = '', native: bool = False) -> str:
    return sep.join(Renderer(ncg, native).toks(r))


def walk(r):
    yield r
    for k in ('l', 'r'):
        if k in r and isinstance(r[k], dict):
            yield from walk(r[k])


def atom_tag(a) -> str:
    t = a['t']
    if t == 'chr':
        return 'chr:' + CHNAME[a['c']]
    if t == 'esc':
        return 'esc:' + a['e'] + (':' + a['cat'] if a['cat'] else '')
    if t == 'cls':
        return 'cls:' + render_class(a)
    return t


def atom_tags(r) -> list:
    return sorted({atom_tag(x) for x in walk(r) if x['t'] in ('chr', 'any', 'esc', 'cls', 'bol', 'eol')})


def node_types(r) -> set:
    return {x['t'] + ('L' if x.get('lazy') else '') for x in walk(r)}


def depth(r) -> int:
    ds = [depth(r[k]) for k in ('l', 'r') if k in r and isinstance(r[k], dict)]
    return 1 + max(ds) if ds else 0


# ------------------------------------------------------------------------------------------
# calling the implementation (public API only)

_PARSERS = None
_ROOT = None


def _api():
    global _PARSERS, _ROOT
    if _PARSERS is None:
        import xml.etree.ElementTree as ET
        from elementpath import XPath2Parser
        from elementpath.xpath30 import XPath30Parser
        from elementpath.xpath31 import XPath31Parser
        _PARSERS = {'2.0': XPath2Parser, '3.0': XPath30Parser, '3.1': XPath31Parser}
        _ROOT = ET.XML('<r/>')
    return _PARSERS, _ROOT


def outcome(fn):
    """value | ('err', code) | ('escaped', class name)"""
    from elementpath.exceptions import ElementPathError
    from elementpath.regex import RegexError
    try:
        return fn()
    except ElementPathError as e:
        return ('err', (getattr(e, 'code', None) or '').split(':')[-1])
    except RegexError:
        return ('err', 'RegexError')
    except re.error:
        return ('err', 're.error')
    except Exception as e:  # noqa
        return ('escaped', type(e).__name__)


def compile_pattern(p: str, flag: str, ver: str, xsd_mode: bool):
    """translate_pattern + re.compile -> compiled pattern or ('err'|'escaped', ..)"""
    from elementpath.regex import translate_pattern
    fl = RE_FLAGS[flag]

    def go():
        if xsd_mode:
            py = translate_pattern(p, fl, ver, False, False, False)
        else:
            py = translate_pattern(p, fl, ver)
        return re.compile(py, fl)
    return outcome(go)


def xpath_call(expr: str, version: str, ver: str = '1.0', **variables):
    import elementpath
    parsers, root = _api()

    def go():
        kw = {'xsd_version': ver} if ver != '1.0' else {}
        return elementpath.select(root, expr, variables=variables, parser=parsers[version], **kw)
    return outcome(go)


def fn_matches(s: str, p: str, flag: str, version: str, ver: str = '1.0'):
    r = xpath_call('matches($s,$p,$f)', version, ver, s=s, p=p, f=flag)
    if isinstance(r, list) and len(r) == 1:
        return r[0]
    return r


# ------------------------------------------------------------------------------------------
# failure bookkeeping inside workers: one entry per feature class (first instance + count)

class Bag:
    def __init__(self):
        self.d: dict = {}
        self.stats: dict = {}
        self.oracle: list = []
        self.samples: list = []

    def add(self, key: str, n: int = 1):
        self.stats[key] = self.stats.get(key, 0) + n

    def fail(self, feat: dict, case: dict, expected, observed, what: str):
        key = tuple(sorted((k, str(v)) for k, v in feat.items()))
        e = self.d.get(key)
        if e is None:
            self.d[key] = [feat, 1, case, expected, observed, what]
        else:
            e[1] += 1

    def result(self):
        return self.stats, list(self.d.values()), self.oracle[:5], len(self.oracle), self.samples[:3]


def names(chars) -> str:
    return ','.join(CHNAME[c] for c in sorted(chars))


def char_set(c, xsd_mode: bool):
    """set of alphabet characters matched as a whole string by a compiled pattern"""
    if isinstance(c, tuple):
        return c
    if xsd_mode:
        return frozenset(ch for ch in SIGMA if c.search(CH[ch]) is not None)
    return frozenset(ch for ch in SIGMA if c.fullmatch(CH[ch]) is not None)


# ------------------------------------------------------------------------------------------
# RegexClass: every class expression of the graph

NATIVE_ESC = {'d', 'D', 's', 'S'}


def class_features(cl, ver: str, mode: str, den, obs, pinned) -> dict:
    def grp(c):
        negesc = sum(1 for it in c['items'] if it['k'] == 'e' and it['e'].isupper())
        posit = any(not (it['k'] == 'e' and it['e'].isupper()) for it in c['items'])
        return ('0', '1', '2+')[min(negesc, 2)], posit
    ne, po = grp(cl)
    f = dict(kind='class', mode=mode, xsd_version=ver, negated=cl['neg'], negesc=ne, posit=po, sub='none')
    if cl['sub']:
        s = cl['sub'][0]
        sne, spo = grp(s)
        f.update(sub='neg' if s['neg'] else 'pos', sub_negesc=sne, sub_posit=spo)
    escs = {it['e'].lower() for c in ([cl] + list(cl['sub'])) for it in c['items'] if it['k'] == 'e'}
    f['esc_ic'] = bool(escs & {'i', 'c'})
    if isinstance(obs, tuple):
        f['outcome'] = ':'.join(map(str, obs))
    else:
        f['outcome'] = 'extra' if obs > den else 'missing' if obs < den else 'wrong'
        f['diff'] = names(obs ^ den)
        f['pinned_model'] = 'agrees' if (pinned is not None and obs == pinned and pinned != den) else 'differs'
    return f


def class_worker(job):
    ver, states, fn_mod = job
    bag = Bag()
    for idx, (cl, den, pinned) in enumerate(states):
        text = render_class(cl)
        case0 = dict(kind='class', pattern=text, xsd_version=ver)
        bag.add('classes')
        if den and den != frozenset(SIGMA):
            bag.add('nontrivial')
        for mode in ('xpath', 'xsd'):
            obs = char_set(compile_pattern(text, '', ver, mode == 'xsd'), mode == 'xsd')
            bag.add('evaluations', 9)
            if obs != den:
                bag.fail(class_features(cl, ver, mode, den, obs, pinned), dict(case0, mode=mode),
                         names(den), obs if isinstance(obs, tuple) else names(obs),
                         f'{text} ({mode}, XSD {ver}) should match exactly {{{names(den)}}}')
        if fn_mod and (zlib.crc32(text.encode()) % fn_mod == 0):
            for version in ('2.0', '3.1'):
                got = set()
                err = None
                for ch in SIGMA:
                    r = fn_matches(CH[ch], text, '', version, ver)
                    bag.add('evaluations')
                    if r is True:
                        got.add(ch)
                    elif r is not False:
                        err = r
                obs = err if err is not None else frozenset(got)
                if obs != den:
                    bag.fail(class_features(cl, ver, 'fn:matches', den, obs, pinned),
                             dict(case0, mode='fn:matches', parser=version), names(den),
                             obs if isinstance(obs, tuple) else names(obs),
                             f"matches($c, '{text}') (XPath {version}, XSD {ver}) should hold exactly for {{{names(den)}}}")
        # second oracle for the SPEC: Python's re on natively supported classes
        groups = [cl] + list(cl['sub'])
        if all(it['k'] != 'e' or it['e'] in NATIVE_ESC for g in groups for it in g['items']):
            nat = re.compile(render_class(cl, native=True))
            nset = frozenset(ch for ch in SIGMA if nat.fullmatch(CH[ch]))
            bag.add('second_oracle_evaluations', 9)
            if nset != den:
                bag.oracle.append(dict(pattern=text, native=nat.pattern, spec=names(den), re=names(nset)))
        if len(cl['items']) == 1 and not cl['neg'] and not cl['sub'] and cl['items'][0]['k'] == 'e' \
                and cl['items'][0]['e'] == 'p':
            cat = cl['items'][0]['cat']
            uset = frozenset(ch for ch in SIGMA if unicodedata.category(CH[ch]).startswith(cat))
            bag.add('second_oracle_evaluations', 9)
            if uset != den:
                bag.oracle.append(dict(pattern=text, spec=names(den), unicodedata=names(uset)))
        if len(bag.samples) < 2 and cl['sub'] and cl['neg'] and den:
            bag.samples.append(dict(pattern=text, xsd_version=ver, matches_exactly=names(den)))
    return bag.result()


def class_key(st):
    return (st['items'], st['neg'], st['sub'])


ALL_ITEMS = {"NL", "SP", "HY", "5", "A", "_", "a", "b", "AS", "a-b", "A-a", "5-A", "SP-5",
             "d", "D", "s", "S", "w", "W", "i", "I", "c", "C",
             "pL", "PL", "pLu", "PLu", "pNd", "pP", "PP", "pZs", "pS", "PS", "pCc"}

CLASS_CONFIGS = {
    'quick': [
        ('items', '1.0', dict(ItemNames=ALL_ITEMS, ItemNames3={"a", "5", "NL", "D", "S", "d", "A-a", "PL"},
                              SubNames=set(), MaxItems=3, MaxSubItems=1), 4),
        ('items11', '1.1', dict(ItemNames=ALL_ITEMS, ItemNames3=set(), SubNames=set(), MaxItems=2, MaxSubItems=1), 8),
        ('sub', '1.0', dict(ItemNames={"a", "b", "5", "NL", "AS", "a-b", "5-A", "d", "D", "S", "w", "PL"},
                            ItemNames3=set(), SubNames={"a", "5", "d", "D", "S", "a-b"}, MaxItems=2, MaxSubItems=2), 16),
    ],
    'thorough': [
        ('items', '1.0', dict(ItemNames=ALL_ITEMS | {"pLl", "PLl", "PNd", "pN", "PN", "pPd", "PPd", "pPc", "pZ", "PZ",
                                                      "pC", "PC", "PCc", "pSo", "PSo", "NL-AS", "_-AS", "a-a"},
                              ItemNames3={"a", "5", "NL", "AS", "HY", "D", "S", "W", "d", "s", "A-a", "PL", "pLu", "I", "c"},
                              SubNames=set(), MaxItems=3, MaxSubItems=1), 2),
        ('items11', '1.1', dict(ItemNames=ALL_ITEMS, ItemNames3={"a", "AS", "i", "I", "c", "C", "D", "d"},
                                SubNames=set(), MaxItems=3, MaxSubItems=1), 4),
        ('sub', '1.0', dict(ItemNames={"a", "b", "5", "NL", "AS", "HY", "a-b", "5-A", "d", "D", "S", "W", "w", "PL", "pLu", "i", "C"},
                            ItemNames3=set(), SubNames={"a", "5", "NL", "d", "D", "S", "W", "a-b", "PL", "i"},
                            MaxItems=2, MaxSubItems=2), 8),
        ('sub11', '1.1', dict(ItemNames={"a", "AS", "5", "d", "D", "i", "I", "c", "C", "w"}, ItemNames3=set(),
                              SubNames={"a", "AS", "D", "i", "C"}, MaxItems=2, MaxSubItems=2), 8),
    ],
}


def run_classes(chk: core.Check, totals: dict) -> None:
    for name, ver, consts, fn_mod in CLASS_CONFIGS[chk.tier]:
        graphs = {}
        for variant in ('fixed', 'pinned'):
            wd = os.path.join(chk.scratch, f'class-{name}-{variant}')
            dot = os.path.join(wd, 'g.dot')
            c = dict(XsdVersion=ver, Flag="", Variant=variant, **consts)
            invs = ['Laws', 'Refines'] if variant == 'fixed' else ['Laws']
            r = tla.require_ok(tla.run_tlc('RegexClass', tla.cfg_text(c, spec='Spec', invariants=invs), wd,
                                           dump_dot=dot, workers=TLC_WORKERS), f'RegexClass/{name}/{variant}')
            if variant == 'fixed':
                chk.model(f'RegexClass/{name}', r)
            graphs[variant] = tla.load_dot(dot)
            os.remove(dot)
        g = graphs['fixed']
        pin = {class_key(st): (frozenset(st['ipos']) | (frozenset(SIGMA) - frozenset(st['ineg']))
                               if st['ineg'] else frozenset(st['ipos']))
               for st in graphs['pinned'].states.values()}
        refuted = sum(1 for st in g.states.values() if st['items'] and pin[class_key(st)] != frozenset(st['den']))
        totals['pinned_model_refuted_states'] = totals.get('pinned_model_refuted_states', 0) + refuted
        states = [(dict(items=st['items'], neg=st['neg'], sub=st['sub']), frozenset(st['den']), pin[class_key(st)])
                  for st in g.states.values() if st['items']]
        states.sort(key=lambda x: render_class(x[0]))
        t0 = time.time()
        jobs = [(ver, ch, fn_mod) for ch in core.chunked(states, 64)]
        collect(chk, core.pool_map(class_worker, jobs, procs=PROCS), totals)
        chk.add('transitions', len(g.edges))
        chk.add('traces_validated_against_impl', len(states))
        print(f'  RegexClass/{name}: states={len(g.states)} pinned-model-refuted={refuted} '
              f'replay={time.time() - t0:.1f}s', flush=True)


def collect(chk: core.Check, results, totals: dict) -> None:
    for stats, fails, odis, n_odis, samples in results:
        for k, v in stats.items():
            if k in ('evaluations', 'second_oracle_evaluations'):
                chk.add(k, v)
            elif k == 'nontrivial':
                chk.add('distinct_nontrivial', v)
            else:
                totals[k] = totals.get(k, 0) + v
        totals['oracle_disagreements'] = totals.get('oracle_disagreements', 0) + n_odis
        for d in odis:
            totals.setdefault('oracle_examples', []).append(d)
        for sm in samples:
            chk.sample(sm)
        for feat, cnt, case, exp, obs, what in fails:
            chk.fail(feat, case, exp, obs, what=what)
            if cnt > 1:
                fj = core.jsonable(feat)
                for idx, kf in enumerate(chk.known):
                    if core.match_pattern(kf['fingerprint'], fj):
                        chk.known_hits[idx] = chk.known_hits.get(idx, 0) + cnt - 1
                        break
                else:
                    totals['more_unlisted_failures'] = totals.get('more_unlisted_failures', 0) + cnt - 1


def run(chk: core.Check) -> None:
    core.setup_repo_path()
    totals: dict = {}
    run_classes(chk, totals)
    chk.coverage['details'] = {k: v for k, v in totals.items() if k != 'oracle_examples'}
    if totals.get('oracle_disagreements'):
        raise tla.MachineryError(f"specification and second oracle disagree on {totals['oracle_disagreements']} "
                                 f"vectors, e.g. {totals['oracle_examples'][:3]}")
