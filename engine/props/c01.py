"""C01 -- path expressions select exactly the XDM-defined nodes, once, in document order.

Spec: spec/XDM.tla + spec/Paths.tla.  TLC enumerates every tree of the bounded universe and
closes the (tree, current node set) graph under every step / predicate / '//' / '(E)[p]'
construct; the labelled graph is dumped and EVERY transition is replayed on the real code:
the path text leading to the source state (BFS prefix through transitions that passed) plus
the step, evaluated with Selector.select / select / iter_select on xml.etree and lxml trees
with the 1.0, 2.0, 3.0 and 3.1 parsers, and with libxml2 as second oracle.
"""
from __future__ import annotations

import os
import random
import time
from collections import deque

from .. import core, tla
from ..xmlbind import Doc, NS

AXES = ["self", "child", "attribute", "parent", "ancestor", "ancestor-or-self", "descendant",
        "descendant-or-self", "following-sibling", "preceding-sibling", "following", "preceding"]

CONFIGS = {
    'quick': [
        # name, constants
        ('N1', dict(N=1, Kinds={"ea", "eb"}, RootCfg="R1", Axes=set(AXES),
                    Tests={"node()", "*", "a", "text()"}, Preds={"1", "last()"}, ParenPreds={"1"}, Preds2=set(), DocSibs=False, NsTests=set())),
        ('N2', dict(N=2, Kinds={"ea", "eb", "t", "c", "p", "xa"}, RootCfg="R1", Axes=set(AXES),
                    Tests={"node()", "*", "a", "b", "text()", "comment()", "processing-instruction()"},
                    Preds={"0", "1", "2", "last()", "b"}, ParenPreds={"0", "1", "2", "last()"},
                    Preds2=set(), DocSibs=False, NsTests=set())),
        ('N3', dict(Rotate=True, N=3, Kinds={"ea", "eb", "t", "c", "p", "xa"}, RootCfg="R1", Axes=set(AXES),
                    Tests={"node()", "*", "a", "b", "text()", "comment()", "processing-instruction()"},
                    Preds={"1", "2", "last()", "b"}, ParenPreds={"1", "2", "last()"}, Preds2=set(), DocSibs=False, NsTests=set())),
        ('N3-R2', dict(N=3, Kinds={"ea", "eb", "t", "xa"}, RootCfg="R2", Axes=set(AXES),
                       Tests={"node()", "*", "a", "text()"}, Preds={"1", "last()"}, ParenPreds={"last()"}, Preds2=set(), DocSibs=False, NsTests=set())),
        ('N3-R3', dict(N=3, Kinds={"ea", "eb", "t", "xa"}, RootCfg="R3", Axes=set(AXES),
                       Tests={"node()", "*", "a", "text()"}, Preds={"1", "last()"}, ParenPreds={"last()"}, Preds2=set(), DocSibs=False, NsTests=set())),
        ('N4', dict(Rotate=True, N=4, Kinds={"ea", "eb", "t"}, RootCfg="R1", Axes=set(AXES),
                    Tests={"node()", "*", "a", "text()"}, Preds={"2"}, ParenPreds={"2"}, Preds2=set(), DocSibs=False, NsTests=set())),
        # namespaced names: prefix:name, prefix:*, *:name tests (urn:x is a string prefix of urn:x-y)
        ('N3-NS', dict(N=3, Kinds={"ea", "en", "em", "xn"}, RootCfg="R1",
                       Axes={"self", "child", "attribute", "parent", "descendant", "descendant-or-self"},
                       Tests={"node()", "*", "a", "p:a", "p:*", "q:*", "*:a"}, Preds=set(), ParenPreds=set(), Preds2=set(), DocSibs=False,
                       NsTests={"*", "p", "r", "xml", "node()"})),
        # lxml documents with comments / PIs before and after the document element
        ('N3-DS', dict(N=3, Kinds={"ea", "eb", "c", "p", "t"}, RootCfg="R1", Axes=set(AXES),
                       Tests={"node()", "*", "comment()"}, Preds={"1"},
                       ParenPreds=set(), Preds2=set(), DocSibs=True, NsTests=set())),
        # boundary positions (0, size, size-1, beyond size) on every axis and on parenthesised sub-paths
        ('N3-POS', dict(N=3, Kinds={"ea", "eb", "t"}, RootCfg="R1", Axes=set(AXES) - {"attribute"},
                        Tests={"node()", "*"}, Preds={"0", "3", "1.5", "last() div 2", "last()-1", "position()>1"},
                        ParenPreds={"0", "3", "1.5", "last() div 2", "last()-1"},
                        Preds2=set(), DocSibs=False, NsTests=set())),
        # E/(axis::test)[n]: a parenthesised step inside a path is numbered in document order (2.0+ parsers)
        ('N3-PS', dict(N=3, Kinds={"ea", "eb", "t"}, RootCfg="R1", Axes=set(AXES) - {"attribute"},
                       Tests={"node()", "*"}, Preds=set(), ParenPreds={"step:1", "step:2", "step:last()"},
                       Preds2={"position()<3", "b"}, DocSibs=False, NsTests=set())),
        # XPath 2.0 kind tests, processing-instruction with a target, 3.0 braced URI literals
        ('N3-KT', dict(N=3, Kinds={"ea", "eb", "en", "t", "p", "xa", "xn"}, RootCfg="R1",
                       Axes={"self", "child", "attribute", "parent", "ancestor-or-self", "descendant", "descendant-or-self",
                             "following", "preceding-sibling"},
                       Tests={"node()", "element()", "element(*)", "element(a)", "element(p:a)", "attribute()", "attribute(*)",
                              "attribute(a)", "document-node()", "document-node(element(a))", "processing-instruction('p')",
                              "processing-instruction(p)", "processing-instruction(zz)", "Q{urn:x}a", "Q{urn:x}*", "Q{}a",
                              "namespace-node()"},
                       Preds=set(), ParenPreds=set(), Preds2=set(), DocSibs=False, NsTests=set())),
        # unprefixed name tests under a default element namespace of the static context (2.0+ parsers)
        ('N3-DNS', dict(N=3, Kinds={"ea", "en", "em", "xa"}, RootCfg="R1",
                        Axes={"self", "child", "attribute", "parent", "descendant-or-self"},
                        Tests={"*", "dns:a", "dns:b", "p:a", "*:a"}, Preds={"1"}, ParenPreds=set(), Preds2=set(),
                        DocSibs=False, NsTests=set())),
        # steps with TWO predicates: the second numbers the survivors of the first along the axis
        ('N3-P2', dict(N=3, Kinds={"ea", "eb", "t"}, RootCfg="R1",
                       Axes={"child", "descendant", "ancestor", "ancestor-or-self", "preceding", "preceding-sibling",
                             "following", "following-sibling"},
                       Tests={"node()", "*"}, Preds=set(), ParenPreds=set(), Preds2={"position()<3", "b"}, DocSibs=False, NsTests=set())),
    ],
    'thorough': [
        ('N3-full', dict(N=3, Kinds={"ea", "eb", "t", "c", "p", "xa", "xc"}, RootCfg="R1", Axes=set(AXES),
                         Tests={"node()", "*", "a", "b", "c", "text()", "comment()", "processing-instruction()"},
                         Preds={"1", "last()", "position()<2", "@a", "not(b)"},
                         ParenPreds={"1", "2", "last()", "b"}, Preds2=set(), DocSibs=False, NsTests=set())),
        ('N4-R1', dict(N=4, Kinds={"ea", "eb", "t", "xa"}, RootCfg="R1", Axes=set(AXES),
                       Tests={"node()", "*", "a", "text()"},
                       Preds={"2", "last()"}, ParenPreds={"last()"}, Preds2=set(), DocSibs=False, NsTests=set())),
        ('N4-R2', dict(N=4, Kinds={"ea", "eb", "t", "xa"}, RootCfg="R2", Axes=set(AXES),
                       Tests={"node()", "*", "a", "text()"}, Preds={"1", "2", "last()"}, ParenPreds={"last()"}, Preds2=set(), DocSibs=False, NsTests=set())),
        ('N4-R3', dict(N=4, Kinds={"ea", "eb", "t", "xa"}, RootCfg="R3", Axes=set(AXES),
                       Tests={"node()", "*", "a", "text()"}, Preds={"1", "2", "last()"}, ParenPreds={"last()"}, Preds2=set(), DocSibs=False, NsTests=set())),
        ('N4-P2', dict(N=4, Kinds={"ea", "eb", "t"}, RootCfg="R1",
                       Axes={"child", "descendant", "ancestor", "ancestor-or-self", "preceding", "preceding-sibling",
                             "following", "following-sibling"},
                       Tests={"node()", "*"}, Preds=set(), ParenPreds=set(), Preds2={"position()<3", "b"}, DocSibs=False, NsTests=set())),
        ('N3-NS-full', dict(N=3, Kinds={"ea", "en", "em", "xn", "xa", "t"}, RootCfg="R1", Axes=set(AXES),
                            Tests={"node()", "*", "a", "p:a", "p:*", "q:a", "q:*", "*:a"}, Preds={"1", "last()"},
                            ParenPreds=set(), Preds2=set(), DocSibs=False, NsTests=set())),
        ('N4-DS', dict(N=4, Kinds={"ea", "eb", "c", "t"}, RootCfg="R1", Axes=set(AXES),
                       Tests={"node()", "*", "comment()"}, Preds={"1"},
                       ParenPreds=set(), Preds2=set(), DocSibs=True, NsTests=set())),
        ('N5', dict(N=5, Kinds={"ea", "eb", "t"}, RootCfg="R1", Axes=set(AXES) - {"attribute"},
                    Tests={"node()", "*"}, Preds=set(), ParenPreds=set(), Preds2=set(), DocSibs=False, NsTests=set())),
    ],
}

PARSERS = None  # filled in worker


def _parsers():
    global PARSERS
    if PARSERS is None:
        from elementpath import XPath1Parser, XPath2Parser
        from elementpath.xpath30 import XPath30Parser
        from elementpath.xpath31 import XPath31Parser
        PARSERS = {'1.0': XPath1Parser, '2.0': XPath2Parser, '3.0': XPath30Parser, '3.1': XPath31Parser}
    return PARSERS


XML_NS = 'http://www.w3.org/XML/1998/namespace'
NS_URI = dict(NS, xml=XML_NS, r='urn:x')


DNS_MARK = '\u2063'      # invisible separator appended to a path text: evaluate with the default element namespace urn:x
NS_DEFAULT = dict(NS, **{'': 'urn:x'})


NSX_MARK = '\u2064'      # invisible plus: evaluate with the namespace map that binds a second prefix r to urn:x
NS3 = dict(NS, r='urn:x')


def ns_for(text: str):
    if text.endswith(DNS_MARK):
        return NS_DEFAULT, text[:-1]
    if text.endswith(NSX_MARK):
        return NS3, text[:-1]
    return NS, text


V2_MARKS = ('/(', '*:', 'element(', 'attribute(', 'document-node(', 'processing-instruction(p', 'processing-instruction(z')
V3_MARKS = ('Q{', 'namespace-node(')


def min_version(text: str) -> str:
    """Lowest XPath version whose grammar has every node test of `text` (kind tests with arguments and *:name
    are 2.0, braced URI literals and namespace-node() 3.0; processing-instruction('lit') is already 1.0)."""
    if any(m in text for m in V3_MARKS):
        return '3.0'
    if any(m in text for m in V2_MARKS) or text.endswith(DNS_MARK):
        return '2.0'
    return '1.0'


def step_text(action: str, args: tuple) -> str:
    if len(args) > 1 and isinstance(args[1], str) and args[1].startswith('dns:'):
        args = (args[0], args[1][4:]) + tuple(args[2:])      # written without prefix; the parser has the default namespace
    if action == 'NsStep':
        return f'namespace::{args[0]}'
    if action == 'NsParent':
        return f'namespace::{args[0]}/parent::node()'
    if action == 'ParenStep':
        return f'({args[0]}::{args[1]})[{args[2][5:]}]'      # args[2] = "step:<pred>"
    if action == 'ParenStep2':
        return f'({args[0]}::{args[1]})[{args[2]}][{args[3]}]'
    if action in ('Step', 'DSlash'):
        return f'{args[0]}::{args[1]}'
    if action in ('StepPred', 'DSlashPred'):
        return f'{args[0]}::{args[1]}[{args[2]}]'
    if action == 'StepPred2':
        return f'{args[0]}::{args[1]}[{args[2]}][{args[3]}]'
    raise ValueError(action)


def abbreviations(action: str, args: tuple) -> list[str]:
    """Equivalent abbreviated spellings of the last step."""
    if action not in ('Step', 'StepPred', 'DSlash', 'DSlashPred'):
        return []
    ax, t = args[0], args[1]
    if t.startswith('dns:'):
        t = t[4:]
    pred = f'[{args[2]}]' if action.endswith('Pred') else ''
    out = []
    if ax == 'child':
        # the default axis of an omitted axis is attribute for attribute(...) tests and namespace for namespace-node()
        if not t.startswith(('attribute(', 'namespace-node(')):
            out.append(f'{t}{pred}')
    elif ax == 'attribute':
        out.append(f'@{t}{pred}')
        if t.startswith('attribute('):
            out.append(f'{t}{pred}')
    elif ax == 'parent' and t == 'node()' and not pred:
        out.append('..')      # '..[p]' is not XPath 1.0 (AbbreviatedStep takes no predicates)
    elif ax == 'self' and t == 'node()' and not pred:
        out.append('.')
    return out


def extend(prefix: str, action: str, args: tuple, root_cfg: str, last: str | None = None) -> list[str]:
    """Path texts for `prefix` followed by one construct; the FIRST is canonical (used as the next
    prefix and for libxml2), the others are equivalent spellings for elementpath only.
    prefix '' is the context item, prefix '/' the root reached by a leading slash.
    With a document root (R1) the context item IS the root: canonical paths are absolute and the
    relative spellings are variants; for fragments (R3) the root element is both."""
    if action == 'Root':
        return ['/']
    alts = [prefix]
    if root_cfg == 'R1' and prefix == '/':
        alts.append('')
    if root_cfg == 'R3' and prefix == '' and action not in ('Paren', 'Paren2'):
        alts.append('/')   # '/' alone is undefined for a parentless root (XPDY0050 in XDM); '/step' starts at the root
    s = None if action in ('Paren', 'Paren2') else (last if last is not None else step_text(action, args))
    out = []
    for pre in alts:
        if action == 'Paren':
            out.append(f'({pre or "."})[{args[0]}]')
        elif action == 'Paren2':
            out.append(f'({pre or "."})[{args[0]}][{args[1]}]')
        elif action in ('Step', 'StepPred', 'StepPred2', 'NsStep', 'NsParent', 'ParenStep', 'ParenStep2'):
            if pre == '':
                out += [s, './' + s]
            elif pre == '/':
                out.append('/' + s)
            else:
                out.append(pre + '/' + s)
        else:
            if pre == '':
                out.append('.//' + s)
            elif pre == '/':
                out.append('//' + s)
            else:
                out.append(pre + '//' + s)
    return out


_sel_cache: dict = {}


def get_selector(version: str, text: str):
    from elementpath import Selector
    key = (version, text)
    ns, text = ns_for(text)
    s = _sel_cache.get(key)
    if s is None:
        if len(_sel_cache) > 300000:
            _sel_cache.clear()
        try:
            s = Selector(text, namespaces=ns, parser=_parsers()[version])
        except Exception as e:  # parse failure is an observation, not a crash
            s = e
        _sel_cache[key] = s
    return s


def ep_eval(doc: Doc, root_cfg: str, version: str, text: str, mode: str):
    """Evaluate with elementpath through the public API; returns a list of abstract ids or ('err', ..)."""
    import elementpath
    if root_cfg == 'R1':
        root, kw = doc.tree, {}
    elif root_cfg == 'R1elem':      # an lxml Element that has document-level siblings: its document is the root
        root, kw = doc.root, {}
    elif root_cfg == 'R2':
        root, kw = doc.root, {}
    else:
        root, kw = doc.root, {'fragment': True}
    try:
        ns, plain = ns_for(text)
        if mode == 'selector':
            sel = get_selector(version, text)
            if isinstance(sel, Exception):
                raise sel
            res = sel.select(root, namespaces=ns, **kw)
        elif mode == 'selector_iter':
            sel = get_selector(version, text)
            if isinstance(sel, Exception):
                raise sel
            res = list(sel.iter_select(root, namespaces=ns, **kw))
        elif mode == 'select':
            res = elementpath.select(root, plain, namespaces=ns, parser=_parsers()[version], **kw)
        else:
            res = list(elementpath.iter_select(root, plain, namespaces=ns, parser=_parsers()[version], **kw))
    except Exception as e:
        code = getattr(e, 'code', None)
        return ('err', type(e).__name__, code)
    if not isinstance(res, list):
        res = [res]
    return doc.project(res)


def ns_eval(doc: Doc, root_cfg: str, version: str, text: str):
    """namespace axis results through the public API, sorted: URI strings (2.0+) or (prefix, uri) pairs (1.0)"""
    root, kw = (doc.tree, {}) if root_cfg == 'R1' else (doc.root, {}) if root_cfg in ('R2', 'R1elem') else (doc.root, {'fragment': True})
    try:
        sel = get_selector(version, text)
        if isinstance(sel, Exception):
            raise sel
        res = sel.select(root, namespaces=ns_for(text)[0], **kw)     # (xml.etree has no declarations: the caller's map is in scope)
    except Exception as e:
        return ('err', type(e).__name__, getattr(e, 'code', None))
    if not isinstance(res, list):
        res = [res]
    return sorted((tuple(x) if isinstance(x, (tuple, list)) else x) for x in res if isinstance(x, (str, tuple, list))) \
        if all(isinstance(x, (str, tuple, list)) for x in res) else ('err', 'non-namespace item', None)


def lx_eval(doc: Doc, root_cfg: str, text: str):
    ns, text = ns_for(text)
    try:
        res = (doc.tree if root_cfg == 'R1' else doc.root).xpath(text, namespaces={k: v for k, v in ns.items() if k})
    except Exception as e:
        return ('err', type(e).__name__, None)
    return doc.project(res)


def kinds_of(kind: tuple, nodes) -> str:
    return ','.join(sorted({'d' if n == 0 else kind[n - 1] for n in nodes}))


def tree_worker(job):
    """Replay every transition of one tree."""
    (parent, kind, root_cfg, states, init_sid, out_edges, seed, modes_all, dns) = job
    rotate = isinstance(modes_all, str) and modes_all == 'rotate'     # big quick configurations: 1.0 + one of 2.0/3.0/3.1 per edge
    modes_all = modes_all is True
    edge_no = 0
    nsx = dns == 'nsx'
    mark = NSX_MARK if nsx else DNS_MARK
    docs = {'lxml': Doc(parent, kind, 'lxml', NS3 if nsx else None)}
    if not docs['lxml'].doc_siblings:
        docs['etree'] = Doc(parent, kind, 'etree')      # xml.etree cannot hold document-level siblings
    else:
        docs['lxml-elem'] = docs['lxml']                # the same document, given as its root Element
    libs = tuple(docs)
    versions = ['1.0', '2.0', '3.0', '3.1']
    rnd = random.Random(hash((parent, kind, seed)) & 0xffffffff)
    prefix = {init_sid: '/' if root_cfg == 'R1' else ''}
    queue = deque([init_sid])
    stats = dict(transitions=0, evaluations=0, lx_evals=0, nontrivial=0)
    failures: dict = {}
    oracle_disagreements = []
    samples = []

    def visible(S):
        return sorted(n for n in S if not (root_cfg == 'R2' and n == 0))

    while queue:
        sid = queue.popleft()
        pre = prefix[sid]
        src = states[sid]
        for (dst, action, args) in out_edges.get(sid, ()):
            if action == 'NsStep':
                # observation: one group of namespace nodes per ELEMENT of the current set (spec: NsObservation)
                stats['transitions'] += 1
                t = args[0]
                prefixes = (['xml', 'p', 'q'] + (['r'] if nsx else [])) if t in ('*', 'node()') else [t]
                n_elems = sum(1 for n in src if n and kind[n - 1] in ('ea', 'eb', 'en', 'em'))
                exp_pairs = sorted((pf, NS_URI[pf]) for pf in prefixes) * n_elems
                exp_pairs.sort()
                exp_uris = sorted(u for pf, u in exp_pairs)
                for text in extend(pre, action, args, root_cfg):
                    if root_cfg == 'R1' and text.startswith('/'):
                        try:
                            lres = sorted(tuple(x) for x in docs['lxml'].tree.xpath(text, namespaces=NS3 if nsx else NS))
                        except Exception as e:
                            lres = ('err', type(e).__name__)
                        stats['lx_evals'] += 1
                        if lres != exp_pairs and t != 'node()':
                            oracle_disagreements.append(dict(tree=[parent, kind], root=root_cfg, path=text,
                                                             spec=exp_pairs, libxml2=lres))
                    for v in versions:
                        for lib in libs:
                            obs = ns_eval(docs[lib], 'R1elem' if lib == 'lxml-elem' else root_cfg, v, text + mark if nsx else text)
                            stats['evaluations'] += 1
                            want = exp_pairs if v == '1.0' else exp_uris
                            if obs != want:
                                feat = dict(action='NsStep', axis='namespace', test=t, pred=None, ctx_kinds=kinds_of(kind, src),
                                            ctx_multi=len(src) > 1, ctx_has_attr=False, ctx_has_doc=0 in src,
                                            outcome=('error' if obs and obs[0] == 'err' else 'missing' if len(obs) < len(want) else 'extra' if len(obs) > len(want) else 'wrong'),
                                            parser=v, root=root_cfg, spelling='absolute' if text.startswith('/') else 'relative')
                                key = tuple(sorted((k, str(x)) for k, x in feat.items()))
                                if key in failures:
                                    failures[key][1] += 1
                                else:
                                    failures[key] = [feat, 1, dict(tree=[parent, kind], root=root_cfg, path=text, parser=v, lib=lib,
                                                                   mode='ns', xml=docs[lib].xml()), want, obs]
                continue
            if action == 'Root' and (pre != '' or root_cfg != 'R2'):
                stats['skipped_root'] = stats.get('skipped_root', 0) + 1
                continue    # a leading "/" can only be rendered in front of an empty prefix
            stats['transitions'] += 1
            expected = visible(states[dst])
            if len(expected) > 1 or (expected and src != states[dst]):
                stats['nontrivial'] += 1
            texts = extend(pre, action, args, root_cfg)
            n_canon = len(texts)
            for ab in abbreviations(action, args):
                texts += extend(pre, action, args, root_cfg, last=ab)[:1]
            edge_ok = True
            if dns:     # evaluated with another namespace map (default element namespace urn:x / second prefix r)
                texts = [t + mark for t in texts]
            for ti, text in enumerate(texts):
                # second oracle: libxml2 (not for fragments: a parentless root has no libxml2 counterpart;
                # lxml evaluates relative paths of a tree from the root element, so only absolute texts in R1;
                # lxml cannot return the document node)
                minv = min_version(text)
                xp1 = minv == '1.0'     # *:name and the kind tests with arguments are XPath 2.0+, Q{uri}name 3.0+
                # libxml2's preceding axis stops at doc->children (it assumes the first child of the document is
                # the document element), so with comments/PIs AFTER the document element it loses the element
                # itself: `//preceding::*` on <a/><!--c--> is empty.  Not used as oracle for that axis there.
                lx_ok = not (docs['lxml'].doc_siblings and 'preceding::' in text)
                if lx_ok and xp1 and root_cfg == 'R1' and text.startswith(('/', '(/')) and 0 not in expected:
                    lres = lx_eval(docs['lxml'], root_cfg, text)
                    stats['lx_evals'] += 1
                    if lres != expected:
                        oracle_disagreements.append(dict(tree=[parent, kind], root=root_cfg, path=text,
                                                         spec=expected, libxml2=lres))
                edge_no += 1
                for v in (('1.0', ('2.0', '3.0', '3.1')[edge_no % 3]) if rotate else versions):
                    if v < minv:
                        continue
                    for lib in libs:
                        if modes_all:
                            modes = ('selector', 'selector_iter', 'select', 'iter_select')
                        else:
                            modes = ('selector', ('selector_iter', 'select', 'iter_select')[rnd.randrange(3)]) \
                                if rnd.random() < 0.1 else ('selector',)
                        for mode in modes:
                            obs = ep_eval(docs[lib], 'R1elem' if lib == 'lxml-elem' else root_cfg, v, text, mode)
                            stats['evaluations'] += 1
                            if obs != expected:
                                edge_ok = False
                                outcome = ('error:' + str(obs[2] or obs[1])) if (obs and obs[0] == 'err') else (
                                    'order' if sorted(map(str, obs)) == sorted(map(str, expected)) else
                                    'dup' if len(set(map(str, obs))) < len(obs) and set(map(str, obs)) == set(map(str, expected)) else
                                    'missing' if set(map(str, obs)) < set(map(str, expected)) else
                                    'extra' if set(map(str, obs)) > set(map(str, expected)) else 'wrong')
                                feat = dict(action=action, axis=('namespace' if action == 'NsParent' else args[0]) if action not in ('Paren', 'Root') else None,
                                            test=(args[0] if action == 'NsParent' else args[1]) if action not in ('Paren', 'Root') else None,
                                            pred=(args[2] if action.endswith(('Pred', 'Pred2')) or action == 'ParenStep' else args[0] if action == 'Paren' else None),
                                            pred2=(args[3] if action == 'StepPred2' else None),
                                            ctx_kinds=kinds_of(kind, src), ctx_multi=len(src) > 1,
                                            ctx_has_attr=any(n and kind[n - 1] in ('xa', 'xc', 'xn') for n in src),
                                            ctx_has_doc=0 in src,
                                            outcome=outcome, parser=v, root=root_cfg,
                                            spelling=('abbrev' if ti >= n_canon else
                                                      'absolute' if text.startswith(('/', '(/')) else 'relative'))
                                key = tuple(sorted((k, str(x)) for k, x in feat.items()))
                                ent = failures.get(key)
                                if ent is None:
                                    failures[key] = [feat, 1, dict(tree=[parent, kind], root=root_cfg, path=text,
                                                                   parser=v, lib=lib, mode=mode, xml=docs[lib].xml()),
                                                     expected, obs]
                                else:
                                    ent[1] += 1
            if root_cfg == 'R2' and action != 'Root' and 0 in states[dst]:
                edge_ok = False   # the virtual document is filtered from results: the real state is not observable, so
                                  # such a target is never used as a replay prefix (reported as unreached)
            if edge_ok and dst not in prefix:
                prefix[dst] = texts[0].rstrip(DNS_MARK + NSX_MARK)
                queue.append(dst)
                if len(samples) < 2 and len(expected) > 1:
                    samples.append(dict(xml=docs['lxml'].xml(), root=root_cfg, path=prefix[dst], expected_ids=expected))
    unreached = len(states) - len(prefix)
    return stats, list(failures.values()), oracle_disagreements[:5], len(oracle_disagreements), unreached, samples



# ---------------------------------------------------------------------------------------------
# Binding B: observed (tree, path, result) triples on LARGER random trees, judged by TLC
# (spec/TracePaths.tla evaluates the steps with the operators of Paths.tla)

ALL_TESTS = ["node()", "*", "a", "b", "text()", "comment()", "processing-instruction()"]
ALL_PREDS = ["0", "1", "2", "3", "1.5", "last() div 2", "last()", "last()-1", "position()<2", "position()<3", "position()>1", "b", "@a", "not(b)", "text()"]
AFTER_ATTR = ["parent", "ancestor", "following", "preceding", "child", "descendant",
              "following-sibling", "preceding-sibling"]   # (attribute-context name tests are a known finding)


def random_tree(rnd: random.Random, n: int):
    """A valid abstract tree with n nodes (attributes directly after their element, distinct
    attribute names, no adjacent text siblings).  Rendering choice only: TLC re-validates it."""
    parent, kind = [0], [rnd.choice(['ea', 'eb'])]
    open_elems = [1]          # stack of open elements (ids)
    may_attr = {1: {'xa', 'xc'}}
    last_kind = {1: None}     # kind of the last non-attribute child per element
    while len(parent) < n:
        # close elements at random
        while len(open_elems) > 1 and rnd.random() < 0.3:
            open_elems.pop()
        p = open_elems[-1]
        i = len(parent) + 1
        choices = ['ea', 'eb', 'ea', 'eb', 'c', 'p']
        if last_kind[p] != 't':
            choices += ['t', 't']
        if may_attr.get(p) and i - 1 == p or (may_attr.get(p) and kind[i - 2] in ('xa', 'xc') and parent[i - 2] == p):
            choices += sorted(may_attr[p]) * 2
        k = rnd.choice(choices)
        parent.append(p)
        kind.append(k)
        if k in ('xa', 'xc'):
            may_attr[p].discard(k)
        else:
            may_attr[p] = set()
            last_kind[p] = k
            if k in ('ea', 'eb'):
                open_elems.append(i)
                may_attr[i] = {'xa', 'xc'}
                last_kind[i] = None
    return tuple(parent), tuple(kind)


def random_path(rnd: random.Random):
    steps = []
    prev_attr = False
    for j in range(rnd.randint(1, 4)):
        r = rnd.random()
        if r < 0.12 and steps:
            steps.append(dict(a='Paren', pr=rnd.choice(["1", "2", "last()", "b"])))
            continue
        ax = rnd.choice(AFTER_ATTR if prev_attr else AXES)
        t = rnd.choice(ALL_TESTS)
        if ax == 'attribute':
            t = rnd.choice(['*', 'a', 'node()'])
        a = 'Step' if r < 0.5 else 'StepPred' if r < 0.75 else 'DSlash' if r < 0.9 else 'DSlashPred'
        st = dict(a=a, ax=ax, t=t)
        if a.endswith('Pred'):
            # ([@a] on an attribute step asks for the attributes OF AN ATTRIBUTE: known finding class)
            st['pr'] = rnd.choice([x for x in ALL_PREDS if not (ax == 'attribute' and x == '@a')])
        steps.append(st)
        prev_attr = ax == 'attribute'
    return steps


def steps_text(steps) -> str:
    prefix = '/'
    for st in steps:
        if st['a'] == 'Paren':
            prefix = extend(prefix, 'Paren', (st['pr'],), 'R1')[0]
        else:
            args = (st['ax'], st['t']) + ((st['pr'],) if 'pr' in st else ())
            prefix = extend(prefix, st['a'], args, 'R1')[0]
    return prefix


def trace_worker(job):
    n, seed, n_trees, n_paths = job
    rnd = random.Random(seed * 1000003 + n)
    recs, direct_fail = [], []
    for ti in range(n_trees):
        parent, kind = random_tree(rnd, n)
        docs = {'etree': Doc(parent, kind, 'etree'), 'lxml': Doc(parent, kind, 'lxml')}
        for pi in range(n_paths):
            steps = random_path(rnd)
            text = steps_text(steps)
            groups: dict = {}
            for v in ('1.0', '2.0', '3.0', '3.1'):
                for lib in ('etree', 'lxml'):
                    obs = ep_eval(docs[lib], 'R1', v, text, 'selector')
                    groups.setdefault(repr(obs), (obs, []))[1].append(f'{v}/{lib}')
            lres = lx_eval(docs['lxml'], 'R1', text)
            for key, (obs, engines) in groups.items():
                cid = f'{n}-{seed}-{ti}-{pi}-{len(recs)}'
                case = dict(tree=[parent, kind], root='R1', path=text, parser=engines[0].split('/')[0],
                            lib=engines[0].split('/')[1], mode='selector', xml=docs['lxml'].xml(), engines=engines)
                if obs and obs[0] == 'err' or any(not isinstance(x, int) for x in obs):
                    direct_fail.append((case, obs, steps))
                else:
                    recs.append(dict(id=cid, p=list(parent), k=list(kind), steps=steps, obs=obs, case=case,
                                     libxml2=lres if (0 not in obs) else None))
    return recs, direct_fail


def run_traces(chk: core.Check) -> None:
    import json
    sizes = [(6, 60, 12), (9, 50, 12), (12, 40, 12)] if chk.tier == 'quick' else \
        [(6, 200, 20), (9, 200, 20), (12, 150, 20), (16, 100, 20), (24, 40, 20)]
    jobs = []
    for n, n_trees, n_paths in sizes:
        for part in range(4):
            jobs.append((n, chk.seed * 17 + part, n_trees // 4, n_paths))
    results = core.pool_map(trace_worker, jobs)
    by_n: dict = {}
    for (n, *_), (recs, direct) in zip(jobs, results):
        by_n.setdefault(n, []).extend(recs)
        for case, obs, steps in direct:
            chk.fail(dict(part='trace', outcome='error' if obs and obs[0] == 'err' else 'unknown_item',
                          axes=','.join(sorted({s.get('ax', '-') for s in steps})), parser=case['parser']),
                     case, 'a node list', obs, what=f'{case["path"]} on {case["xml"]}')
    total = 0
    for n, recs in by_n.items():
        wd = os.path.join(chk.scratch, f'trace-N{n}')
        os.makedirs(wd, exist_ok=True)
        tf = os.path.join(wd, 'trace.ndjson')
        with open(tf, 'w') as f:
            for r in recs:
                f.write(json.dumps(dict(id=r['id'], p=r['p'], k=r['k'], steps=r['steps'], obs=r['obs'])) + '\n')
        consts = dict(N=n, Kinds={"ea", "eb", "t", "c", "p", "xa", "xc"}, RootCfg='R1', Axes=set(AXES),
                      Tests=set(ALL_TESTS), Preds=set(ALL_PREDS), ParenPreds={"1", "2", "last()", "b"}, Preds2=set(), DocSibs=False, NsTests=set())
        cfg = tla.cfg_text(consts, spec='TraceSpec', invariants=['Report'], postcondition='TraceAccepted')
        r = tla.require_ok(tla.run_tlc('TracePaths', cfg, wd, workers=1, env={'TRACE_FILE': tf}, timeout=3000),
                           f'TracePaths/N{n}', min_distinct=2 * len(recs))
        chk.model(f'TracePaths/N{n}', r)
        byid = {x['id']: x for x in recs}
        bad = list(tla.printed_values(r.output, 'badtree'))
        if bad:
            raise tla.MachineryError(f'random tree generator produced invalid XDM trees: {bad[:3]}')
        mism = {m[0]: list(m[1]) for m in tla.printed_values(r.output, 'mismatch')}
        for rec in recs:
            expected = mism.get(rec['id'], rec['obs'])
            # second oracle: libxml2 must agree with what the SPEC says (not with the implementation)
            if rec['libxml2'] is not None and 0 not in expected and rec['libxml2'] != expected:
                raise tla.MachineryError(f'TracePaths and libxml2 disagree: {rec["case"]["path"]} on {rec["case"]["xml"]}: '
                                         f'spec {expected} libxml2 {rec["libxml2"]}')
            if rec['id'] in mism:
                obs = rec['obs']
                so, se = set(obs), set(expected)
                outcome = ('order' if sorted(obs) == sorted(expected) else 'dup' if len(so) < len(obs) and so == se else
                           'missing' if so < se else 'extra' if so > se else 'wrong')
                chk.fail(dict(part='trace', outcome=outcome, axes=','.join(sorted({s.get('ax', '-') for s in rec['steps']})),
                              nodes=n, parser=rec['case']['parser']),
                         rec['case'], expected, obs, what=f'{rec["case"]["path"]} on {rec["case"]["xml"]}')
        total += len(recs)
        chk.sample(dict(trace_record=dict(xml=recs[0]['case']['xml'], path=recs[0]['case']['path'], observed=recs[0]['obs'])))
        print(f'  traces N={n}: records={len(recs)} mismatches={len(mism)} tlc={r.wall_s:.1f}s', flush=True)
    chk.add('traces_validated_against_impl', total)
    chk.add('evaluations', total * 8)
    chk.coverage['trace_records'] = total


def replay_case(case: dict) -> list:
    """Re-evaluate one recorded case on the working tree; returns [] if it now agrees."""
    parent, kind = tuple(case['tree'][0]), tuple(case['tree'][1])
    doc = Doc(parent, kind, 'lxml' if case['lib'] == 'lxml-elem' else case['lib'])
    if case['mode'] == 'ns':
        return ns_eval(doc, 'R1elem' if case['lib'] == 'lxml-elem' else case['root'], case['parser'], case['path'])
    return ep_eval(doc, 'R1elem' if case['lib'] == 'lxml-elem' else case['root'], case['parser'], case['path'], case['mode'])


def replay(rec: dict) -> int:
    core.setup_repo_path()
    obs = replay_case(rec['case'])
    print('path     :', rec['case']['path'])
    print('xml      :', rec['case'].get('xml'))
    print('expected :', rec['expected'])
    print('observed :', obs)
    if obs != rec['expected']:
        print(f'VIOLATION property=C01 replay=(replayed)')
        return 1
    return 0


def run(chk: core.Check) -> None:
    core.setup_repo_path()
    chk.assumptions += [
        'specification spec/XDM.tla + spec/Paths.tla is the oracle; libxml2 (lxml.xpath) must agree with it on every replayed path (else exit 2)',
        'trees bounded as listed in coverage.configs; path length unbounded (graph closed under all constructs)',
        'nodes are recognised in API results by unique text/attribute values and object identity',
    ]
    total_unreached = 0
    all_oracle = 0
    cfgs = CONFIGS[chk.tier]
    only = os.environ.get('C01_ONLY')       # development aid: run a subset of the configurations
    if only:
        cfgs = [c for c in cfgs if c[0] in only.split(',')]
    chk.coverage['configs'] = [dict(name=n, **{k: (sorted(v) if isinstance(v, set) else v) for k, v in c.items()}) for n, c in cfgs]
    for name, consts in cfgs:
        consts = dict(consts)
        rotate_cfg = consts.pop('Rotate', False)
        wd = os.path.join(chk.scratch, name)
        dot = os.path.join(wd, 'graph.dot')
        os.makedirs(wd, exist_ok=True)
        invs = ['TypeOK', 'Laws'] if consts['N'] <= 3 else ['TypeOK']
        cfg = tla.cfg_text(consts, spec='Spec', invariants=invs)
        r = tla.require_ok(tla.run_tlc('Paths', cfg, wd, dump_dot=dot, coverage=False), f'Paths/{name}')
        chk.model(f'Paths/{name}', r)
        t0 = time.time()
        g = tla.load_dot(dot)
        os.remove(dot)
        # group by tree
        trees: dict = {}
        for sid, st in g.states.items():
            trees.setdefault((st['parent'], st['kind']), [{}, None, {}])[0][sid] = st['cur']
        for sid in g.init:
            st = g.states[sid]
            trees[(st['parent'], st['kind'])][1] = sid
        tree_of = {sid: (st['parent'], st['kind']) for sid, st in g.states.items()}
        for s, d, a, args in g.edges:
            trees[tree_of[s]][2].setdefault(s, []).append((d, a, args))
        dns = 'dns' if any(t.startswith('dns:') for t in consts['Tests']) else 'nsx' if 'r' in consts['NsTests'] else False
        jobs = [(p, k, consts['RootCfg'], sts, init, oe, chk.seed, 'rotate' if rotate_cfg else False, dns)
                for (p, k), (sts, init, oe) in trees.items()]
        n_edges = len(g.edges)
        del g
        results = core.pool_map(tree_worker, jobs)
        for stats, fails, odis, n_odis, unreached, samples in results:
            chk.add('transitions', stats['transitions'])
            chk.add('evaluations', stats['evaluations'])
            chk.add('second_oracle_evaluations', stats['lx_evals'])
            chk.add('distinct_nontrivial', stats['nontrivial'])
            chk.add('traces_validated_against_impl', stats['transitions'])
            total_unreached += unreached
            all_oracle += n_odis
            for s in samples:
                chk.sample(s)
            for d in odis:
                chk.coverage.setdefault('oracle_disagreements', []).append(d)
            for feat, cnt, case, exp, obs in fails:
                for _ in range(1):
                    chk.fail(feat, case, exp, obs, what=f'{case["path"]} on {case["xml"]}')
                # count the rest of the class
                if cnt > 1:
                    for idx, kf in enumerate(chk.known):
                        if core.match_pattern(kf['fingerprint'], core.jsonable(feat)):
                            chk.known_hits[idx] = chk.known_hits.get(idx, 0) + cnt - 1
                            break
        print(f'  {name}: trees={len(trees)} states={r.distinct} edges={n_edges} tlc={r.wall_s:.1f}s replay={time.time()-t0:.1f}s', flush=True)
    if not only:
        run_traces(chk)
    chk.coverage['unreached_states'] = total_unreached
    chk.coverage['exhaustive'] = True
    chk.coverage['rule'] = ('every transition of the TLC state graph of Paths is one case; non-trivial = target node set has '
                            '>1 node or differs from the source set')
    if all_oracle:
        raise tla.MachineryError(f'specification and libxml2 disagree on {all_oracle} paths, e.g. '
                                 f'{chk.coverage["oracle_disagreements"][:3]}')
