"""C06 -- numeric operators and rounding functions follow XPath F&O arithmetic exactly.

Spec: spec/Numeric.tla (value-state machine: accumulator value, actions Bin(op, operand),
Un(f), RoundTo(p), RoundHE(p); exact rationals, IEEE specials, sign of zero; laws
a = (a idiv b)*b + (a mod b), truncation, sign of mod, floor/ceiling/round, half-to-even,
promotion, division by zero are TLC invariants).  The dumped graph is the test plan: every
edge acc --Act--> acc' is rendered as an XPath expression (literal and constructor
spellings; source accumulators beyond the grid also as the NESTED expression that
produced them) and evaluated by the 2.0/3.0/3.1 parsers (1.0: double fragment).
Second oracle for the SPEC: python fractions (disagreement = machinery failure).
"""
from __future__ import annotations

import math
import os
import struct
from collections import deque
from decimal import Decimal
from fractions import Fraction

from .. import core, tla

OPS = {'add': '+', 'sub': '-', 'mul': '*', 'div': 'div', 'idiv': 'idiv', 'mod': 'mod'}
TIERS = {
    'quick': [('small-d2', dict(MaxDepth=3, GridName='small'))],   # level 3 = chains of two operations
    'thorough': [('full-d2', dict(MaxDepth=3, GridName='full'))],
}


def frac(v) -> Fraction:
    return Fraction(v['q'][0], v['q'][1])


def dec_str(fr: Fraction) -> str:
    """exact decimal string of a terminating fraction"""
    n, d = fr.numerator, fr.denominator
    k = 0
    while (10 ** k) % d != 0:
        k += 1
        if k > 60:
            raise ValueError(f'non-terminating {fr}')
    digits = abs(n) * ((10 ** k) // d)
    s = str(digits).rjust(k + 1, '0')
    out = (s[:-k] + '.' + s[-k:]) if k else s
    return ('-' if n < 0 else '') + out


def render(v, style: str) -> str:
    """abstract value -> XPath operand text"""
    t = v['t']
    if t == 'int':
        n = v['q'][0]
        if style == 'ctor':
            return f'xs:integer("{n}")'
        return str(n) if n >= 0 else f'({n})'
    if t == 'dec':
        s = dec_str(frac(v))
        if style == 'ctor':
            return f'xs:decimal("{s}")'
        if '.' not in s:
            s += '.0'
        return s if not s.startswith('-') else f'({s})'
    # floating
    if v['k'] == 'nan':
        lex = 'NaN'
    elif v['k'] == 'pinf':
        lex = 'INF'
    elif v['k'] == 'ninf':
        lex = '-INF'
    elif v['nz']:
        lex = '-0'
    else:
        lex = dec_str(frac(v))
    if t == 'flt':
        return f'xs:float("{lex}")'
    if style == 'ctor' or v['k'] != 'fin' or v['nz']:
        return f'xs:double("{lex}")'
    body = lex.lstrip('-') + 'e0'
    return body if not lex.startswith('-') else f'(-{body})'


def expr_for(src_text: str, action: str, args: tuple, style: str) -> str:
    if action == 'Bin':
        return f'{src_text} {OPS[args[0]]} {render(args[1], style)}'
    if action == 'Un':
        f = args[0]
        return f'-{src_text}' if f == 'neg' else f'{f}({src_text})'
    if action == 'RoundTo':
        return f'round({src_text}, {args[0]})'
    if action == 'RoundHE':
        return f'round-half-to-even({src_text}, {args[0]})'
    raise ValueError(action)


def sign_class(v) -> str:
    if v['t'] == 'err':
        return 'err'
    if v['k'] != 'fin':
        return v['k']
    if v['nz']:
        return 'negzero'
    n = v['q'][0]
    return 'neg' if n < 0 else 'zero' if n == 0 else 'pos'


def frac_class(v) -> str:
    if v['t'] == 'err' or v['k'] != 'fin':
        return '-'
    fr = frac(v)
    if fr.denominator == 1:
        return 'integral'
    return 'half' if (fr * 2).denominator == 1 else 'fraction'


_parsers = None


def parsers():
    global _parsers
    if _parsers is None:
        from elementpath import XPath1Parser, XPath2Parser
        from elementpath.xpath30 import XPath30Parser
        from elementpath.xpath31 import XPath31Parser
        _parsers = {'1.0': XPath1Parser, '2.0': XPath2Parser, '3.0': XPath30Parser, '3.1': XPath31Parser}
    return _parsers


def evaluate(text: str, version: str):
    import elementpath
    from elementpath.datatypes import Float
    from elementpath.exceptions import ElementPathError
    try:
        if version.endswith('c'):      # the same parser class in XPath 1.0 compatibility mode
            r = elementpath.select(None, text, item=1, parser=parsers()[version[:-1]], compatibility_mode=True)
        else:
            r = elementpath.select(None, text, item=1, parser=parsers()[version])
    except ElementPathError as e:
        code = (e.code or '').split(':')[-1]
        return ('err', code)
    except RecursionError:
        return ('escaped', 'RecursionError')
    except Exception as e:  # noqa
        return ('escaped', type(e).__name__)
    if isinstance(r, list):
        if len(r) != 1:
            return ('seq', len(r))
        r = r[0]
    if isinstance(r, bool):
        return ('other', repr(r))
    if isinstance(r, int):
        return ('int', Fraction(r))
    if isinstance(r, Decimal):
        if not r.is_finite():
            return ('other', repr(r))
        return ('dec', Fraction(r))
    if isinstance(r, float):
        t = 'flt' if isinstance(r, Float) else 'dbl'
        if math.isnan(r):
            return (t, 'nan')
        if math.isinf(r):
            return (t, 'pinf' if r > 0 else 'ninf')
        return (t, 'fin', float(r), math.copysign(1.0, r) < 0 and r == 0.0)
    return ('other', type(r).__name__)


def compare(exp, obs, version: str):
    """None if the observation conforms, else an outcome-class string."""
    if exp['t'] == 'err':
        if obs[0] == 'err':
            return None if obs[1] in exp['code'].split('|') else f'code:{obs[1]}'
        return 'value_instead_of_error' if obs[0] not in ('escaped',) else f'escaped:{obs[1]}'
    if obs[0] == 'err':
        return f'error:{obs[1]}'
    if obs[0] in ('escaped', 'seq', 'other'):
        return f'{obs[0]}:{obs[1]}'
    t = exp['t']
    if version == '1.0':
        # XPath 1.0 has one number type: compare the numeric value only
        if exp['k'] != 'fin':
            return None if (len(obs) > 1 and obs[1] == exp['k']) else 'value'
        if obs[0] in ('int', 'dec'):
            return None if obs[1] == frac(exp) else 'value'
        if obs[1] != 'fin':
            return 'value'
        return None if obs[2] == float(frac(exp)) else 'value'
    if obs[0] != t:
        # value right but type wrong is its own class
        return f'type:{obs[0]}'
    if t in ('int', 'dec'):
        if exp['ap']:
            q = frac(exp)
            return None if abs(obs[1] - q) <= abs(q) * Fraction(1, 10 ** 15) else 'value'
        return None if obs[1] == frac(exp) else 'value'
    if exp['k'] != 'fin':
        return None if obs[1] == exp['k'] else 'value'
    if obs[1] != 'fin':
        return 'value'
    want = float(frac(exp))
    if t == 'flt' and exp['ap']:
        w32 = struct.unpack('f', struct.pack('f', want))[0]
        if not (obs[2] == want or obs[2] == w32 or abs(obs[2] - want) <= abs(want) * 1e-6):
            return 'value'
    elif obs[2] != want:
        return 'value'
    if want == 0.0 and obs[3] != bool(exp['nz']):
        return 'zero_sign'
    return None


def second_oracle(src, action, args, dst):
    """python fractions cross-check of the SPEC on the exact fragment; returns a message or None."""
    if action != 'Bin' or src['t'] not in ('int', 'dec') or args[1]['t'] not in ('int', 'dec'):
        return None
    a, b, op = frac(src), frac(args[1]), args[0]
    if op in ('div', 'idiv', 'mod') and b == 0:
        return None if dst['t'] == 'err' and dst['code'] == 'FOAR0001' else 'div by zero'
    want = {'add': lambda: a + b, 'sub': lambda: a - b, 'mul': lambda: a * b, 'div': lambda: a / b,
            'idiv': lambda: Fraction(math.trunc(a / b)), 'mod': lambda: a - b * math.trunc(a / b)}[op]()
    if dst['t'] == 'err' or frac(dst) != want:
        return f'{a} {op} {b}: spec {dst} python {want}'
    return None


# ---------------------------------------------------------------------------------------------
# 1:1 transliteration of the operators of spec/Numeric.tla over Python Fractions (unbounded integers).
# It is NOT an independent oracle: `pym_check` requires it to reproduce the target state of EVERY edge of the
# TLC graph (all four types, specials, signed zeros), and only then is it used to instantiate the same defining
# equations on operands that TLC's 32-bit integers cannot hold (the wide family below).

def _fin(t, q: Fraction, negzero=False):
    q = Fraction(q)
    if t in ('flt', 'dbl'):
        ap = _strip(q.denominator, 2) != 1
        return dict(t=t, k='fin', q=(q.numerator, q.denominator), nz=bool(q == 0 and negzero), ap=ap)
    ap = _strip(_strip(q.denominator, 2), 5) != 1
    return dict(t=t, k='fin', q=(q.numerator, q.denominator), nz=False, ap=ap)


def _strip(d: int, f: int) -> int:
    while d % f == 0:
        d //= f
    return d


def _special(t, k):
    return dict(t=t, k=k, q=(0, 1), nz=False, ap=False)


def _err(code):
    return dict(t='err', code=code)


_RANK = {'int': 1, 'dec': 2, 'flt': 3, 'dbl': 4}
_isfloat = lambda t: t in ('flt', 'dbl')          # noqa: E731
_isfin = lambda v: v['k'] == 'fin'                # noqa: E731
_isnan = lambda v: v['k'] == 'nan'                # noqa: E731
_isinf = lambda v: v['k'] in ('pinf', 'ninf')     # noqa: E731
_iszero = lambda v: _isfin(v) and v['q'][0] == 0  # noqa: E731
_promote = lambda ta, tb: ta if _RANK[ta] >= _RANK[tb] else tb   # noqa: E731
_inf = lambda t, sign: _special(t, 'ninf' if sign < 0 else 'pinf')   # noqa: E731
_trunc = lambda q: Fraction(math.trunc(q))        # noqa: E731


def _signbit(v) -> int:
    if v['k'] == 'ninf':
        return -1
    if v['k'] == 'pinf':
        return 1
    if v['nz']:
        return -1
    return -1 if v['q'][0] < 0 else 1


def pym_add(a, b):
    t = _promote(a['t'], b['t'])
    if not _isfloat(t):
        return _fin(t, frac(a) + frac(b))
    if _isnan(a) or _isnan(b):
        return _special(t, 'nan')
    if _isinf(a) and _isinf(b):
        return _special(t, a['k']) if a['k'] == b['k'] else _special(t, 'nan')
    if _isinf(a):
        return _special(t, a['k'])
    if _isinf(b):
        return _special(t, b['k'])
    return _fin(t, frac(a) + frac(b), _signbit(a) < 0 and _signbit(b) < 0)


def pym_neg(a):
    if _isfloat(a['t']):
        if _isnan(a):
            return a
        if _isinf(a):
            return _inf(a['t'], -_signbit(a))
        return _fin(a['t'], -frac(a), _signbit(a) > 0)
    return _fin(a['t'], -frac(a))


def pym_sub(a, b):
    t = _promote(a['t'], b['t'])
    return pym_add(a, pym_neg(dict(b, t=t) if _isfin(b) else b))


def pym_mul(a, b):
    t = _promote(a['t'], b['t'])
    s = _signbit(a) * _signbit(b)
    if not _isfloat(t):
        return _fin(t, frac(a) * frac(b))
    if _isnan(a) or _isnan(b):
        return _special(t, 'nan')
    if _isinf(a) or _isinf(b):
        return _special(t, 'nan') if (_iszero(a) or _iszero(b)) else _inf(t, s)
    return _fin(t, frac(a) * frac(b), s < 0)


def pym_div(a, b):
    t0 = _promote(a['t'], b['t'])
    t = 'dec' if t0 == 'int' else t0
    s = _signbit(a) * _signbit(b)
    if not _isfloat(t):
        return _err('FOAR0001') if _iszero(b) else _fin(t, frac(a) / frac(b))
    if _isnan(a) or _isnan(b):
        return _special(t, 'nan')
    if _isinf(a):
        return _special(t, 'nan') if _isinf(b) else _inf(t, s)
    if _isinf(b):
        return _fin(t, Fraction(0), s < 0)
    if _iszero(b):
        return _special(t, 'nan') if _iszero(a) else _inf(t, s)
    return _fin(t, frac(a) / frac(b), s < 0)


def pym_idiv(a, b):
    if _isfin(b) and b['q'][0] == 0:
        return _err('FOAR0001|FOAR0002') if (_isnan(a) or _isinf(a)) else _err('FOAR0001')
    if _isnan(a) or _isnan(b) or _isinf(a):
        return _err('FOAR0002')
    if _isinf(b):
        return _fin('int', Fraction(0))
    return _fin('int', _trunc(frac(a) / frac(b)))


def pym_mod(a, b):
    t = _promote(a['t'], b['t'])
    if not _isfloat(t):
        return _err('FOAR0001') if _iszero(b) else _fin(t, frac(a) - frac(b) * _trunc(frac(a) / frac(b)))
    if _isnan(a) or _isnan(b) or _isinf(a) or _iszero(b):
        return _special(t, 'nan')
    if _isinf(b):
        return _fin(t, frac(a), _signbit(a) < 0)
    return _fin(t, frac(a) - frac(b) * _trunc(frac(a) / frac(b)), _signbit(a) < 0)


def pym_abs(a):
    if _isfloat(a['t']) and not _isfin(a):
        return a if _isnan(a) else _inf(a['t'], 1)
    return _fin(a['t'], abs(frac(a)))


def _keep(a, q):
    return _fin(a['t'], q, _signbit(a) < 0)


def pym_un(f, a):
    if f == 'neg':
        return pym_neg(a)
    if f == 'abs':
        return pym_abs(a)
    if not _isfin(a):
        return a
    if f == 'floor':
        return _keep(a, Fraction(math.floor(frac(a))))
    if f == 'ceiling':
        return _keep(a, Fraction(math.ceil(frac(a))))
    return _keep(a, Fraction(math.floor(frac(a) + Fraction(1, 2))))       # round: ties toward +INF


def _scale(p: int) -> Fraction:
    return Fraction(10) ** p


def pym_round_p(a, p):
    if not _isfin(a):
        return a
    return _keep(a, Fraction(math.floor(frac(a) * _scale(p) + Fraction(1, 2))) / _scale(p))


def pym_half_even(a, p):
    if not _isfin(a):
        return a
    x = frac(a) * _scale(p)
    f = math.floor(x)
    diff = x - f
    r = f if diff < Fraction(1, 2) else f + 1 if diff > Fraction(1, 2) else (f if f % 2 == 0 else f + 1)
    return _keep(a, Fraction(r) / _scale(p))


PYM_BIN = {'add': pym_add, 'sub': pym_sub, 'mul': pym_mul, 'div': pym_div, 'idiv': pym_idiv, 'mod': pym_mod}


def pym_apply(action: str, args: tuple, src):
    if action == 'Bin':
        return PYM_BIN[args[0]](src, args[1])
    if action == 'Un':
        return pym_un(args[0], src)
    if action == 'RoundTo':
        return pym_round_p(src, args[0])
    return pym_half_even(src, args[0])


def _same_value(x, y) -> bool:
    if x['t'] != y['t']:
        return False
    if x['t'] == 'err':
        return x['code'] == y['code']
    return (x['k'], tuple(x['q']), bool(x['nz']), bool(x['ap'])) == (y['k'], tuple(y['q']), bool(y['nz']), bool(y['ap']))


def pym_check(src, action, args, dst):
    """the transliteration must reproduce TLC's target state on every edge of the graph"""
    got = pym_apply(action, args, src)
    return None if _same_value(got, dst) else f'{action}{args} on {src}: TLC {dst} transliteration {got}'


# ---------------------------------------------------------------------------------------------
# Wide family: the same equations on operands beyond TLC's integers - doubles around 2^52..2^53 and next to 0.5,
# the extremes of the double and float ranges, integers and decimals beyond 2^53 and 2^64, and the bounds of the
# derived integer types (spelled with their own constructors: they are xs:integer operands too).

def _wv(t, x) -> dict:
    return _fin(t, Fraction(x))


def _f32(x: float) -> float:
    return struct.unpack('f', struct.pack('f', x))[0]


WIDE_DBL = [float(2 ** 52 + 1), float(2 ** 53 - 1), float(2 ** 53 + 2), -float(2 ** 52 + 1), -float(2 ** 53 - 1),
            0.49999999999999994, -0.49999999999999994, 0.5000000000000001, 4503599627370495.5, -4503599627370495.5,
            2251799813685247.5, 1e300, -1e300, 5e-324, 1.7976931348623157e308, 8388607.5, 1e15 + 0.5, 123456789.75]
WIDE_FLT = [_f32(3e38), -_f32(3e38), _f32(1e-30) * 1e-8, 16777213.0, -16777213.0, 8388607.5, -8388607.5, 16777216.0, _f32(3.4028235e38), _f32(1e-30), 33554430.0]     # (elementpath flushes |xs:float| < 1e-37 to zero: a lexical-space matter, C10)
WIDE_INT = [2 ** 53 + 1, -(2 ** 53 + 1), 2 ** 63 - 1, -2 ** 63, 2 ** 64 - 1, 10 ** 30 + 7, -(10 ** 30 + 7), 2 ** 31, -2 ** 31 - 1]
WIDE_DEC = ['12345678901234567.5', '-12345678901234567.5', '0.000000000000000001', '99999999999999999.99', '-0.49999999999999994',
            '9007199254740993.25', '0.5000000000000000001']
DERIVED = [('byte', -128), ('byte', 127), ('short', -32768), ('int', -2147483648), ('long', -9223372036854775808),
           ('long', 9223372036854775807), ('negativeInteger', -5), ('nonPositiveInteger', -3), ('nonPositiveInteger', 0),
           ('nonNegativeInteger', 0), ('positiveInteger', 7), ('unsignedByte', 255), ('unsignedShort', 65535),
           ('unsignedInt', 4294967295), ('unsignedLong', 18446744073709551615), ('integer', -12)]
SPECIAL_PARTNERS = [_special('dbl', 'pinf'), _special('dbl', 'ninf'), _special('dbl', 'nan'), dict(t='dbl', k='fin', q=(0, 1), nz=True, ap=False)]
PARTNERS = [('flt', Fraction(10)), ('flt', Fraction(1, 1024)), ('dbl', Fraction(2) ** 600), ('dbl', Fraction(2) ** -600), ('int', 1), ('int', -2), ('int', 3), ('dec', Fraction(1, 2)), ('dec', Fraction(-5, 2)), ('dbl', Fraction(5, 2)),
            ('dbl', Fraction(-3)), ('dbl', Fraction(1)), ('flt', Fraction(3, 2)), ('flt', Fraction(-2))]


def wide_text(v, spelling=None) -> str:
    if spelling:
        return f'xs:{spelling}("{v["q"][0]}")'
    if v['t'] == 'int':
        n = v['q'][0]
        return str(n) if n >= 0 else f'({n})'
    if v['t'] == 'dec':
        sd = dec_str(frac(v))
        if '.' not in sd:
            sd += '.0'
        return sd if not sd.startswith('-') else f'({sd})'
    x = float(frac(v))
    return f'xs:{"float" if v["t"] == "flt" else "double"}("{x!r}")'


def _digits(q: Fraction) -> int:
    """significant decimal digits of a terminating fraction (99 if it does not terminate)"""
    d = q.denominator
    if _strip(_strip(d, 2), 5) != 1:
        return 99
    k = 0
    while (10 ** k) % d:
        k += 1
    return len(str(abs(q.numerator) * (10 ** k // d)).strip('0')) or 1


def wide_expected(exp):
    """None when the case is outside what the specification decides (see DESIGN C06: decimal precision is
    implementation-defined beyond 28 digits; overflow/underflow of doubles are not modelled by exact rationals)."""
    if exp['t'] == 'err' or exp['k'] != 'fin':
        return exp
    q = frac(exp)
    if exp['t'] == 'dec' and (exp['ap'] or _digits(q) > 27):
        return None
    if exp['t'] in ('flt', 'dbl'):
        # IEEE 754 range of the result type (the exact-rational model of Numeric.tla has no range): a result beyond the
        # largest finite value rounds to INF of its sign, one below half of the smallest subnormal rounds to zero of its
        # sign; the band around each threshold where the rounding mode decides is left out.
        big, tiny = (Fraction(2) ** 128, Fraction(2) ** -150) if exp['t'] == 'flt' else (Fraction(2) ** 1024, Fraction(2) ** -1075)
        if abs(q) >= big:
            return _special(exp['t'], 'ninf' if q < 0 else 'pinf')
        if q != 0 and abs(q) < tiny / 2:
            return dict(exp, q=(0, 1), nz=q < 0, ap=False)
        if q != 0 and (abs(q) > big * Fraction(99, 100) or abs(q) < tiny * 4):
            return None
        x = float(q)
        if exp['t'] == 'flt':
            exp = dict(exp, ap=True)       # rounding to single precision: compared to the nearest float / 1e-6
        elif Fraction(x) != q:
            exp = dict(exp, ap=False)      # correctly rounded by the projection float(Fraction)
    return exp


def wide_cases():
    ops = []
    wides = [(_wv('dbl', x), None) for x in WIDE_DBL] + [(_wv('flt', x), None) for x in WIDE_FLT] + \
            [(_wv('int', n), None) for n in WIDE_INT] + [(_wv('dec', Fraction(d)), None) for d in WIDE_DEC] + \
            [(_wv('int', n), tname) for tname, n in DERIVED]
    for a, sp in wides:
        ta = wide_text(a, sp)
        for f in ('neg', 'abs', 'floor', 'ceiling', 'round'):
            ops.append((('-' + ta) if f == 'neg' else f'{f}({ta})', pym_un(f, a), ['2.0', '3.1'], dict(action='WideUn', op=f, ta=a['t'], spelling=sp or 'plain')))
            if f != 'neg':     # the same function reached through the dynamic call forms (result checked against the declared type there)
                for form, vs in ((f'{f}#1({ta})', ['3.0', '3.1']), (f'{ta} => {f}()', ['3.1']), (f'for-each({ta}, {f}#1)', ['3.0']),
                                 (f'{f}(?)({ta})', ['3.1']), (f'function-lookup(xs:QName("fn:{f}"), 1)({ta})', ['3.0'])):
                    ops.append((form, pym_un(f, a), vs, dict(action='WideUn', op=f, ta=a['t'], spelling=sp or 'plain', form=form.split('(')[0][:12])))
        for pr in (-1, 0, 1, 2):
            ops.append((f'round({ta}, {pr})', pym_round_p(a, pr), ['3.0', '3.1'], dict(action='WideRoundTo', op='RoundTo', ta=a['t'], spelling=sp or 'plain')))
            ops.append((f'round-half-to-even({ta}, {pr})', pym_half_even(a, pr), ['2.0', '3.1'], dict(action='WideRoundHE', op='RoundHE', ta=a['t'], spelling=sp or 'plain')))
            ops.append((f'round#2({ta}, {pr})', pym_round_p(a, pr), ['3.1'], dict(action='WideRoundTo', op='RoundTo', ta=a['t'], spelling=sp or 'plain', form='ref')))
            ops.append((f'round-half-to-even#2({ta}, {pr})', pym_half_even(a, pr), ['3.0'], dict(action='WideRoundHE', op='RoundHE', ta=a['t'], spelling=sp or 'plain', form='ref')))
        for tb, qb in PARTNERS:
            b = _wv(tb, qb)
            # a non-dyadic value promoted to a floating type is rounded by the cast: outside the model (ExactlyPromotable)
            if _isfloat(_promote(a['t'], tb)) and (_strip(frac(a).denominator, 2) != 1 or _strip(Fraction(qb).denominator, 2) != 1):
                continue
            if _isfloat(_promote(a['t'], tb)) and a['t'] in ('int', 'dec') and Fraction(float(frac(a))) != frac(a):
                continue       # the promotion of the wide integer/decimal itself rounds
            if _promote(a['t'], tb) == 'flt' and Fraction(_f32(float(frac(a)))) != frac(a):
                continue
            tbx = render(b, 'lit') if max(abs(b['q'][0]), b['q'][1]) < 2 ** 40 else wide_text(b)
            vs2 = ['2.0', '3.1'] + (['2.0c', '3.1c'] if a['t'] == 'dbl' and tb == 'dbl' else [])
            for op, sym in OPS.items():
                ops.append((f'{ta} {sym} {tbx}', PYM_BIN[op](a, b), vs2, dict(action='WideBin', op=op, ta=a['t'], tb=tb, spelling=sp or 'plain', side='left')))
                ops.append((f'{tbx} {sym} {ta}', PYM_BIN[op](b, a), vs2, dict(action='WideBin', op=op, ta=tb, tb=a['t'], spelling=sp or 'plain', side='right')))
    # finite doubles of the grid against the IEEE specials, in both parser modes
    for x in (5.0, -5.0, 0.0, 2.5, 1e300):
        a = _wv('dbl', x)
        for b in SPECIAL_PARTNERS:
            for op, sym in OPS.items():
                for l, r_ in ((a, b), (b, a)):
                    ops.append((f'{render(l, "ctor")} {sym} {render(r_, "ctor")}', PYM_BIN[op](l, r_), ['2.0', '3.1', '2.0c', '3.1c'],
                                dict(action='WideBin', op=op, ta='dbl', tb='dbl', spelling='special', side='both')))
    out = []
    for text, exp, vs, feat in ops:
        e = wide_expected(exp)
        if e is not None:
            out.append((text, e, vs, feat))
    return out


def wide_worker(job):
    fails, n = [], 0
    for text, exp, vs, feat in job:
        for v in vs:
            obs = evaluate(text, v)
            n += 1
            out = compare(exp, obs, v)
            if out is not None:
                f = dict(feat, outcome=out, parser='2+compat' if v.endswith('c') else '2+', sign_a=None,
                         expected_kind=('err:' + exp['code']) if exp['t'] == 'err' else sign_class(exp))
                fails.append((f, dict(expr=text, parser=v), exp, obs))
    return n, fails


_nested_ok: dict = {}


SCALE = 3 ** 40    # 12157665459056928801: odd, above 2**53, not exactly representable as a double


def scaled_text(v, style='lit'):
    """operand text of the exact value v multiplied by SCALE (int stays int, decimal stays decimal)"""
    fr = frac(v) * SCALE
    if v['t'] == 'int':
        n = int(fr)
        return str(n) if n >= 0 else f'({n})'
    sd = dec_str(fr)
    if '.' not in sd:
        sd += '.0'
    return sd if not sd.startswith('-') else f'({sd})'


def scaled_expected(op, dst):
    """the law LawScale of spec/Numeric.tla applied with K = SCALE"""
    if dst['t'] == 'err' or op in ('idiv', 'div'):
        return dst
    k = SCALE * SCALE if op == 'mul' else SCALE
    fr = frac(dst) * k
    d = dict(dst)
    d['q'] = (fr.numerator, fr.denominator)
    return d


def evaluate_seq(text: str, version: str):
    """like evaluate() but for an expression returning a sequence: list of projected items"""
    import elementpath
    from elementpath.datatypes import Float
    from elementpath.exceptions import ElementPathError
    try:
        r = elementpath.select(None, text, item=1, parser=parsers()[version])
    except ElementPathError as e:
        return ('err', (e.code or '').split(':')[-1])
    except Exception as e:  # noqa
        return ('escaped', type(e).__name__)
    if not isinstance(r, list):
        r = [r]
    out = []
    for x in r:
        if isinstance(x, bool):
            out.append(('other', repr(x)))
        elif isinstance(x, int):
            out.append(('int', Fraction(x)))
        elif isinstance(x, Decimal):
            out.append(('dec', Fraction(x)) if x.is_finite() else ('other', repr(x)))
        elif isinstance(x, float):
            t = 'flt' if isinstance(x, Float) else 'dbl'
            if math.isnan(x):
                out.append((t, 'nan'))
            elif math.isinf(x):
                out.append((t, 'pinf' if x > 0 else 'ninf'))
            else:
                out.append((t, 'fin', float(x), math.copysign(1.0, x) < 0 and x == 0.0))
        else:
            out.append(('other', type(x).__name__))
    return out


def batch_worker(job):
    """(a) scaled vectors  (b) all operands of one (source, operator) in ONE expression with a `for`:
    the same operator token is evaluated once per operand, so state kept on the token shows."""
    batches, scaled = job
    fails, n = [], 0
    for (src, op, dsttext_pairs) in batches:
        args = [a for a, d in dsttext_pairs]
        if op in OPS:
            text = f'for $b in ({", ".join(args)}) return {render(src, "lit")} {OPS[op]} $b'
            vs = ['2.0', '3.1']
        elif op == 'RoundTo':
            text = f'for $p in ({", ".join(args)}) return round({render(src, "lit")}, $p)'
            vs = ['3.0', '3.1']
        else:
            text = f'for $p in ({", ".join(args)}) return round-half-to-even({render(src, "lit")}, $p)'
            vs = ['2.0', '3.1']
        for v in vs:
            obs = evaluate_seq(text, v)
            n += 1
            bad = None
            if isinstance(obs, tuple):
                bad = f'error:{obs[1]}'
            elif len(obs) != len(dsttext_pairs):
                bad = 'length'
            else:
                for (a, d), o in zip(dsttext_pairs, obs):
                    out = compare(d, o, v)
                    if out is not None:
                        # the same operand evaluated alone: if it fails in the same way this is the
                        # single-edge failure (reported by the edge replay), not an iteration effect
                        if op in OPS:
                            single = f'{render(src, "lit")} {OPS[op]} {a}'
                        elif op == 'RoundTo':
                            single = f'round({render(src, "lit")}, {a})'
                        else:
                            single = f'round-half-to-even({render(src, "lit")}, {a})'
                        n += 1
                        if compare(d, evaluate(single, v), v) is None:
                            bad = 'iteration:' + out
                            break
            if bad:
                fails.append((dict(action='Batch', op=op, ta=src['t'], outcome=bad, parser='2+',
                                   sign_a=sign_class(src)), dict(expr=text, parser=v, batch=True),
                              [d for a, d in dsttext_pairs], obs))
    for (src, op, b, dst) in scaled:
        text = f'{scaled_text(src)} {OPS[op]} {scaled_text(b)}'
        exp = scaled_expected(op, dst)
        for v in ('2.0', '3.1'):
            obs = evaluate(text, v)
            n += 1
            out = compare(exp, obs, v)
            if out is not None:
                fails.append((dict(action='Scaled', op=op, ta=src['t'], tb=b['t'], sign_a=sign_class(src),
                                   sign_b=sign_class(b), outcome=out, parser='2+',
                                   expected_kind=('err:' + exp['code']) if exp['t'] == 'err' else sign_class(exp)),
                              dict(expr=text, parser=v), exp, obs))
    return n, fails


def worker(job):
    edges, versions = job
    fails = []
    n_eval = 0
    oracle = []
    for (src, src_texts, action, args, dst) in edges:
        msg = second_oracle(src, action, args, dst) or pym_check(src, action, args, dst)
        if msg:
            oracle.append(msg)
        for style, nested, stext in src_texts:
            if nested:
                # the nested spelling is only usable if it really evaluates to the source value
                ok = _nested_ok.get(stext)
                if ok is None:
                    ok = _nested_ok[stext] = compare(src, evaluate(stext, '3.1'), '3.1') is None
                if not ok:
                    continue
            if action == 'RoundTo' or 'round(' in stext:
                vs = [v for v in versions if v in ('3.0', '3.1')]
            elif action == 'RoundHE' or (action == 'Bin' and args[0] == 'idiv') or \
                    (action == 'Un' and args[0] == 'abs') or 'xs:' in stext or \
                    (action == 'Bin' and 'xs:' in render(args[1], style)):
                vs = [v for v in versions if v != '1.0']
            else:
                vs = versions
            text = expr_for(stext, action, args, style)
            for v in vs:
                if v == '1.0' and (src['t'] != 'dbl' or (action == 'Bin' and args[1]['t'] != 'dbl')
                                   or any(x in stext for x in (' idiv ', 'abs(', 'xs:', 'round-half', ', '))):
                    continue
                obs = evaluate(text, v)
                n_eval += 1
                out = compare(dst, obs, v)
                if out is not None:
                    b = args[1] if action == 'Bin' else None
                    feat = dict(action=action, op=(args[0] if action in ('Bin', 'Un') else action),
                                ta=src['t'], tb=(b['t'] if b else None),
                                sign_a=sign_class(src), sign_b=(sign_class(b) if b else None),
                                frac_a=frac_class(src), precision=(args[0] if action in ('RoundTo', 'RoundHE') else None),
                                outcome=out, parser=('1.0' if v == '1.0' else '2+'),
                                expected_kind=('err:' + dst['code']) if dst['t'] == 'err' else sign_class(dst))
                    fails.append((feat, dict(expr=text, parser=v), dst, obs))
    return n_eval, fails, oracle


def replay(rec: dict) -> int:
    core.setup_repo_path()
    if rec['case'].get('batch'):
        obs = evaluate_seq(rec['case']['expr'], rec['case']['parser'])
        print('expr     :', rec['case']['expr'], '\nexpected :', rec['expected'], '\nobserved :', obs)
        bad = isinstance(obs, tuple) or len(obs) != len(rec['expected']) or any(
            compare(dict(e, q=tuple(e['q'])) if 'q' in e else e, o, rec['case']['parser']) for e, o in zip(rec['expected'], obs))
        return 1 if bad else 0
    obs = evaluate(rec['case']['expr'], rec['case']['parser'])
    print('expr     :', rec['case']['expr'], ' parser', rec['case']['parser'])
    print('expected :', rec['expected'])
    print('observed :', obs)
    exp = rec['expected']
    exp['q'] = tuple(exp['q']) if 'q' in exp else None
    out = compare(exp, obs, rec['case']['parser'])
    if out is not None:
        print(f'VIOLATION property=C06 replay=(replayed) outcome={out}')
        return 1
    return 0


def run(chk: core.Check) -> None:
    core.setup_repo_path()
    chk.assumptions += [
        'spec/Numeric.tla is the oracle (exact rationals, IEEE specials, sign of zero); python fractions cross-check the exact fragment',
        'doubles compared with the correctly rounded float(Fraction); xs:decimal division precision and xs:float single-precision rounding are implementation-defined (approximate compare, terminal)',
        'XPath 1.0 parser: double fragment, numeric value only',
    ]
    versions = ['1.0', '2.0', '3.0', '3.1']
    for name, consts in TIERS[chk.tier]:
        wd = os.path.join(chk.scratch, name)
        dot = os.path.join(wd, 'g.dot')
        cfg = tla.cfg_text(consts, invariants=['Laws'], constraints=['Bounded', 'Small'])
        r = tla.require_ok(tla.run_tlc('Numeric', cfg, wd, dump_dot=dot), f'Numeric/{name}', min_distinct=100)
        chk.model(f'Numeric/{name}', r)
        g = tla.load_dot(dot)
        os.remove(dot)
        out = g.out()
        # BFS: nested expression text for every state (through any edge: the nested text is only an
        # alternative spelling of the source; a failing edge is reported on its own)
        nested: dict[int, str] = {}
        q = deque()
        for sid in g.init:
            q.append(sid)
        seen = set(g.init)
        while q:
            s = q.popleft()
            st = g.states[s]['acc']
            if st['t'] == 'err' or st.get('ap'):
                continue
            base = nested.get(s) or render(st, 'lit')
            for d, a, args in out[s]:
                if d not in seen:
                    seen.add(d)
                    nested[d] = '(' + expr_for(base, a, args, 'lit') + ')'
                    q.append(d)
        jobs_edges = []
        nontrivial = set()
        for s, d, a, args in g.edges:
            src, dst = g.states[s]['acc'], g.states[d]['acc']
            texts = [('lit', False, render(src, 'lit')), ('ctor', False, render(src, 'ctor'))]
            if s in nested:
                texts.append(('lit', True, nested[s]))
            jobs_edges.append((src, texts, a, args, dst))
            nontrivial.add((a, args, src))
        chk.add('transitions', len(jobs_edges))
        chk.add('traces_validated_against_impl', len(jobs_edges))
        chk.add('distinct_nontrivial', len(nontrivial))
        for e in jobs_edges[:: max(1, len(jobs_edges) // 6)][:6]:
            chk.sample(dict(expr=expr_for(e[1][0][2], e[2], e[3], 'lit'), expected=e[4]))
        # batches and scaled vectors (see batch_worker)
        groups: dict = {}
        scaled = []
        for s_, d_, a, args in g.edges:
            src, dst = g.states[s_]['acc'], g.states[d_]['acc']
            if src['t'] == 'err' or src.get('ap'):
                continue
            if a == 'Bin':
                if dst['t'] != 'err':
                    groups.setdefault((s_, args[0]), []).append((render(args[1], 'lit'), dst))
                b = args[1]
                # (xs:decimal has an implementation-defined precision, 28 digits here: products of two
                #  scaled decimals exceed it, so multiplication is scaled for integers only)
                if src['t'] in ('int', 'dec') and b['t'] in ('int', 'dec') and s_ in g.init and \
                        (dst['t'] == 'err' or not dst.get('ap')) and \
                        (args[0] != 'mul' or (src['t'] == 'int' and b['t'] == 'int')):
                    scaled.append((src, args[0], b, dst))
            elif a in ('RoundTo', 'RoundHE') and dst['t'] != 'err':
                groups.setdefault((s_, a), []).append((str(args[0]), dst))
        batches = [(g.states[k[0]]['acc'], k[1], sorted(v, key=lambda x: x[0])) for k, v in groups.items() if len(v) > 1]
        bres = core.pool_map(batch_worker, [(bc, sc) for bc, sc in zip(core.chunked(batches, 32), core.chunked(scaled, 32) + [[]] * 32)])
        for n_eval, fails in bres:
            chk.add('evaluations', n_eval)
            for feat, case, exp, obs in fails:
                chk.fail(feat, case, exp, obs, what=case['expr'])
        chk.coverage['batched_for_expressions'] = chk.coverage.get('batched_for_expressions', 0) + len(batches)
        chk.coverage['scaled_vectors_3pow40'] = chk.coverage.get('scaled_vectors_3pow40', 0) + len(scaled)
        results = core.pool_map(worker, [(c, versions) for c in core.chunked(jobs_edges, 64)])
        oracle_msgs = []
        for n_eval, fails, oracle in results:
            chk.add('evaluations', n_eval)
            oracle_msgs += oracle
            for feat, case, exp, obs in fails:
                chk.fail(feat, case, exp, obs, what=case['expr'])
        if oracle_msgs:
            raise tla.MachineryError(f'spec/Numeric disagrees with python fractions: {oracle_msgs[:5]}')
        print(f'  {name}: states={r.distinct} edges={len(jobs_edges)} tlc={r.wall_s:.1f}s', flush=True)
    # wide family (after pym_check has validated the transliteration on every edge of every graph above)
    wides = wide_cases()
    for n_eval, fails in core.pool_map(wide_worker, core.chunked(wides, 32)):
        chk.add('evaluations', n_eval)
        for feat, case, exp, obs in fails:
            chk.fail(feat, case, exp, obs, what=case['expr'])
    chk.add('traces_validated_against_impl', len(wides))
    chk.coverage['wide_family_cases'] = len(wides)
    print(f'  wide family: cases={len(wides)}', flush=True)
    chk.coverage['exhaustive'] = True
    chk.coverage['rule'] = ('every edge of the TLC graph of Numeric (accumulator x operator x grid operand, chains to MaxDepth) '
                            'is one case, rendered in literal, constructor and nested-expression spellings; distinct = (action, operand, source value)')
