"""C06 -- numeric operators and rounding functions follow XPath F&O arithmetic exactly.

Spec: spec/Numeric.tla (value-state machine: accumulator value, actions Bin(op, operand),
Un(f), RoundTo(p), RoundHE(p); exact rationals, IEEE specials, sign of zero; laws
a = (a idiv b)*b + (a mod b), truncation, sign of mod, floor/ceiling/round, half-to-even,
promotion, division by zero are TLC invariants).  The dumped graph is the test plan: every
edge acc --Act--> acc' is rendered as an XPath expression (literal and constructor
spellings; source accumulators beyond the grid also as the NESTED expression that
produced them) and evaluated by the 2.0/3.0/3.1 parsers (1.0: double fragment).
Second oracle for the SPEC: python fractions (disagreement = machinery failure).
"""
from __future__ import annotations

import math
import os
import struct
from collections import deque
from decimal import Decimal
from fractions import Fraction

from .. import core, tla

OPS = {'add': '+', 'sub': '-', 'mul': '*', 'div': 'div', 'idiv': 'idiv', 'mod': 'mod'}
TIERS = {
    'quick': [('small-d2', dict(MaxDepth=3, GridName='small'))],   # level 3 = chains of two operations
    'thorough': [('full-d2', dict(MaxDepth=3, GridName='full'))],
}


def frac(v) -> Fraction:
    return Fraction(v['q'][0], v['q'][1])


def dec_str(fr: Fraction) -> str:
    """exact decimal string of a terminating fraction"""
    n, d = fr.numerator, fr.denominator
    k = 0
    while (10 ** k) % d != 0:
        k += 1
        if k > 60:
            raise ValueError(f'non-terminating {fr}')
    digits = abs(n) * ((10 ** k) // d)
    s = str(digits).rjust(k + 1, '0')
    out = (s[:-k] + '.' + s[-k:]) if k else s
    return ('-' if n < 0 else '') + out


def render(v, style: str) -> str:
    """abstract value -> XPath operand text"""
    t = v['t']
    if t == 'int':
        n = v['q'][0]
        if style == 'ctor':
            return f'xs:integer("{n}")'
        return str(n) if n >= 0 else f'({n})'
    if t == 'dec':
        s = dec_str(frac(v))
        if style == 'ctor':
            return f'xs:decimal("{s}")'
        if '.' not in s:
            s += '.0'
        return s if not s.startswith('-') else f'({s})'
    # floating
    if v['k'] == 'nan':
        lex = 'NaN'
    elif v['k'] == 'pinf':
        lex = 'INF'
    elif v['k'] == 'ninf':
        lex = '-INF'
    elif v['nz']:
        lex = '-0'
    else:
        lex = dec_str(frac(v))
    if t == 'flt':
        return f'xs:float("{lex}")'
    if style == 'ctor' or v['k'] != 'fin' or v['nz']:
        return f'xs:double("{lex}")'
    body = lex.lstrip('-') + 'e0'
    return body if not lex.startswith('-') else f'(-{body})'


def expr_for(src_text: str, action: str, args: tuple, style: str) -> str:
    if action == 'Bin':
        return f'{src_text} {OPS[args[0]]} {render(args[1], style)}'
    if action == 'Un':
        f = args[0]
        return f'-{src_text}' if f == 'neg' else f'{f}({src_text})'
    if action == 'RoundTo':
        return f'round({src_text}, {args[0]})'
    if action == 'RoundHE':
        return f'round-half-to-even({src_text}, {args[0]})'
    raise ValueError(action)


def sign_class(v) -> str:
    if v['t'] == 'err':
        return 'err'
    if v['k'] != 'fin':
        return v['k']
    if v['nz']:
        return 'negzero'
    n = v['q'][0]
    return 'neg' if n < 0 else 'zero' if n == 0 else 'pos'


def frac_class(v) -> str:
    if v['t'] == 'err' or v['k'] != 'fin':
        return '-'
    fr = frac(v)
    if fr.denominator == 1:
        return 'integral'
    return 'half' if (fr * 2).denominator == 1 else 'fraction'


_parsers = None


def parsers():
    global _parsers
    if _parsers is None:
        from elementpath import XPath1Parser, XPath2Parser
        from elementpath.xpath30 import XPath30Parser
        from elementpath.xpath31 import XPath31Parser
        _parsers = {'1.0': XPath1Parser, '2.0': XPath2Parser, '3.0': XPath30Parser, '3.1': XPath31Parser}
    return _parsers


def evaluate(text: str, version: str):
    import elementpath
    from elementpath.datatypes import Float
    from elementpath.exceptions import ElementPathError
    try:
        r = elementpath.select(None, text, item=1, parser=parsers()[version])
    except ElementPathError as e:
        code = (e.code or '').split(':')[-1]
        return ('err', code)
    except RecursionError:
        return ('escaped', 'RecursionError')
    except Exception as e:  # noqa
        return ('escaped', type(e).__name__)
    if isinstance(r, list):
        if len(r) != 1:
            return ('seq', len(r))
        r = r[0]
    if isinstance(r, bool):
        return ('other', repr(r))
    if isinstance(r, int):
        return ('int', Fraction(r))
    if isinstance(r, Decimal):
        if not r.is_finite():
            return ('other', repr(r))
        return ('dec', Fraction(r))
    if isinstance(r, float):
        t = 'flt' if isinstance(r, Float) else 'dbl'
        if math.isnan(r):
            return (t, 'nan')
        if math.isinf(r):
            return (t, 'pinf' if r > 0 else 'ninf')
        return (t, 'fin', float(r), math.copysign(1.0, r) < 0 and r == 0.0)
    return ('other', type(r).__name__)


def compare(exp, obs, version: str):
    """None if the observation conforms, else an outcome-class string."""
    if exp['t'] == 'err':
        if obs[0] == 'err':
            return None if obs[1] in exp['code'].split('|') else f'code:{obs[1]}'
        return 'value_instead_of_error' if obs[0] not in ('escaped',) else f'escaped:{obs[1]}'
    if obs[0] == 'err':
        return f'error:{obs[1]}'
    if obs[0] in ('escaped', 'seq', 'other'):
        return f'{obs[0]}:{obs[1]}'
    t = exp['t']
    if version == '1.0':
        # XPath 1.0 has one number type: compare the numeric value only
        if exp['k'] != 'fin':
            return None if (len(obs) > 1 and obs[1] == exp['k']) else 'value'
        if obs[0] in ('int', 'dec'):
            return None if obs[1] == frac(exp) else 'value'
        if obs[1] != 'fin':
            return 'value'
        return None if obs[2] == float(frac(exp)) else 'value'
    if obs[0] != t:
        # value right but type wrong is its own class
        return f'type:{obs[0]}'
    if t in ('int', 'dec'):
        if exp['ap']:
            q = frac(exp)
            return None if abs(obs[1] - q) <= abs(q) * Fraction(1, 10 ** 15) else 'value'
        return None if obs[1] == frac(exp) else 'value'
    if exp['k'] != 'fin':
        return None if obs[1] == exp['k'] else 'value'
    if obs[1] != 'fin':
        return 'value'
    want = float(frac(exp))
    if t == 'flt' and exp['ap']:
        w32 = struct.unpack('f', struct.pack('f', want))[0]
        if not (obs[2] == want or obs[2] == w32 or abs(obs[2] - want) <= abs(want) * 1e-6):
            return 'value'
    elif obs[2] != want:
        return 'value'
    if want == 0.0 and obs[3] != bool(exp['nz']):
        return 'zero_sign'
    return None


def second_oracle(src, action, args, dst):
    """python fractions cross-check of the SPEC on the exact fragment; returns a message or None."""
    if action != 'Bin' or src['t'] not in ('int', 'dec') or args[1]['t'] not in ('int', 'dec'):
        return None
    a, b, op = frac(src), frac(args[1]), args[0]
    if op in ('div', 'idiv', 'mod') and b == 0:
        return None if dst['t'] == 'err' and dst['code'] == 'FOAR0001' else 'div by zero'
    want = {'add': lambda: a + b, 'sub': lambda: a - b, 'mul': lambda: a * b, 'div': lambda: a / b,
            'idiv': lambda: Fraction(math.trunc(a / b)), 'mod': lambda: a - b * math.trunc(a / b)}[op]()
    if dst['t'] == 'err' or frac(dst) != want:
        return f'{a} {op} {b}: spec {dst} python {want}'
    return None


_nested_ok: dict = {}


SCALE = 3 ** 40    # 12157665459056928801: odd, above 2**53, not exactly representable as a double


def scaled_text(v, style='lit'):
    """operand text of the exact value v multiplied by SCALE (int stays int, decimal stays decimal)"""
    fr = frac(v) * SCALE
    if v['t'] == 'int':
        n = int(fr)
        return str(n) if n >= 0 else f'({n})'
    sd = dec_str(fr)
    if '.' not in sd:
        sd += '.0'
    return sd if not sd.startswith('-') else f'({sd})'


def scaled_expected(op, dst):
    """the law LawScale of spec/Numeric.tla applied with K = SCALE"""
    if dst['t'] == 'err' or op in ('idiv', 'div'):
        return dst
    k = SCALE * SCALE if op == 'mul' else SCALE
    fr = frac(dst) * k
    d = dict(dst)
    d['q'] = (fr.numerator, fr.denominator)
    return d


def evaluate_seq(text: str, version: str):
    """like evaluate() but for an expression returning a sequence: list of projected items"""
    import elementpath
    from elementpath.datatypes import Float
    from elementpath.exceptions import ElementPathError
    try:
        r = elementpath.select(None, text, item=1, parser=parsers()[version])
    except ElementPathError as e:
        return ('err', (e.code or '').split(':')[-1])
    except Exception as e:  # noqa
        return ('escaped', type(e).__name__)
    if not isinstance(r, list):
        r = [r]
    out = []
    for x in r:
        if isinstance(x, bool):
            out.append(('other', repr(x)))
        elif isinstance(x, int):
            out.append(('int', Fraction(x)))
        elif isinstance(x, Decimal):
            out.append(('dec', Fraction(x)) if x.is_finite() else ('other', repr(x)))
        elif isinstance(x, float):
            t = 'flt' if isinstance(x, Float) else 'dbl'
            if math.isnan(x):
                out.append((t, 'nan'))
            elif math.isinf(x):
                out.append((t, 'pinf' if x > 0 else 'ninf'))
            else:
                out.append((t, 'fin', float(x), math.copysign(1.0, x) < 0 and x == 0.0))
        else:
            out.append(('other', type(x).__name__))
    return out


def batch_worker(job):
    """(a) scaled vectors  (b) all operands of one (source, operator) in ONE expression with a `for`:
    the same operator token is evaluated once per operand, so state kept on the token shows."""
    batches, scaled = job
    fails, n = [], 0
    for (src, op, dsttext_pairs) in batches:
        args = [a for a, d in dsttext_pairs]
        if op in OPS:
            text = f'for $b in ({", ".join(args)}) return {render(src, "lit")} {OPS[op]} $b'
            vs = ['2.0', '3.1']
        elif op == 'RoundTo':
            text = f'for $p in ({", ".join(args)}) return round({render(src, "lit")}, $p)'
            vs = ['3.0', '3.1']
        else:
            text = f'for $p in ({", ".join(args)}) return round-half-to-even({render(src, "lit")}, $p)'
            vs = ['2.0', '3.1']
        for v in vs:
            obs = evaluate_seq(text, v)
            n += 1
            bad = None
            if isinstance(obs, tuple):
                bad = f'error:{obs[1]}'
            elif len(obs) != len(dsttext_pairs):
                bad = 'length'
            else:
                for (a, d), o in zip(dsttext_pairs, obs):
                    out = compare(d, o, v)
                    if out is not None:
                        # the same operand evaluated alone: if it fails in the same way this is the
                        # single-edge failure (reported by the edge replay), not an iteration effect
                        if op in OPS:
                            single = f'{render(src, "lit")} {OPS[op]} {a}'
                        elif op == 'RoundTo':
                            single = f'round({render(src, "lit")}, {a})'
                        else:
                            single = f'round-half-to-even({render(src, "lit")}, {a})'
                        n += 1
                        if compare(d, evaluate(single, v), v) is None:
                            bad = 'iteration:' + out
                            break
            if bad:
                fails.append((dict(action='Batch', op=op, ta=src['t'], outcome=bad, parser='2+',
                                   sign_a=sign_class(src)), dict(expr=text, parser=v, batch=True),
                              [d for a, d in dsttext_pairs], obs))
    for (src, op, b, dst) in scaled:
        text = f'{scaled_text(src)} {OPS[op]} {scaled_text(b)}'
        exp = scaled_expected(op, dst)
        for v in ('2.0', '3.1'):
            obs = evaluate(text, v)
            n += 1
            out = compare(exp, obs, v)
            if out is not None:
                fails.append((dict(action='Scaled', op=op, ta=src['t'], tb=b['t'], sign_a=sign_class(src),
                                   sign_b=sign_class(b), outcome=out, parser='2+',
                                   expected_kind=('err:' + exp['code']) if exp['t'] == 'err' else sign_class(exp)),
                              dict(expr=text, parser=v), exp, obs))
    return n, fails


def worker(job):
    edges, versions = job
    fails = []
    n_eval = 0
    oracle = []
    for (src, src_texts, action, args, dst) in edges:
        msg = second_oracle(src, action, args, dst)
        if msg:
            oracle.append(msg)
        for style, nested, stext in src_texts:
            if nested:
                # the nested spelling is only usable if it really evaluates to the source value
                ok = _nested_ok.get(stext)
                if ok is None:
                    ok = _nested_ok[stext] = compare(src, evaluate(stext, '3.1'), '3.1') is None
                if not ok:
                    continue
            if action == 'RoundTo' or 'round(' in stext:
                vs = [v for v in versions if v in ('3.0', '3.1')]
            elif action == 'RoundHE' or (action == 'Bin' and args[0] == 'idiv') or \
                    (action == 'Un' and args[0] == 'abs') or 'xs:' in stext or \
                    (action == 'Bin' and 'xs:' in render(args[1], style)):
                vs = [v for v in versions if v != '1.0']
            else:
                vs = versions
            text = expr_for(stext, action, args, style)
            for v in vs:
                if v == '1.0' and (src['t'] != 'dbl' or (action == 'Bin' and args[1]['t'] != 'dbl')
                                   or any(x in stext for x in (' idiv ', 'abs(', 'xs:', 'round-half', ', '))):
                    continue
                obs = evaluate(text, v)
                n_eval += 1
                out = compare(dst, obs, v)
                if out is not None:
                    b = args[1] if action == 'Bin' else None
                    feat = dict(action=action, op=(args[0] if action in ('Bin', 'Un') else action),
                                ta=src['t'], tb=(b['t'] if b else None),
                                sign_a=sign_class(src), sign_b=(sign_class(b) if b else None),
                                frac_a=frac_class(src), precision=(args[0] if action in ('RoundTo', 'RoundHE') else None),
                                outcome=out, parser=('1.0' if v == '1.0' else '2+'),
                                expected_kind=('err:' + dst['code']) if dst['t'] == 'err' else sign_class(dst))
                    fails.append((feat, dict(expr=text, parser=v), dst, obs))
    return n_eval, fails, oracle


def replay(rec: dict) -> int:
    core.setup_repo_path()
    if rec['case'].get('batch'):
        obs = evaluate_seq(rec['case']['expr'], rec['case']['parser'])
        print('expr     :', rec['case']['expr'], '\nexpected :', rec['expected'], '\nobserved :', obs)
        bad = isinstance(obs, tuple) or len(obs) != len(rec['expected']) or any(
            compare(dict(e, q=tuple(e['q'])) if 'q' in e else e, o, rec['case']['parser']) for e, o in zip(rec['expected'], obs))
        return 1 if bad else 0
    obs = evaluate(rec['case']['expr'], rec['case']['parser'])
    print('expr     :', rec['case']['expr'], ' parser', rec['case']['parser'])
    print('expected :', rec['expected'])
    print('observed :', obs)
    exp = rec['expected']
    exp['q'] = tuple(exp['q']) if 'q' in exp else None
    out = compare(exp, obs, rec['case']['parser'])
    if out is not None:
        print(f'VIOLATION property=C06 replay=(replayed) outcome={out}')
        return 1
    return 0


def run(chk: core.Check) -> None:
    core.setup_repo_path()
    chk.assumptions += [
        'spec/Numeric.tla is the oracle (exact rationals, IEEE specials, sign of zero); python fractions cross-check the exact fragment',
        'doubles compared with the correctly rounded float(Fraction); xs:decimal division precision and xs:float single-precision rounding are implementation-defined (approximate compare, terminal)',
        'XPath 1.0 parser: double fragment, numeric value only',
    ]
    versions = ['1.0', '2.0', '3.0', '3.1']
    for name, consts in TIERS[chk.tier]:
        wd = os.path.join(chk.scratch, name)
        dot = os.path.join(wd, 'g.dot')
        cfg = tla.cfg_text(consts, invariants=['Laws'], constraints=['Bounded', 'Small'])
        r = tla.require_ok(tla.run_tlc('Numeric', cfg, wd, dump_dot=dot), f'Numeric/{name}', min_distinct=100)
        chk.model(f'Numeric/{name}', r)
        g = tla.load_dot(dot)
        os.remove(dot)
        out = g.out()
        # BFS: nested expression text for every state (through any edge: the nested text is only an
        # alternative spelling of the source; a failing edge is reported on its own)
        nested: dict[int, str] = {}
        q = deque()
        for sid in g.init:
            q.append(sid)
        seen = set(g.init)
        while q:
            s = q.popleft()
            st = g.states[s]['acc']
            if st['t'] == 'err' or st.get('ap'):
                continue
            base = nested.get(s) or render(st, 'lit')
            for d, a, args in out[s]:
                if d not in seen:
                    seen.add(d)
                    nested[d] = '(' + expr_for(base, a, args, 'lit') + ')'
                    q.append(d)
        jobs_edges = []
        nontrivial = set()
        for s, d, a, args in g.edges:
            src, dst = g.states[s]['acc'], g.states[d]['acc']
            texts = [('lit', False, render(src, 'lit')), ('ctor', False, render(src, 'ctor'))]
            if s in nested:
                texts.append(('lit', True, nested[s]))
            jobs_edges.append((src, texts, a, args, dst))
            nontrivial.add((a, args, src))
        chk.add('transitions', len(jobs_edges))
        chk.add('traces_validated_against_impl', len(jobs_edges))
        chk.add('distinct_nontrivial', len(nontrivial))
        for e in jobs_edges[:: max(1, len(jobs_edges) // 6)][:6]:
            chk.sample(dict(expr=expr_for(e[1][0][2], e[2], e[3], 'lit'), expected=e[4]))
        # batches and scaled vectors (see batch_worker)
        groups: dict = {}
        scaled = []
        for s_, d_, a, args in g.edges:
            src, dst = g.states[s_]['acc'], g.states[d_]['acc']
            if src['t'] == 'err' or src.get('ap'):
                continue
            if a == 'Bin':
                if dst['t'] != 'err':
                    groups.setdefault((s_, args[0]), []).append((render(args[1], 'lit'), dst))
                b = args[1]
                # (xs:decimal has an implementation-defined precision, 28 digits here: products of two
                #  scaled decimals exceed it, so multiplication is scaled for integers only)
                if src['t'] in ('int', 'dec') and b['t'] in ('int', 'dec') and s_ in g.init and \
                        (dst['t'] == 'err' or not dst.get('ap')) and \
                        (args[0] != 'mul' or (src['t'] == 'int' and b['t'] == 'int')):
                    scaled.append((src, args[0], b, dst))
            elif a in ('RoundTo', 'RoundHE') and dst['t'] != 'err':
                groups.setdefault((s_, a), []).append((str(args[0]), dst))
        batches = [(g.states[k[0]]['acc'], k[1], sorted(v, key=lambda x: x[0])) for k, v in groups.items() if len(v) > 1]
        bres = core.pool_map(batch_worker, [(bc, sc) for bc, sc in zip(core.chunked(batches, 32), core.chunked(scaled, 32) + [[]] * 32)])
        for n_eval, fails in bres:
            chk.add('evaluations', n_eval)
            for feat, case, exp, obs in fails:
                chk.fail(feat, case, exp, obs, what=case['expr'])
        chk.coverage['batched_for_expressions'] = chk.coverage.get('batched_for_expressions', 0) + len(batches)
        chk.coverage['scaled_vectors_3pow40'] = chk.coverage.get('scaled_vectors_3pow40', 0) + len(scaled)
        results = core.pool_map(worker, [(c, versions) for c in core.chunked(jobs_edges, 64)])
        oracle_msgs = []
        for n_eval, fails, oracle in results:
            chk.add('evaluations', n_eval)
            oracle_msgs += oracle
            for feat, case, exp, obs in fails:
                chk.fail(feat, case, exp, obs, what=case['expr'])
        if oracle_msgs:
            raise tla.MachineryError(f'spec/Numeric disagrees with python fractions: {oracle_msgs[:5]}')
        print(f'  {name}: states={r.distinct} edges={len(jobs_edges)} tlc={r.wall_s:.1f}s', flush=True)
    chk.coverage['exhaustive'] = True
    chk.coverage['rule'] = ('every edge of the TLC graph of Numeric (accumulator x operator x grid operand, chains to MaxDepth) '
                            'is one case, rendered in literal, constructor and nested-expression spellings; distinct = (action, operand, source value)')
