"""C20 -- schema-aware evaluation assigns sound XSD types and never changes node selection.

Spec: spec/SchemaTyping.tla (abstract schemas, valid instances, lexical->value mappings,
Annot / InstanceOf / probes), spec/SchemaWalk.tla (step machine of apply_schema, clear_types,
lazy attribute lists and the XPathContext.schema setter driven through context histories
None / S / S'), spec/SchemaSelect.tla (path steps of spec/Paths.tla on the flattened instance,
with and without the PSVI attributes).  TLC enumerates the (S, S', instance) universe, checks
the refinement invariants and the laws, prints one expectation vector per triple / pair and
dumps the state graphs; everything expected below is read from that output.

Binding A (public API only): the abstract schema is rendered as XSD text, the instance as an
xml.etree / lxml tree; xmlschema.XMLSchema10/11(xsd).xpath_proxy is the schema proxy.
  fresh    : a new XPathContext(root, schema=proxy) per schema slot: type_name / nilled /
             typed_value of every element and attribute node, `instance of element(*,T)` /
             `attribute(*,T)` for 16 types, `. + 1`, `. = 7`, `. lt xs:date(..)`, through cached
             parser tokens and through elementpath.select()
  history  : ONE node tree + ONE XPathContext driven along every API-level edge of the
             SchemaWalk graph (context.schema = proxy_k / None, first access of .attributes),
             BFS prefix through transitions that passed; compared with the post-state and, after
             reading everything, with Annot(current schema)
  select   : every edge of the SchemaSelect graph = one path (<= 2 steps) evaluated with the
             schema, without it and -- when the PSVI adds attributes -- schema-less on the same
             document with those attributes written out; node ids by object identity / (owner,
             attribute name).  C20 is judged on the RELATION the property states (with == without;
             with == schema-less on the materialised PSVI): a schema-less result that departs from
             the spec / libxml2 is property C01's business (counted as select_baseline_mismatch_C01,
             e.g. attribute::* from an attribute context node), never a C20 failure.
Second oracles for the SPEC (disagreement = MachineryError): xmlschema validates every instance
and decodes every lexical (the oracle the property names); libxml2 evaluates every path on the
schema-less tree.

Implementation-defined / excluded (see module headers of the specs): wildcards, substitution
groups, identity constraints, assertions; type annotation of xsi:* attribute nodes; relative
order of the attributes of one element; error codes (only the outcome class is compared).
Reading of the last sentence of the property: attributes absent from the instance whose
declaration has a default are PSVI nodes (XSD 1, 3.4.5.1; XDM 6.2.3), so `with schema` may select
exactly those additional nodes -- SchemaSelect computes both selections.
"""
from __future__ import annotations

import os
import re
import time
from collections import deque
from copy import copy
from decimal import Decimal
from fractions import Fraction

from .. import core, tla

XSD = 'http://www.w3.org/2001/XMLSchema'
XSI = 'http://www.w3.org/2001/XMLSchema-instance'
TNS = 'urn:t'
NS = {'': TNS, 't': TNS, 'xs': XSD, 'xsi': XSI}

BUILTIN = {'short', 'int', 'long', 'integer', 'decimal', 'string', 'date', 'boolean', 'unsignedLong',
           'nonNegativeInteger', 'gYearMonth', 'gYear', 'QName', 'anyAtomicType', 'anySimpleType', 'anyType',
           'dateTime', 'dateTimeStamp'}
ALIAS = {'bint': 'integer', 'bdec': 'decimal', 'qname': 'QName'}       # spec names of built-ins whose values are digit sequences
QUERY = ['short', 'int', 'long', 'integer', 'decimal', 'string', 'date', 'boolean', 'small', 'ilist',
         'u', 'ud', 'v', 'sc', 'grp', 'unsignedLong', 'nonNegativeInteger', 'gYearMonth', 'gYear', 'qname',
         'anyAtomicType', 'anySimpleType', 'anyType']
# the built-in atomic queries asked with ONE parsed expression over all the children of the root
MULTI_QUERY = ['int', 'long', 'integer', 'decimal', 'string', 'date', 'boolean', 'anyAtomicType']
ELEM_KINDS = ('ea', 'eb', 'em')
TYPED_KINDS = ('ea', 'eb', 'em', 'xa', 'xc')


def qn(t: str) -> str:
    t = ALIAS.get(t, t)
    return ('xs:' if t in BUILTIN else 't:') + t


def tname(ty: str) -> str:
    """abstract type of the spec -> what type_tag() gives for it: anonymous types have no name"""
    if ty == 'root' or ty.startswith('~'):
        return 'anon'
    return ALIAS.get(ty, ty)


def kd(ty, mn=1, mx=1, nil=False, dv=False, sg=False, anon=False):
    return tla.FrozenDict(ty=ty, mn=mn, mx=mx, nil=nil, dv=dv, sg=sg, anon=anon)


def ad(nm, ty, use='opt'):
    return tla.FrozenDict(nm=nm, ty=ty, use=use)


AXES_Q = ["self", "child", "attribute", "parent", "descendant", "descendant-or-self",
          "following-sibling", "preceding-sibling"]
AXES_T = AXES_Q + ["ancestor", "ancestor-or-self", "following", "preceding"]
TESTS = ["node()", "*", "a", "b", "text()"]
XKINDS = {"ea", "eb", "t", "xa", "xc"}

PROCS = int(os.environ.get('C20_PROCS', '16'))
SIMPLE9 = ['int', 'integer', 'decimal', 'string', 'date', 'boolean', 'small', 'ilist', 'u', 'ud']

# round 6: restriction chains c1..c6 above xs:short; the XSD 1.1-only built-in xs:dateTimeStamp as declared type and as the
# base of the user restriction `recent` (such schemas exist under XSD 1.1 only: vec['versions'] comes from the spec)
EXT_QUICK = ('ext', dict(KidMenu={kd('c1', 1, 1), kd('c3', 1, 2), kd('c4', 1, 1), kd('c6', 0, 1), kd('recent', 1, 2),
                                  kd('dateTimeStamp', 1, 1), kd('dateTime', 1, 1)},
                         AttrMenu={ad('a', 'recent'), ad('c', 'c5')}),
             dict(MinKids=1, MaxKids=1, MaxAtts=1, LexCap=2, XsiOn=False, VOn=False, RetypeTo={'string', 'c2'}))
EXT_THOROUGH = ('ext', dict(KidMenu={kd(f'c{k}', 1, 2, True, k % 2 == 0) for k in range(1, 7)}
                            | {kd('recent', 1, 2, True, True), kd('dateTimeStamp', 1, 1), kd('dateTime', 0, 1)},
                            AttrMenu={ad('a', 'recent'), ad('c', 'c5'), ad('a', 'c4', 'dflt'), ad('c', 'dateTimeStamp', 'req')}),
                dict(MinKids=1, MaxKids=2, MaxAtts=1, LexCap=2, XsiOn=False, VOn=False, RetypeTo={'string', 'c2', 'dateTime'}))

# name -> (definitions that go into the generated MC module, plain constants)
WALK = {
    'quick': [
        ('types', dict(KidMenu={kd(t, 0, 2) for t in SIMPLE9 + ['sc', 'grp']}, AttrMenu=set()),
         dict(MinKids=1, MaxKids=1, MaxAtts=0, LexCap=4, XsiOn=False, VOn=False, RetypeTo={'string', 'decimal'})),
        ('flags', dict(KidMenu={kd(t, 1, 1, True, True) for t in ['int', 'decimal', 'date', 'small', 'ilist', 'u', 'ud', 'sc']}
                       | {kd('integer', 0, 1, True, False)}, AttrMenu=set()),
         dict(MinKids=1, MaxKids=1, MaxAtts=0, LexCap=2, XsiOn=True, VOn=False, RetypeTo={'decimal', 'string'})),
        ('attrs', dict(KidMenu={kd('sc', 0, 1)},
                       AttrMenu={ad('a', 'date'), ad('a', 'int', 'dflt'), ad('c', 'boolean', 'dflt'), ad('c', 'ilist', 'req')}),
         dict(MinKids=1, MaxKids=1, MaxAtts=2, LexCap=1, XsiOn=False, VOn=False, RetypeTo={'string'})),
        ('seq3', dict(KidMenu={kd('int', 1, 1, False, True), kd('int', 0, 1), kd('grp', 1, 1)},
                      AttrMenu=set()),
         dict(MinKids=3, MaxKids=3, MaxAtts=0, LexCap=1, XsiOn=False, VOn=False, RetypeTo={'string'})),
        # substitution group: kid 1 is a ref to the global head a, <m> is its member with a derived type
        ('sg', dict(KidMenu={kd('decimal', 1, 2, sg=True), kd('int', 0, 2, sg=True)}, AttrMenu=set()),
         dict(MinKids=1, MaxKids=1, MaxAtts=0, LexCap=2, XsiOn=False, VOn=False, RetypeTo={'integer'})),
        # the global type v is defined differently by S and S' (restriction of the type of kid 1); xsi:type="v"
        ('vtype', dict(KidMenu={kd('int', 1, 2), kd('decimal', 0, 1)}, AttrMenu=set()),
         dict(MinKids=1, MaxKids=1, MaxAtts=0, LexCap=1, XsiOn=False, VOn=True, RetypeTo={'string', 'decimal'})),
        # built-ins with one datatype class / value space per XSD version, xs:QName, xsi:nil="false"
        ('ver', dict(KidMenu={kd('gYearMonth', 1, 2), kd('gYear', 1, 1, True), kd('date', 0, 1), kd('qname', 1, 1),
                              kd('int', 1, 1, True, anon=True)},
                     AttrMenu={ad('a', 'gYearMonth'), ad('c', 'gYear', 'dflt')}),
         dict(MinKids=1, MaxKids=1, MaxAtts=1, LexCap=2, XsiOn=False, VOn=False, RetypeTo={'string'})),
        # anonymous local simple types (type_name None) with different bases next to each other
        ('anon', dict(KidMenu={kd('int', 1, 1, anon=True), kd('string', 1, 1, anon=True), kd('decimal', 0, 1, anon=True),
                               kd('int', 1, 2), kd('u', 1, 2)}, AttrMenu=set()),
         dict(MinKids=2, MaxKids=2, MaxAtts=0, LexCap=1, XsiOn=False, VOn=False, RetypeTo={'string'})),
        # values that do not fit a double: xs:long / xs:unsignedLong / xs:integer / xs:decimal beyond 2^53
        ('big', dict(KidMenu={kd('long', 1, 1), kd('unsignedLong', 1, 1), kd('bint', 1, 1), kd('bdec', 1, 1)},
                     AttrMenu=set()),
         dict(MinKids=2, MaxKids=2, MaxAtts=0, LexCap=2, XsiOn=False, VOn=False, RetypeTo={'bint'})),
        EXT_QUICK,
    ],
    'thorough': [
        EXT_QUICK,      # EXT_THOROUGH (nillable / default flags, two kids) is written but was never executed in the build
                        # session (time): the thorough tier keeps the configuration that was validated
        ('sg', dict(KidMenu={kd(t, mn, 2, sg=True) for t in ['decimal', 'integer', 'int'] for mn in (0, 1)} | {kd('string', 1, 1)},
                    AttrMenu=set()),
         dict(MinKids=1, MaxKids=2, MaxAtts=0, LexCap=2, XsiOn=False, VOn=False, RetypeTo={'integer', 'decimal'})),
        ('vtype', dict(KidMenu={kd(t, 1, 2) for t in ['int', 'integer', 'decimal', 'string']} | {kd('boolean', 0, 1)}, AttrMenu=set()),
         dict(MinKids=1, MaxKids=2, MaxAtts=0, LexCap=1, XsiOn=False, VOn=True, RetypeTo={'string', 'decimal', 'integer'})),
        ('ver', dict(KidMenu={kd(t, 1, 2, True, True) for t in ['gYearMonth', 'gYear', 'date', 'qname']}
                              | {kd('int', 1, 1, True, anon=True), kd('string', 0, 1, True, anon=True)},
                     AttrMenu={ad('a', 'gYearMonth'), ad('c', 'gYear', 'dflt'), ad('c', 'qname')}),
         dict(MinKids=1, MaxKids=1, MaxAtts=1, LexCap=2, XsiOn=False, VOn=False, RetypeTo={'string'})),
        ('anon', dict(KidMenu={kd(t, 1, 1, anon=True) for t in ['int', 'string', 'decimal', 'integer']}
                      | {kd('int', 1, 2), kd('u', 1, 2), kd('string', 0, 1, True, True, anon=True)}, AttrMenu=set()),
         dict(MinKids=2, MaxKids=3, MaxAtts=0, LexCap=1, XsiOn=False, VOn=False, RetypeTo={'string', 'decimal'})),
        ('big', dict(KidMenu={kd(t, 1, 1) for t in ['long', 'unsignedLong', 'bint', 'bdec']},
                     AttrMenu={ad('c', 'bint')}),
         dict(MinKids=2, MaxKids=2, MaxAtts=1, LexCap=2, XsiOn=False, VOn=False, RetypeTo={'bint', 'bdec'})),
        ('types2', dict(KidMenu={kd(t, 1, 1) for t in SIMPLE9 + ['sc', 'grp']}, AttrMenu={ad('a', 'int')}),
         dict(MinKids=2, MaxKids=2, MaxAtts=1, LexCap=1, XsiOn=False, VOn=False, RetypeTo={'string'})),
        ('types', dict(KidMenu={kd(t, 0, 2) for t in SIMPLE9 + ['sc', 'grp']}, AttrMenu=set()),
         dict(MinKids=1, MaxKids=1, MaxAtts=0, LexCap=4, XsiOn=False, VOn=False, RetypeTo={'string', 'decimal', 'integer', 'u', 'ilist'})),
        ('flags', dict(KidMenu={kd(t, 1, 2, True, True) for t in SIMPLE9 + ['sc']}
                       | {kd(t, 0, 1, True, False) for t in ['integer', 'decimal', 'int']}, AttrMenu=set()),
         dict(MinKids=1, MaxKids=1, MaxAtts=0, LexCap=4, XsiOn=True, VOn=False, RetypeTo={'decimal', 'string', 'integer', 'u'})),
        ('attrs', dict(KidMenu={kd('sc', 0, 1)},
                       AttrMenu={ad('a', 'date'), ad('a', 'int', 'dflt'), ad('a', 'ilist'), ad('a', 'u', 'dflt'),
                                 ad('c', 'boolean', 'dflt'), ad('c', 'small', 'req'), ad('c', 'decimal', 'dflt')}),
         dict(MinKids=1, MaxKids=1, MaxAtts=2, LexCap=1, XsiOn=False, VOn=False, RetypeTo={'string', 'decimal'})),
        ('seq3', dict(KidMenu={kd('int', 1, 1, False, True), kd('int', 0, 1), kd('decimal', 1, 2, False, True),
                               kd('grp', 1, 1)},
                      AttrMenu=set()),
         dict(MinKids=3, MaxKids=3, MaxAtts=0, LexCap=1, XsiOn=False, VOn=False, RetypeTo={'string'})),
    ],
}

SELECT = {
    'quick': [
        ('sel', dict(KidMenu={kd('date', 0, 2), kd('sc', 0, 1), kd('grp', 1, 1), kd('string', 1, 1)},
                     AttrMenu={ad('a', 'date'), ad('c', 'boolean', 'dflt')}),
         dict(MinKids=0, MaxKids=2, MaxAtts=2, LexCap=1, XsiOn=False, VOn=False, Axes=set(AXES_Q), Tests=set(TESTS), MaxSteps=2,
              Kinds=XKINDS, RootCfg='R2'),
         [2, 3, 4]),
    ],
    'thorough': [
        ('sel', dict(KidMenu={kd('date', 0, 2), kd('sc', 0, 1), kd('grp', 1, 1), kd('string', 1, 1), kd('grp', 0, 2)},
                     AttrMenu={ad('a', 'date'), ad('c', 'boolean', 'dflt'), ad('a', 'int', 'dflt')}),
         dict(MinKids=0, MaxKids=2, MaxAtts=2, LexCap=1, XsiOn=False, VOn=False, Axes=set(AXES_T), Tests=set(TESTS), MaxSteps=2,
              Kinds=XKINDS, RootCfg='R2'),
         [1, 2, 3, 4, 5, 6, 7, 8]),
    ],
}


# ---------------------------------------------------------------------------------------
# TLC plumbing

def mc_module(base: str, name: str, defs: dict, gen_dir: str) -> str:
    """Record-valued constants cannot be written in a cfg file: they are definitions of a generated
    module MC_<x> that extends the specification; returns the cfg substitution lines."""
    os.makedirs(gen_dir, exist_ok=True)
    body = f'---- MODULE {name} ----\nEXTENDS {base}\n'
    body += ''.join(f'MC_{k} == {tla.to_tla(v)}\n' for k, v in defs.items()) + '====\n'
    with open(os.path.join(gen_dir, name + '.tla'), 'w') as fh:
        fh.write(body)
    return ''.join(f'CONSTANT {k} <- MC_{k}\n' for k in defs)


def printed(output: str, tag: str):
    """Values printed with PrintT(<<tag, ...>>); TLC pretty-prints long tuples as `<< "tag",` ."""
    for m in re.finditer(r'<<\s*"' + re.escape(tag) + r'",', output):
        j = m.start()
        depth, k, n, in_str = 0, j, len(output), False
        while k < n:
            c = output[k]
            if in_str:
                if c == '\\':
                    k += 1
                elif c == '"':
                    in_str = False
            elif c == '"':
                in_str = True
            elif output.startswith('<<', k):
                depth += 1
                k += 1
            elif output.startswith('>>', k):
                depth -= 1
                k += 1
                if depth == 0:
                    break
            k += 1
        yield tla.parse_value(output[j:k + 1])[1:]


def lex(t) -> str:
    return ''.join(t)


# ---------------------------------------------------------------------------------------
# rendering (dumb, 1:1)

KIDNAME = {1: 'a', 2: 'b', 3: 'a'}
TYPE_DEFS = (
    '<xs:simpleType name="small"><xs:restriction base="xs:int"><xs:maxInclusive value="10"/></xs:restriction></xs:simpleType>'
    '<xs:simpleType name="ilist"><xs:list itemType="xs:int"/></xs:simpleType>'
    '<xs:simpleType name="u"><xs:union memberTypes="xs:int xs:string"/></xs:simpleType>'
    '<xs:simpleType name="ud"><xs:union memberTypes="xs:decimal xs:string"/></xs:simpleType>'
    '<xs:complexType name="sc"><xs:simpleContent><xs:extension base="xs:decimal">'
    '<xs:attribute name="a" type="xs:int"/></xs:extension></xs:simpleContent></xs:complexType>'
    '<xs:complexType name="grp"><xs:sequence><xs:element name="b" type="xs:boolean" minOccurs="0"/></xs:sequence></xs:complexType>')


def xsd_text(S, sdef, nons: bool = False) -> str:
    """nons=True: the same schema without a target namespace (elements and types in no namespace)"""
    if nons:
        return xsd_text(S, sdef).replace(f' xmlns:t="{TNS}" targetNamespace="{TNS}" elementFormDefault="qualified"', '') \
            .replace('"t:', '"')
    out = [f'<xs:schema xmlns:xs="{XSD}" xmlns:t="{TNS}" targetNamespace="{TNS}" elementFormDefault="qualified">',
           TYPE_DEFS,
           # the global type whose definition depends on the schema
           f'<xs:simpleType name="v"><xs:restriction base="{qn(sdef["vbase"])}"/></xs:simpleType>']
    for name, base_ in sorted(sdef.get('xdefs', ())):      # user types of the extension (restriction steps, no facet)
        out.append(f'<xs:simpleType name="{name}"><xs:restriction base="{qn(base_)}"/></xs:simpleType>')
    for pos, d in enumerate(S['kids'], 1):
        if d['sg']:      # the head of the substitution group and its member are global elements
            out.append(f'<xs:element name="{KIDNAME[pos]}" type="{qn(d["ty"])}"/>'
                       f'<xs:element name="m" type="{qn(sdef["sgm"][pos - 1])}" substitutionGroup="t:{KIDNAME[pos]}"/>')
    out.append('<xs:element name="b"><xs:complexType><xs:sequence>')
    for pos, d in enumerate(S['kids'], 1):
        if d['sg']:
            out.append(f'<xs:element ref="t:{KIDNAME[pos]}" minOccurs="{d["mn"]}" maxOccurs="{d["mx"]}"/>')
            continue
        a = f'<xs:element name="{KIDNAME[pos]}" minOccurs="{d["mn"]}" maxOccurs="{d["mx"]}"'
        if not d['anon']:
            a += f' type="{qn(d["ty"])}"'
        if d['nil']:
            a += ' nillable="true"'
        if d['dv']:
            a += f' default="{lex(sdef["kids"][pos - 1])}"'
        if d['anon']:      # an anonymous local type: restriction (no facet) of ty
            out.append(a + f'><xs:simpleType><xs:restriction base="{qn(d["ty"])}"/></xs:simpleType></xs:element>')
        else:
            out.append(a + '/>')
    out.append('</xs:sequence>')
    adef = dict(sdef['atts'])
    for d in sorted(S['atts'], key=lambda x: x['nm']):
        a = f'<xs:attribute name="{d["nm"]}" type="{qn(d["ty"])}"'
        if d['use'] == 'req':
            a += ' use="required"'
        elif d['use'] == 'dflt':
            a += f' default="{lex(adef[d["nm"]])}"'
        out.append(a + '/>')
    out.append('</xs:complexType></xs:element></xs:schema>')
    return ''.join(out)


class Doc:
    """The instance as a real tree, built node by node from Flatten(S, inst) (PSVI nodes skipped)."""

    def __init__(self, f, lib: str, materialise: bool = False, env: str = 'plain', nsplace: str = 'root',
                 nons: bool = False):
        """materialise=True writes the attributes the PSVI would add into the document itself.
        Renderings the annotations must not depend on (SchemaTyping: DocEnvs, NsPlaces):
        env: comment / PI beside the root element (lxml keeps them as children of the document; the
             context root is then the ElementTree, the context item the root element);
        nsplace: where the prefix of an xsi:type value is declared (lxml; xml.etree has no per-element
             namespace map): 'root' | 'self' (prefix q / x on the element only) | 'redecl' (root binds q / x
             to another URI, the element re-declares them);
        nons: the schema has no target namespace (elements and types in no namespace)."""
        tns = None if nons else TNS
        tag_ = (lambda name: name) if nons else (lambda name: f'{{{TNS}}}{name}')
        if lib == 'etree':
            import xml.etree.ElementTree as mod
            mk = lambda tag: mod.Element(tag)   # noqa
            env, nsplace = 'plain', 'root'      # xml.etree keeps neither document-level siblings nor local prefixes
        else:
            import lxml.etree as mod
            rmap = {'xs': XSD, 'xsi': XSI} if nons else {None: TNS, 't': TNS, 'xs': XSD, 'xsi': XSI}
            if nsplace == 'redecl':
                rmap = dict(rmap, q='urn:other', x='urn:other')
            mk = lambda tag: mod.Element(tag, nsmap=rmap)   # noqa
        self.env, self.nsplace, self.nons = env, nsplace, nons
        has_xt = {nd['par'] for nd in f if nd['s'] == 'xtype'}
        self.lib = lib
        self.f = f
        self.obj: dict[int, object] = {}        # id -> element | (element, attr name) | ('text', element)
        self.paths: dict[int, str] = {}         # id -> XPath text selecting the node from the root element
        count: dict[str, int] = {}
        for n, nd in enumerate(f, 1):
            s = nd['s']
            if s == 'root':
                self.root = self.obj[n] = mk(tag_('b'))
                self.paths[n] = '.'
            elif s in ('ratt_a', 'ratt_c'):
                name = s[-1]
                if materialise or not nd['dflt']:
                    self.root.set(name, lex(nd['lx']))
                self.obj[n] = (self.root, name)
                self.paths[n] = '@' + name
            elif s == 'kid':
                name = 'm' if nd['k'] == 'em' else KIDNAME[nd['i']]
                if lib == 'lxml' and nsplace != 'root' and n in has_xt:
                    el = mod.SubElement(self.root, tag_(name), nsmap={'q': TNS, 'x': XSD})   # declared on the element itself
                else:
                    el = mod.SubElement(self.root, tag_(name))
                if nd['lx']:
                    el.text = lex(nd['lx'])
                self.obj[n] = el
                count[name] = count.get(name, 0) + 1
                self.paths[n] = f'{name}[{count[name]}]'
            elif s == 'xnil':
                self.obj[nd['par']].set(f'{{{XSI}}}nil', lex(nd['lx']))
            elif s == 'xtype':
                q = qn(nd['lx'][0])
                if nons:
                    q = q[2:] if q.startswith('t:') else q
                elif lib == 'lxml' and nsplace != 'root':
                    q = ('q:' if q.startswith('t:') else 'x:') + q.split(':')[1]
                self.obj[nd['par']].set(f'{{{XSI}}}type', q)
            elif s == 'katt':
                self.obj[nd['par']].set('a', lex(nd['lx']))
                self.obj[n] = (self.obj[nd['par']], 'a')
                self.paths[n] = self.paths[nd['par']] + '/@a'
            elif s == 'sub':
                el = mod.SubElement(self.obj[nd['par']], tag_('b'))
                el.text = lex(nd['lx'])
                self.obj[n] = el
                self.paths[n] = self.paths[nd['par']] + '/b'
            elif s in ('ktext', 'subtext'):
                self.obj[n] = ('text', self.obj[nd['par']])
            else:
                raise tla.MachineryError(f'unknown node source {s}')
        self.key2id = {}
        for n, o in self.obj.items():
            if isinstance(o, tuple):
                if o[0] == 'text':
                    self.key2id[('text', id(o[1]))] = n
                else:
                    self.key2id[(id(o[0]), o[1])] = n
            else:
                self.key2id[id(o)] = n
        self.mod = mod
        # the root of the context: the element, or -- with document-level siblings -- the document
        self.ctxroot = self.root
        if lib == 'lxml' and env != 'plain':
            if env in ('prolog', 'both'):
                self.root.addprevious(mod.Comment(' generated '))
                self.root.addprevious(mod.ProcessingInstruction('style', 'x'))
            if env in ('epilog', 'both'):
                self.root.addnext(mod.Comment(' trailer '))
            self.ctxroot = self.root.getroottree()
        self.ns = {'xs': XSD, 'xsi': XSI} if nons else NS

    def q(self, t: str) -> str:
        """QName of a type in XPath text"""
        name = qn(t)
        return name[2:] if self.nons and name.startswith('t:') else name

    def context(self, proxy=None):
        from elementpath import XPathContext
        if self.ctxroot is self.root:
            return XPathContext(self.root, namespaces=self.ns, schema=proxy)
        return XPathContext(self.ctxroot, namespaces=self.ns, item=self.root, schema=proxy)

    def xml(self) -> str:
        s = self.mod.tostring(self.root)
        return s.decode() if isinstance(s, bytes) else s

    def node_id(self, node):
        """XPathNode of a result -> abstract id."""
        kind = getattr(node, 'node_kind', None)
        if kind == 'element':
            return self.key2id.get(id(node.value), ('?', repr(node)))
        if kind == 'attribute':
            return self.key2id.get((id(node.parent.value), node.name), ('?attr', node.name))
        if kind == 'text':
            return self.key2id.get(('text', id(node.parent.value)), ('?text', str(node.value)))
        if kind == 'document':
            return 0
        return ('?', repr(node))

    def lx_id(self, item):
        """lxml xpath() result item -> abstract id."""
        if hasattr(item, 'tag'):
            return self.key2id.get(id(item), ('?', repr(item)))
        par = item.getparent()
        if getattr(item, 'is_attribute', False):
            return self.key2id.get((id(par), item.attrname), ('?attr', item.attrname))
        return self.key2id.get(('text', id(par)), ('?text', str(item)))


# ---------------------------------------------------------------------------------------
# per-process caches

_schemas: dict = {}
_tokens: dict = {}
_parsers = None


def parsers():
    global _parsers
    if _parsers is None:
        from elementpath import XPath2Parser
        from elementpath.xpath30 import XPath30Parser
        from elementpath.xpath31 import XPath31Parser
        _parsers = {'2.0': XPath2Parser, '3.0': XPath30Parser, '3.1': XPath31Parser}
    return _parsers


def get_schema(xsd: str, version: str):
    """compiled schema + ONE proxy per (schema text, version); a second, distinct proxy as [2]"""
    key = (xsd, version)
    s = _schemas.get(key)
    if s is None:
        import xmlschema
        if len(_schemas) > 4000:
            _schemas.clear()
            _tokens.clear()
        cls = xmlschema.XMLSchema11 if version == '1.1' else xmlschema.XMLSchema10
        try:
            sch = cls(xsd)
        except Exception as e:  # the spec generated a schema that is not an XSD schema
            raise tla.MachineryError(f'xmlschema rejects a generated schema: {type(e).__name__}: {e}\n{xsd}')
        s = _schemas[key] = (sch, sch.xpath_proxy)
    return s


def get_token(expr: str, pv: str, proxy, ns=None):
    ns = NS if ns is None else ns
    key = (expr, pv, id(proxy), '' in ns)
    t = _tokens.get(key)
    if t is None:
        if len(_tokens) > 200000:
            _tokens.clear()
        try:
            t = parsers()[pv](namespaces=ns, schema=proxy).parse(expr)
        except Exception as e:
            t = e
        _tokens[key] = t
    return t


def err_class(e) -> tuple:
    from elementpath.exceptions import ElementPathError
    if isinstance(e, ElementPathError):
        return ('err', (getattr(e, 'code', '') or '').split(':')[-1])
    return ('escaped', type(e).__name__)


def evaluate(expr: str, pv: str, proxy, ctx):
    """value list | ('err', code) | ('escaped', cls); through a cached token and a copy of the context"""
    tok = get_token(expr, pv, proxy, ctx.namespaces)
    if isinstance(tok, Exception):
        c = err_class(tok)
        return ('static', c[1]) if c[0] == 'err' else c     # raised by parse(): the schema-aware static analysis
    try:
        r = tok.get_results(copy(ctx))
    except RecursionError:
        return ('escaped', 'RecursionError')
    except Exception as e:  # noqa
        return err_class(e)
    return r if isinstance(r, list) else [r]


def select_api(root, expr: str, pv: str, proxy, ns=None, item=None):
    import elementpath
    ns = NS if ns is None else ns
    tok = get_token(expr, pv, proxy, ns)
    if isinstance(tok, Exception) and err_class(tok)[0] == 'err':
        return ('static', err_class(tok)[1])
    try:
        kw = {} if item is None else {'item': item}
        r = elementpath.select(root, expr, namespaces=ns, parser=parsers()[pv], schema=proxy, **kw)
    except RecursionError:
        return ('escaped', 'RecursionError')
    except Exception as e:  # noqa
        return err_class(e)
    return r if isinstance(r, list) else [r]


def entry_eval(entry: str, doc, expr: str, pv: str, proxy):
    """the same evaluation through one of the public entry points (SchemaTyping: EntryPoints); the schema goes to
    the parser (Selector(schema=..) / select(schema=..)), to the call (`+call`: the Selector has none), or both"""
    import elementpath
    from elementpath import Selector
    cls = parsers()[pv]
    kw = {} if doc.ctxroot is doc.root else {'item': doc.root}
    try:
        if entry == 'select':
            r = elementpath.select(doc.ctxroot, expr, namespaces=doc.ns, parser=cls, schema=proxy, **kw)
        elif entry == 'iter_select':
            r = list(elementpath.iter_select(doc.ctxroot, expr, namespaces=doc.ns, parser=cls, schema=proxy, **kw))
        elif entry == 'Selector.select':
            r = Selector(expr, namespaces=doc.ns, parser=cls, schema=proxy).select(doc.ctxroot, **kw)
        elif entry == 'Selector.iter_select':
            r = list(Selector(expr, namespaces=doc.ns, parser=cls, schema=proxy).iter_select(doc.ctxroot, **kw))
        elif entry == 'Selector.select+call':
            r = Selector(expr, namespaces=doc.ns, parser=cls).select(doc.ctxroot, schema=proxy, **kw)
        elif entry == 'Selector.iter_select+call':
            r = list(Selector(expr, namespaces=doc.ns, parser=cls).iter_select(doc.ctxroot, schema=proxy, **kw))
        elif entry == 'token.get_results':
            r = cls(namespaces=doc.ns, schema=proxy).parse(expr).get_results(doc.context(proxy))
        elif entry == 'token.select_results':
            r = list(cls(namespaces=doc.ns, schema=proxy).parse(expr).select_results(doc.context(proxy)))
        else:
            raise tla.MachineryError(f'unknown entry point {entry}')
    except RecursionError:
        return ('escaped', 'RecursionError')
    except tla.MachineryError:
        raise
    except Exception as e:  # noqa
        return err_class(e)
    return r if isinstance(r, list) else [r]


# ---------------------------------------------------------------------------------------
# projections: real value -> abstract

def value_classes(version: str) -> dict:
    import elementpath.datatypes as dt
    return {'long': dt.Long, 'unsignedLong': dt.UnsignedLong, 'bigInteger': dt.Integer, 'bigDecimal': Decimal,
            'int': dt.Int, 'integer': dt.Integer, 'short': dt.Short,
            'dateTime': dt.DateTime10 if version == '1.0' else dt.DateTime, 'dateTimeStamp': dt.DateTimeStamp, 'decimal': Decimal, 'string': str, 'boolean': bool,
            'date': dt.Date10 if version == '1.0' else dt.Date, 'untypedAtomic': dt.UntypedAtomic,
            # one class per XSD version (SchemaTyping: VersionedTags): the EXACT class is required
            'gYearMonth': dt.GregorianYearMonth10 if version == '1.0' else dt.GregorianYearMonth,
            'gYear': dt.GregorianYear10 if version == '1.0' else dt.GregorianYear, 'QName': dt.QName}


VERSIONED = ('date', 'gYearMonth', 'gYear')


def tag_of(v) -> str:
    import elementpath.datatypes as dt
    if isinstance(v, bool):
        return 'boolean'
    for cls, tag in ((dt.UntypedAtomic, 'untypedAtomic'), (dt.Short, 'short'), (dt.Int, 'int'), (dt.Long, 'long')):
        if isinstance(v, cls):
            return tag
    if isinstance(v, int):
        return 'integer'
    if isinstance(v, Decimal):
        return 'decimal'
    if isinstance(v, float):
        return 'double'
    if isinstance(v, str):
        return 'string'
    if isinstance(v, dt.Date10):
        return 'date'
    return type(v).__name__


def big_decimal(b) -> Decimal:
    return Decimal(lex(b['ip']) + ('.' + lex(b['fp']) if b['fp'] else ''))


def same_value(exp, v) -> bool:
    """exp: abstract atomic value of the spec; v: a Python value (elementpath or xmlschema)"""
    t = exp['t']
    try:
        if 'ip' in exp:      # a big number of the spec: digit sequences, compared exactly
            return isinstance(v, (int, Decimal)) and not isinstance(v, bool) and Decimal(v) == big_decimal(exp)
        if t in ('dateTime', 'dateTimeStamp'):
            return (v.year, v.month, v.day, v.hour, v.minute, v.second, v.microsecond) == \
                (exp['y'], exp['m'], exp['d'], exp['h'], exp['mi'], exp['sec'], 0) and \
                ((v.tzinfo is not None and v.tzinfo.utcoffset(None).total_seconds() == 0) if exp['z'] else v.tzinfo is None)
        if t in ('short', 'int', 'integer'):
            return isinstance(v, (int, Decimal)) and not isinstance(v, bool) and v == exp['i']
        if t == 'decimal':
            return isinstance(v, (int, Decimal)) and not isinstance(v, bool) and \
                Fraction(v) == Fraction(exp['u'], 10 ** exp['sc'])
        if t in ('string', 'untypedAtomic'):
            return str(v) == lex(exp['s'])
        if t == 'boolean':
            return v is exp['b'] or (isinstance(v, bool) and v == exp['b'])
        if t == 'gYearMonth':     # the value its own class makes of the lexical form of the spec's value
            return v == type(v).fromstring('%s%04d-%02d' % ('-' if exp['ly'] < 0 else '', abs(exp['ly']), exp['m']))
        if t == 'gYear':
            return v == type(v).fromstring('%s%04d' % ('-' if exp['ly'] < 0 else '', abs(exp['ly'])))
        if t == 'QName':
            return (v.namespace or '') == exp['ns'] and v.local_name == lex(exp['lo'])
        if t == 'date':
            return (v.year, v.month, v.day) == (exp['y'], exp['m'], exp['d']) and getattr(v, 'tzinfo', None) is None
    except Exception:
        return False
    return False


def cmp_values(exp_seq, obs, classes) -> str | None:
    """expected typed value (sequence of abstract atoms) vs observed list -> None | outcome class"""
    if isinstance(obs, tuple) and obs and obs[0] in ('err', 'escaped', 'static'):
        return f'{obs[0]}:{obs[1]}'
    if len(obs) != len(exp_seq):
        return f'length:{len(obs)}'
    for e, v in zip(exp_seq, obs):
        if not same_value(e, v):
            return 'value'
        if not isinstance(v, classes[e['t']]) or (e['t'] != 'boolean' and isinstance(v, bool)) or \
                (e['t'] in VERSIONED and type(v) is not classes[e['t']]):
            return 'class:' + (type(v).__name__ if e['t'] in VERSIONED else tag_of(v))
    return None


def probe_outcome(want, obs, classes) -> str | None:
    """expected probe result of the spec ([k |-> err | empty | val, v]) vs observed -> None | outcome class"""
    if want['k'] == 'err':
        return None if (isinstance(obs, tuple) and obs[0] in ('err', 'static')) else \
            (f'{obs[0]}:{obs[1]}' if isinstance(obs, tuple) else 'value_instead_of_error')
    if want['k'] == 'empty':
        return None if obs == [] else (f'{obs[0]}:{obs[1]}' if isinstance(obs, tuple) else 'value_instead_of_empty')
    return cmp_values((want['v'],), obs, classes)


def type_tag(name) -> str:
    """node.type_name -> abstract type name"""
    if name is None:
        return 'anon'                      # anonymous types (the complex type of the global element, local simple types)
    if name.startswith('{' + XSD + '}'):
        return name[len(XSD) + 2:]
    if name.startswith('{' + TNS + '}'):
        return name[len(TNS) + 2:]
    return name


def flag_of(vec, n) -> str:
    nd = vec['f'][n - 1]
    a = vec['typed'][n - 1]
    if nd['dflt']:
        return 'psvi-default'
    if a['nilled']:
        return 'nil'
    if nd['k'] == 'em':
        return 'sgmember'
    if nd['s'] == 'kid':
        if not nd['lx'] and tuple(vec['sdef']['kids'][nd['i'] - 1]) != NOLEX and a['tv'] != NOVALUE:
            return 'default'            # EffText of the spec: empty content and the declaration has a default
        if any(x['s'] == 'xnil' and x['par'] == n and lex(x['lx']) == 'false' for x in vec['f']):
            return 'nilfalse'
        if any(x['s'] == 'xtype' and x['par'] == n for x in vec['f']):
            return 'xsitype'
    return 'plain'


NOVALUE = (tla.FrozenDict(t='#novalue'),)
NOLEX = ('#none',)


def find_nodes(ctx_root, doc: Doc, read_attrs=True) -> dict:
    """abstract id -> XPathNode, through the public node attributes (children / attributes / value)"""
    out = {}
    from elementpath import ElementNode
    for node in ctx_root.iter_descendants():
        if isinstance(node, ElementNode):
            i = doc.key2id.get(id(node.value))
            if i is not None:
                out[i] = node
    if read_attrs:
        for i, node in list(out.items()):
            for a in node.attributes:
                j = doc.key2id.get((id(node.value), a.name))
                if j is not None:
                    out[j] = a
    return out


def observe_node(node):
    """(type tag, nilled, typed value list | outcome) of one element / attribute node"""
    try:
        tn = type_tag(node.type_name)
    except Exception as e:  # noqa
        tn = err_class(e)
    try:
        tv = node.typed_value
        tv = tv if isinstance(tv, list) else [tv]
    except RecursionError:
        tv = ('escaped', 'RecursionError')
    except Exception as e:  # noqa
        tv = err_class(e)
    return tn, bool(getattr(node, 'nilled', False)), tv


# ---------------------------------------------------------------------------------------
# second oracle for the SPEC: xmlschema itself

def oracle_check(vec, S, xsd: str, version: str, doc: Doc, msgs: list) -> None:
    sch, _ = get_schema(xsd, version)
    try:
        ok = sch.is_valid(doc.root, namespaces=NS)
    except Exception as e:  # noqa
        ok = f'{type(e).__name__}: {e}'
    if ok is not True:
        msgs.append(f'xmlschema {version} does not accept an instance of ValidInstances: {ok}: {doc.xml()}')
        return
    for n, (nd, a) in enumerate(zip(vec['f'], vec['typed']), 1):
        tv = a['tv']
        if tv == NOVALUE or a['nilled'] or a['ty'] in ('-',):
            continue
        ty = 'decimal' if a['ty'] == 'sc' else a['ty'][1:] if a['ty'].startswith('~') else ALIAS.get(a['ty'], a['ty'])
        if ty == 'QName':
            continue          # xmlschema decodes an xs:QName to its lexical form (and needs the namespace map)
        xt = sch.maps.types['{%s}%s' % (XSD if ty in BUILTIN else TNS, ty)]
        # the text the processor decodes: content, or the default the spec says applies
        if nd['s'] == 'kid' and not nd['lx'] and flag_of(vec, n) == 'default':
            text = lex(vec['sdef']['kids'][nd['i'] - 1])
        else:
            text = lex(nd['lx'])
        try:
            dec = xt.decode(text, datetime_types=True)
        except Exception as e:  # noqa
            msgs.append(f'xmlschema cannot decode {text!r} as {ty}: {e}')
            continue
        dec = dec if isinstance(dec, list) else [dec]
        if tv and tv[0]['t'] == 'QName':
            continue          # xmlschema decodes an xs:QName to its lexical form
        if tv and tv[0]['t'] in VERSIONED and type(dec[0]) is not value_classes(version)[tv[0]['t']]:
            msgs.append(f'class of {ty} under XSD {version}: xmlschema decodes a {type(dec[0]).__name__}')
        if len(dec) != len(tv) or not all(same_value(e, v) for e, v in zip(tv, dec)):
            msgs.append(f'spec TypedValue({ty}, {text!r}) = {tv} but xmlschema decodes {dec!r}')
        # the order of the big points: python's exact Decimal comparison must agree with BigCmp of the spec
        import operator
        ops = dict(eq=operator.eq, ne=operator.ne, lt=operator.lt, le=operator.le, gt=operator.gt, ge=operator.ge)
        for K, op, holds in vec['cmplit'][n - 1]:
            if ops[op](big_decimal(tv[0]), Decimal(lex(K))) != holds:
                msgs.append(f'spec says {lex(nd["lx"])} {op} {lex(K)} is {holds}')


# ---------------------------------------------------------------------------------------
# fresh-context vector

def node_features(vec, n, **kw) -> dict:
    nd, a = vec['f'][n - 1], vec['typed'][n - 1]
    fl = flag_of(vec, n)
    if fl in ('default', 'psvi-default') and nd['s'] == 'kid':
        text = lex(vec['sdef']['kids'][nd['i'] - 1])
    else:
        text = lex(nd['lx'])
    d = dict(node=('attribute' if nd['k'] in ('xa', 'xc') else 'element'), source=nd['s'], annot=a['ty'],
             flag=fl, pos=nd['i'], text=text[:12])
    d.update(kw)
    return d


def check_fresh(vec, slot, S, xsd, version, lib, pv, doc: Doc, fails: list, stats: dict, use_select: bool):
    """everything the property says about ONE (schema, instance) pair in a fresh context"""
    from elementpath import XPathContext
    _, proxy = get_schema(xsd, version)
    classes = value_classes(version)
    ctx = doc.context(proxy)
    nodes = find_nodes(ctx.root, doc)
    entries = sorted(vec['entries'])
    base = dict(mode='fresh', xsd=version, lib=lib, parser=pv)
    case0 = dict(kind='fresh', xsd_text=xsd, xml=doc.xml(), version=version, lib=lib, parser=pv, f=[dict(x) for x in vec['f']])
    for k_, v_ in (('env', doc.env), ('nsplace', doc.nsplace), ('nons', doc.nons)):
        if v_ not in ('plain', 'root', False):      # renderings the annotations must not depend on
            base[k_] = case0[k_] = v_
    for n, (nd, a) in enumerate(zip(vec['f'], vec['typed']), 1):
        if nd['k'] not in TYPED_KINDS:
            continue
        node = nodes.get(n)
        path = doc.paths[n]
        if node is None:
            fails.append((dict(base, probe='node', **node_features(vec, n)), dict(case0, path=path), 'present', 'absent'))
            continue
        tn, nilled, tv = observe_node(node)
        stats['evaluations'] += 2
        if tn != tname(a['ty']):
            fails.append((dict(base, probe='type_name', observed_type=str(tn), **node_features(vec, n)),
                          dict(case0, path=path, probe='type_name'), tname(a['ty']), tn))
        if nd['k'] in ELEM_KINDS and nilled != a['nilled']:
            fails.append((dict(base, probe='nilled', **node_features(vec, n)), dict(case0, path=path, probe='nilled'),
                          a['nilled'], nilled))
        simple = a['tv'] != NOVALUE
        if simple:
            out = cmp_values(a['tv'], tv, classes)
            if out:
                fails.append((dict(base, probe='typed_value', outcome=out, **node_features(vec, n)),
                              dict(case0, path=path, probe='typed_value'), a['tv'], repr(tv)))
            # the same through XPath: data(path)
            obs = evaluate(f'data({path})', pv, proxy, ctx)
            stats['evaluations'] += 1
            out = cmp_values(a['tv'], obs, classes)
            if out:
                fails.append((dict(base, probe='data', outcome=out, **node_features(vec, n)),
                              dict(case0, path=path, expr=f'data({path})'), a['tv'], repr(obs)))
            elif not doc.nons:
                # ... and through every public entry point in turn (the typed value does not depend on it)
                stats['ep'] = stats.get('ep', 0) + 1
                entry = entries[stats['ep'] % len(entries)]
                obs = entry_eval(entry, doc, f'data({path})', pv, proxy)
                stats['evaluations'] += 1
                out = cmp_values(a['tv'], obs, classes)
                if out:
                    fails.append((dict(base, probe='data', outcome=out, entry=entry, **node_features(vec, n)),
                                  dict(case0, path=path, expr=f'data({path})', entry=entry), a['tv'], repr(obs)))
        # instance of element(*, Q) / attribute(*, Q)
        kt = 'attribute' if nd['k'] in ('xa', 'xc') else 'element'
        for q in QUERY + sorted(vec['xq10' if version == '1.0' else 'xq11']):
            if not simple and q not in vec['iofopt'][n - 1]:
                continue      # element-only content: the property speaks of simple / simple-content nodes; only the
                              # declared type and its bases are asked
            forms = [(f'{path} instance of {kt}(*, {doc.q(q)})', q in vec['iof'][n - 1], False)]
            if kt == 'element' and (a['nilled'] or q in ('int', 'anyType')):
                forms.append((f'{path} instance of element(*, {doc.q(q)}?)', q in vec['iofopt'][n - 1], True))
            for expr, want, opt in forms:
                obs = evaluate(expr, pv, proxy, ctx)
                stats['evaluations'] += 1
                if obs == [want]:
                    if want:
                        stats['nontrivial'] += 1
                    continue
                if isinstance(obs, tuple):
                    outcome = f'{obs[0]}:{obs[1]}'
                else:
                    outcome = 'missing' if want else 'excess'
                fails.append((dict(base, probe='instance_of', query=q, optional=opt, outcome=outcome,
                                   in_chain=want, **node_features(vec, n)),
                              dict(case0, expr=expr), want, repr(obs)))
        # data(.) instance of xs:Q: the atomic value is an instance of its type and of the bases of that type
        for q in (sorted(vec['aq10' if version == '1.0' else 'aq11']) if vec['atomiof'][n - 1] else ()):
            expr = f'data({path}) instance of xs:{q}'
            want = q in vec['atomiof'][n - 1]
            obs = evaluate(expr, pv, proxy, ctx)
            stats['evaluations'] += 1
            if obs == [want]:
                stats['nontrivial'] += want
                continue
            outcome = f'{obs[0]}:{obs[1]}' if isinstance(obs, tuple) else 'missing' if want else 'excess'
            fails.append((dict(base, probe='atomic_instance_of', query=q, outcome=outcome, in_chain=want, **node_features(vec, n)),
                          dict(case0, expr=expr), want, repr(obs)))
        # arithmetic / comparison use the typed value
        for probe, expr in (('plus1', f'{path} + 1'), ('idiv2', f'{path} idiv 2'), ('eq7', f'{path} = 7'),
                            ('ltdate', f"{path} lt xs:date('2001-01-01')"),
                            ('eqself', f'{path} eq {doc.q(tname(a["ty"]))}("{node_features(vec, n)["text"].strip()}")')):
            want = vec[probe][n - 1]
            if want['k'] == 'na':
                continue
            for api in ((False, True) if use_select else (False,)):
                obs = select_api(doc.ctxroot, expr, pv, proxy, doc.ns, None if doc.ctxroot is doc.root else doc.root) \
                    if api else evaluate(expr, pv, proxy, ctx)
                stats['evaluations'] += 1
                out = probe_outcome(want, obs, classes)
                if want['k'] == 'val':
                    stats['nontrivial'] += 1
                if out:
                    fails.append((dict(base, probe=probe, outcome=out, api=('select' if api else 'token'),
                                       **node_features(vec, n)),
                                  dict(case0, expr=expr, api=('select' if api else 'token')), want, repr(obs)))
    # ---- fn:sum over the kids named a adds their typed values
    if vec['suma']['k'] != 'na':
        obs = evaluate('sum(a)', pv, proxy, ctx)
        stats['evaluations'] += 1
        out = probe_outcome(vec['suma'], obs, classes)
        if out:
            aks = [n for n, nd in enumerate(vec['f'], 1) if nd['s'] == 'kid' and nd['k'] == 'ea']
            # attribute the failure to the operand that is known to have a wrong typed value, if there is one
            first = next((n for n in aks if flag_of(vec, n) == 'nil' or (flag_of(vec, n) == 'default' and vec['f'][n - 1]['i'] == 3)),
                         aks[0])
            fails.append((dict(base, probe='sum', outcome=out, **node_features(vec, first)), dict(case0, expr='sum(a)'),
                          vec['suma'], repr(obs)))
    # ---- value comparisons of nodes whose values do not fit a double (exact: they use the typed value)
    for n, probes in enumerate(vec['cmplit'], 1):
        for K, op, holds in sorted(probes):
            expr = f'{doc.paths[n]} {op} {lex(K)}'
            obs = evaluate(expr, pv, proxy, ctx)
            stats['evaluations'] += 1
            stats['nontrivial'] += 1
            if obs != [holds]:
                out = f'{obs[0]}:{obs[1]}' if isinstance(obs, tuple) else 'value'
                fails.append((dict(base, probe='cmp', op=op, rhs='literal', rhs_decimal=('.' in K), outcome=out,
                                   **node_features(vec, n)), dict(case0, expr=expr), holds, repr(obs)))
    for n1, n2, op, holds in sorted(vec['cmpnn']):
        expr = f'{doc.paths[n1]} {op} {doc.paths[n2]}'
        obs = evaluate(expr, pv, proxy, ctx)
        stats['evaluations'] += 1
        if obs != [holds]:
            out = f'{obs[0]}:{obs[1]}' if isinstance(obs, tuple) else 'value'
            fails.append((dict(base, probe='cmp', op=op, rhs='node', rhs_annot=vec['typed'][n2 - 1]['ty'], outcome=out,
                               **node_features(vec, n1)), dict(case0, expr=expr), holds, repr(obs)))
    # ---- ONE parsed expression applied to SEVERAL nodes: the kind test must not remember the previous node
    kids = [n for n, nd in enumerate(vec['f'], 1) if nd['par'] == 1 and nd['k'] in ELEM_KINDS]
    if len(kids) > 1:
        for q in MULTI_QUERY:
            single = [evaluate(f'{doc.paths[n]} instance of element(*, {doc.q(q)})', pv, proxy, ctx) for n in kids]
            stats['evaluations'] += len(kids)
            if any(isinstance(o, tuple) for o in single):
                continue            # an error of one node (reported above) would end the whole expression
            wants = [q in vec['iof'][n - 1] for n in kids]
            for form, expr in (('for', f'for $e in * return $e instance of element(*, {doc.q(q)})'),
                               ('filter', f'*[. instance of element(*, {doc.q(q)})]')):
                obs = evaluate(expr, pv, proxy, ctx)
                stats['evaluations'] += 1
                if isinstance(obs, tuple):
                    fails.append((dict(base, probe='instance_of', query=q, optional=False, api='multi-' + form,
                                       outcome=f'{obs[0]}:{obs[1]}', **node_features(vec, kids[0])),
                                  dict(case0, expr=expr), wants, repr(obs)))
                    continue
                if form == 'filter':
                    ids = {doc.key2id.get(id(x)) for x in obs}
                    got = [n in ids for n in kids]
                else:
                    got = obs if len(obs) == len(kids) else None
                if got is None:
                    fails.append((dict(base, probe='instance_of', query=q, optional=False, api='multi-' + form,
                                       outcome='length', **node_features(vec, kids[0])), dict(case0, expr=expr), wants, repr(obs)))
                    continue
                for k, (n, want, g) in enumerate(zip(kids, wants, got)):
                    if g is not want:
                        fails.append((dict(base, probe='instance_of', query=q, optional=False, api='multi-' + form,
                                           outcome=('missing' if want else 'excess'), in_chain=want,
                                           **node_features(vec, n)),
                                      dict(case0, expr=expr, node=doc.paths[n], index=k, form=form), want, repr(g)))
    # nothing but the PSVI attributes may be added
    extra = [a.name for e in nodes.values() if getattr(e, 'node_kind', '') == 'element'
             for a in e.attributes if (id(e.value), a.name) not in doc.key2id and not a.name.startswith('{' + XSI)]
    if extra:
        fails.append((dict(base, probe='extra_attribute'), dict(case0), [], extra))


def check_items(vec, xsd, version, lib, pv, fails: list, stats: dict):
    """dynamic contexts WITHOUT a root: the context item is an element, attribute or text node of an already built,
    untyped node tree (SchemaTyping: CtxItems); the probe navigates from the item to the typed kid"""
    from elementpath import XPathContext, get_node_tree
    import elementpath
    _, proxy = get_schema(xsd, version)
    classes = value_classes(version)
    base = dict(mode='fresh', xsd=version, lib=lib, parser=pv)
    for n, (nd, a) in enumerate(zip(vec['f'], vec['typed']), 1):
        if nd['s'] != 'kid' or a['tv'] == NOVALUE or a['nilled'] or flag_of(vec, n) != 'plain':
            continue
        for kind in sorted(vec['items']):
            doc = Doc(vec['f'], lib)
            tree = get_node_tree(doc.root, namespaces=NS)         # built before any schema is known
            nodes = find_nodes(tree, doc)
            if kind == 'element':
                item, rel = nodes[n], '.'
            elif kind == 'text':
                item, rel = next((c for c in nodes[n].children if c.node_kind == 'text'), None), '..'
            else:
                item, rel = next((nodes[m] for m, x in enumerate(vec['f'], 1) if x['par'] == n and x['s'] == 'katt' and m in nodes), None), '..'
            if item is None:
                continue
            q = next((t for t in ('int', 'integer', 'decimal', 'string', 'date', 'boolean') if t in vec['iof'][n - 1]), None)
            for expr, want in ((f'data({rel})', None), (f'{rel} instance of element(*, {qn(q)})' if q else None, True)):
                if expr is None:
                    continue
                for api in ('token', 'select'):
                    if api == 'token':
                        obs = evaluate(expr, pv, proxy, XPathContext(root=None, item=item, namespaces=NS, schema=proxy))
                    else:
                        try:
                            obs = elementpath.select(None, expr, namespaces=NS, parser=parsers()[pv], item=item, schema=proxy)
                            obs = obs if isinstance(obs, list) else [obs]
                        except Exception as e:  # noqa
                            obs = err_class(e)
                    stats['evaluations'] += 1
                    out = cmp_values(a['tv'], obs, classes) if want is None else \
                        (None if obs == [True] else f'{obs[0]}:{obs[1]}' if isinstance(obs, tuple) else 'missing')
                    if out:
                        fails.append((dict(base, probe='ctx_item', item=kind, api=api, outcome=out, **node_features(vec, n)),
                                      dict(kind='ctx_item', xsd_text=xsd, xml=doc.xml(), version=version, lib=lib, parser=pv,
                                           expr=expr, item=kind, f=[dict(x) for x in vec['f']]),
                                      a['tv'] if want is None else True, repr(obs)))


USER_TYPES = ('small', 'ilist', 'u', 'ud', 'v', 'sc', 'recent', 'c1', 'c2', 'c3', 'c4', 'c5', 'c6')


def check_nons(vec, S, version, lib, pv, fails: list, stats: dict, oracle: list):
    """the same schema WITHOUT a target namespace: type names are in no namespace, and so are the names the
    kind tests use; asked: the type annotation and `instance of element(*, T)` for the declared user type and
    its user-defined bases"""
    if any(a['tv'] != NOVALUE and a['tv'] and a['tv'][0]['t'] == 'QName' for a in vec['typed']):
        return          # the QName lexicals of the universe use the prefix t / the default namespace urn:t
    xsd = xsd_text(S, vec['sdef'], nons=True)
    sch, proxy = get_schema(xsd, version)
    doc = Doc(vec['f'], lib, nons=True)
    if sch.is_valid(doc.root, namespaces=doc.ns) is not True:
        oracle.append(f'xmlschema {version} rejects the no-namespace rendering: {doc.xml()}')
        return
    ctx = doc.context(proxy)
    nodes = find_nodes(ctx.root, doc)
    base = dict(mode='fresh', xsd=version, lib=lib, parser=pv, nons=True)
    case0 = dict(kind='fresh', xsd_text=xsd, xml=doc.xml(), version=version, lib=lib, parser=pv, nons=True,
                 f=[dict(x) for x in vec['f']])
    for n, (nd, a) in enumerate(zip(vec['f'], vec['typed']), 1):
        if nd['k'] not in TYPED_KINDS or n not in nodes:
            continue
        tn = observe_node(nodes[n])[0]
        stats['evaluations'] += 1
        if tn != tname(a['ty']):
            fails.append((dict(base, probe='type_name', observed_type=str(tn), **node_features(vec, n)),
                          dict(case0, path=doc.paths[n], probe='type_name'), tname(a['ty']), tn))
        kt = 'attribute' if nd['k'] in ('xa', 'xc') else 'element'
        for q in USER_TYPES:
            if q in vec['iof'][n - 1] and a['tv'] != NOVALUE:
                expr = f'{doc.paths[n]} instance of {kt}(*, {doc.q(q)})'
                obs = evaluate(expr, pv, proxy, ctx)
                stats['evaluations'] += 1
                if obs != [True]:
                    out = f'{obs[0]}:{obs[1]}' if isinstance(obs, tuple) else 'missing'
                    fails.append((dict(base, probe='instance_of', query=q, optional=False, outcome=out, in_chain=True,
                                       **node_features(vec, n)), dict(case0, expr=expr), True, repr(obs)))


def check_untyped(vec, lib, pv, doc: Doc, fails: list, stats: dict):
    from elementpath import XPathContext
    import elementpath.datatypes as dt
    ctx = XPathContext(doc.root, namespaces=NS)
    nodes = find_nodes(ctx.root, doc)
    classes = {'untypedAtomic': dt.UntypedAtomic}
    base = dict(mode='fresh', xsd='none', lib=lib, parser=pv)
    case0 = dict(kind='untyped', xml=doc.xml(), lib=lib, parser=pv, f=[dict(x) for x in vec['f']])
    for n, (nd, a) in enumerate(zip(vec['f'], vec['untyped']), 1):
        if nd['k'] not in TYPED_KINDS:
            continue
        node = nodes.get(n)
        if a['ty'] == 'absent':
            if node is not None:
                fails.append((dict(base, probe='psvi_without_schema'), dict(case0, path=doc.paths[n]), 'absent', 'present'))
            continue
        if node is None:
            fails.append((dict(base, probe='node'), dict(case0, path=doc.paths[n]), 'present', 'absent'))
            continue
        tn, nilled, tv = observe_node(node)
        stats['evaluations'] += 2
        if tn != tname(a['ty']):
            fails.append((dict(base, probe='type_name', observed_type=str(tn)), dict(case0, path=doc.paths[n]), tname(a['ty']), tn))
        if a['tv'] != NOVALUE:
            out = cmp_values(a['tv'], tv, classes)
            if out:
                fails.append((dict(base, probe='typed_value', outcome=out), dict(case0, path=doc.paths[n]), a['tv'], repr(tv)))


# ---------------------------------------------------------------------------------------
# history replay on the SchemaWalk graph

def api_edges(states: dict, out: dict, init: int):
    """collapse Visit/Pop chains: API-level edges (src idle, action, args, dst idle)"""
    edges = {}
    idle = [s for s, st in states.items() if st['pc'] == 'idle']
    for s in idle:
        lst = []
        for d, a, args in out.get(s, ()):
            if a not in ('SetSchema', 'ReadAttrs'):
                raise tla.MachineryError(f'unexpected action {a} from an idle state')
            hops = 0
            while states[d]['pc'] != 'idle':
                nxt = out.get(d, ())
                if len(nxt) != 1:
                    raise tla.MachineryError(f'walk state with {len(nxt)} successors')
                d = nxt[0][0]
                hops += 1
            lst.append((d, a, args, hops))
        edges[s] = lst
    return edges


def apply_action(ctx, doc: Doc, proxies, action, args):
    if action == 'SetSchema':
        ctx.schema = proxies[args[0]]
    else:
        el = doc.obj[args[0]]
        for node in ctx.root.iter_descendants():
            if getattr(node, 'value', None) is el:
                node.attributes    # noqa: first access builds the list
                return
        raise tla.MachineryError('element node not found')


def observe_state(ctx, doc: Doc, st, vec1):
    """project the real tree onto (ety, aty of the lists the spec says are built)"""
    f = vec1['f']
    ety, aty = {}, {}
    from elementpath import ElementNode
    for node in ctx.root.iter_descendants():
        if isinstance(node, ElementNode):
            i = doc.key2id.get(id(node.value))
            if i is None:
                continue
            tn = type_tag(node.type_name)
            ety[i] = 'none' if tn == 'untyped' else tn
            want = {m: t for m, t in st['aty'].items() if f[m - 1]['par'] == i and f[m - 1]['k'] != 'xx'}
            if want and any(t != 'unbuilt' for t in want.values()):
                have = {a.name: a for a in node.attributes}
                for m in want:
                    a = have.get(f[m - 1]['s'][-1] if f[m - 1]['s'].startswith('ratt') else 'a')
                    if a is None:
                        aty[m] = 'absent'
                    else:
                        tn = type_tag(a.type_name)
                        aty[m] = 'none' if tn == 'untypedAtomic' else tn
    return ety, aty


def replay_history(tid, trip, states, edges, init, lib, version, fails, stats):
    from elementpath import XPathContext, get_node_tree
    S1, S2, inst, vec1, vec2 = trip
    xsd = {1: xsd_text(S1, vec1['sdef']), 2: xsd_text(S2, vec2['sdef'])}
    proxies = {0: None, 1: get_schema(xsd[1], version)[1], 2: get_schema(xsd[2], version)[1]}
    classes = dict(value_classes(version))
    vecs = {1: vec1, 2: vec2}

    env = sorted(vec1['envs'])[tid % len(vec1['envs'])]      # document-level siblings (kept by lxml only)

    def fresh():
        doc = Doc(vec1['f'], lib, env=env)
        tree = get_node_tree(doc.ctxroot, namespaces=NS)
        return doc, XPathContext(tree, namespaces=NS)

    prefix = {init: ()}
    queue = deque([init])
    while queue:
        s = queue.popleft()
        for d, action, args, hops in edges[s]:
            stats['transitions'] += 1 + hops
            stats['api_edges'] += 1
            doc, ctx = fresh()
            try:
                for a2, g2 in prefix[s]:
                    apply_action(ctx, doc, proxies, a2, g2)
                apply_action(ctx, doc, proxies, action, args)
            except Exception as e:  # noqa
                fails.append((dict(mode='history', probe='exception', action=action, outcome='%s:%s' % err_class(e)),
                              dict(kind='history', xsd1=xsd[1], xsd2=xsd[2], xml=doc.xml(), version=version, lib=lib,
                                   actions=[list(x) for x in prefix[s]] + [[action, list(args)]]), 'ok', repr(e)))
                continue
            pre, post = states[s], states[d]
            exp_ety = {n: tname(t) for n, t in post['ety'].items()}
            exp_aty = {m: tname(t) for m, t in post['aty'].items() if t != 'unbuilt' and vec1['f'][m - 1]['k'] != 'xx'}
            ety, aty = observe_state(ctx, doc, post, vec1)
            stats['evaluations'] += len(ety) + len(aty)
            actions = [list(x) for x in prefix[s]] + [[action, list(args)]]
            case = dict(kind='history', xsd1=xsd[1], xsd2=xsd[2], xml=doc.xml(), version=version, lib=lib, actions=actions,
                        f=[dict(x) for x in vec1['f']], env=doc.env)
            k = args[0] if action == 'SetSchema' else None
            feat = dict(mode='history', action=action, k=k, pre_ctx=pre['ctx'],
                        reapply_same_proxy=bool(action == 'SetSchema' and k != 0 and pre['tsch'] == k),
                        xsd=version, lib=lib)
            ok = True
            if ety != exp_ety:
                ok = False
                bad = sorted(n for n in exp_ety if ety.get(n) != exp_ety[n])
                stale = any(ety.get(n) not in ('none', exp_ety[n]) for n in bad)
                fails.append((dict(feat, probe='type_name', outcome=('stale_type' if stale else 'untyped' if all(ety.get(n) == 'none' for n in bad) else 'wrong_type')),
                              case, exp_ety, ety))
            if aty != exp_aty:
                ok = False
                fails.append((dict(feat, probe='attribute_list', outcome='stale_or_wrong'), case, exp_aty, aty))
            if ok:
                # read everything (this builds every attribute list) and compare with Annot(current schema)
                cur = post['ctx']
                want_vec = vecs[cur]['typed'] if cur else vec1['untyped']
                nodes = find_nodes(ctx.root, doc)
                for n, (nd, a) in enumerate(zip(vec1['f'], want_vec), 1):
                    if nd['k'] not in TYPED_KINDS:
                        continue
                    node = nodes.get(n)
                    if a['ty'] == 'absent' or (cur and vecs[cur]['f'][n - 1]['dflt'] and False):
                        if node is not None:
                            fails.append((dict(feat, probe='psvi_without_schema'), case, 'absent', 'present'))
                        continue
                    if node is None:
                        fails.append((dict(feat, probe='node', source=nd['s']), case, 'present', 'absent'))
                        continue
                    tn, nilled, tv = observe_node(node)
                    stats['evaluations'] += 2
                    if tn != tname(a['ty']):
                        fails.append((dict(feat, probe='final_type_name', source=nd['s'], annot=a['ty'], observed_type=str(tn)),
                                      case, tname(a['ty']), tn))
                    elif a['tv'] != NOVALUE:
                        cl = classes if cur else {'untypedAtomic': classes['untypedAtomic']}
                        out = cmp_values(a['tv'], tv, cl)
                        if out:
                            nf = node_features(vecs[cur], n) if cur else dict(source=nd['s'], annot=a['ty'], flag='plain')
                            fails.append((dict(feat, probe='typed_value', outcome=out, **nf), case, a['tv'], repr(tv)))
                if d not in prefix:
                    prefix[d] = prefix[s] + ((action, args),)
                    queue.append(d)
    return sum(1 for s in states if states[s]['pc'] == 'idle' and s not in prefix)


def walk_worker(job):
    """one batch of triples: oracle check, fresh vectors, history replay"""
    triples, graphs, tier = job
    fails, oracle = [], []
    stats = dict(transitions=0, api_edges=0, evaluations=0, nontrivial=0, unreached=0, pairs=0, triples=0)
    samples = []
    seen_pairs = set()
    for tid, trip in triples:
        S1, S2, inst, vec1, vec2 = trip
        stats['triples'] += 1
        for slot, S, vec in ((1, S1, vec1), (2, S2, vec2)):
            key = (S, inst)
            if key in seen_pairs:
                continue
            seen_pairs.add(key)
            stats['pairs'] += 1
            xsd = xsd_text(S, vec['sdef'])
            for version in sorted(vec['versions']):       # the XSD versions the schema exists in (SchemaTyping: Versions)
                lib = 'etree' if (tid + slot + (version == '1.1')) % 2 else 'lxml'
                pv = '2.0' if (tid + slot) % 3 == 0 else '3.1'
                # renderings of the same instance the annotations must not depend on (taken in turn; lxml only)
                envs, places = sorted(vec['envs']), sorted(vec['nsplaces'])
                env = envs[(tid + slot + (version == '1.1')) % len(envs)]
                place = places[tid % len(places)]
                doc = Doc(vec['f'], lib, env=env, nsplace=place)
                oracle_check(vec, S, xsd, version, doc, oracle)
                if oracle:
                    return stats, fails, oracle[:5], samples
                check_fresh(vec, slot, S, xsd, version, lib, pv, doc, fails, stats,
                            use_select=(tier == 'thorough' or tid % 4 == 0))
                if any(nd['s'] == 'xtype' for nd in vec['f']):
                    # every place where the prefix of the xsi:type value can be declared, on the tree that keeps them
                    for place2 in places:
                        if (lib, place) != ('lxml', place2):
                            d2 = Doc(vec['f'], 'lxml', env=env, nsplace=place2)
                            oracle_check(vec, S, xsd, version, d2, oracle)
                            if oracle:
                                return stats, fails, oracle[:5], samples
                            check_fresh(vec, slot, S, xsd, version, 'lxml', pv, d2, fails, stats, False)
                if tier == 'thorough':
                    for lib2, pv2 in (('lxml' if lib == 'etree' else 'etree', '3.0'),):
                        check_fresh(vec, slot, S, xsd, version, lib2, pv2,
                                    Doc(vec['f'], lib2, env=envs[(tid + 1) % len(envs)]), fails, stats, False)
                if tier == 'thorough' or (tid + slot + (version == '1.1')) % 3 == 1:
                    check_items(vec, xsd, version, lib, pv, fails, stats)
                if tier == 'thorough' or (tid + slot) % 3 == 0:
                    check_nons(vec, S, version, lib, pv, fails, stats, oracle)
                    if oracle:
                        return stats, fails, oracle[:5], samples
            if slot == 1:
                check_untyped(vec, 'etree', '3.1', Doc(vec['f'], 'etree'), fails, stats)
            if len(samples) < 2 and len(vec['f']) > 3:
                samples.append(dict(xsd=xsd, xml=Doc(vec['f'], 'etree').xml(),
                                    expected_types=[a['ty'] for a in vec['typed']]))
        states, edges, init = graphs[tid]
        for version, lib in ((('1.0', 'etree'), ('1.1', 'lxml')) if tier == 'thorough' else
                             ((('1.0', 'etree'),) if tid % 2 else (('1.1', 'lxml'),))):
            if version not in (vec1['versions'] & vec2['versions']):
                version = '1.1'           # every schema of the universe exists under XSD 1.1
            stats['unreached'] += replay_history(tid, trip, states, edges, init, lib, version, fails, stats)
    return stats, fails, oracle[:5], samples


# ---------------------------------------------------------------------------------------
# selection replay on the SchemaSelect graph

def lx_path(path: str) -> str:
    """libxml2 (XPath 1.0) has no default element namespace: element name tests get the prefix"""
    return '/'.join(st if st.startswith('attribute::') else re.sub(r'::(a|b)$', r'::t:\1', st) for st in path.split('/'))


def select_worker(job):
    pairs, tier = job
    from elementpath import XPathContext
    fails, oracle = [], []
    stats = dict(transitions=0, evaluations=0, nontrivial=0, lx_evals=0, pairs=0)
    samples = []
    for pid, S, inst, f, sdef, states, out, init in pairs:
        stats['pairs'] += 1
        xsd = xsd_text(S, sdef)
        docs = {'etree': Doc(f, 'etree'), 'lxml': Doc(f, 'lxml')}
        version = '1.0' if pid % 2 else '1.1'
        sch, proxy = get_schema(xsd, version)
        if sch.is_valid(docs['etree'].root, namespaces=NS) is not True:
            oracle.append(f'xmlschema rejects instance {docs["etree"].xml()}')
            return stats, fails, oracle, samples
        has_dflt = any(nd['dflt'] for nd in f)
        ctxs = {}
        for lib in ('etree', 'lxml'):
            ctxs[lib] = [XPathContext(docs[lib].root, namespaces=NS, schema=proxy), XPathContext(docs[lib].root, namespaces=NS)]
            if has_dflt:     # reference for the PSVI: the same document with the defaulted attributes written out
                docs[lib + '+'] = Doc(f, lib, materialise=True)
                ctxs[lib].append(XPathContext(docs[lib + '+'].root, namespaces=NS))
        prefix = {init: ''}
        queue = deque([init])
        while queue:
            s = queue.popleft()
            for d, action, args in out.get(s, ()):
                stats['transitions'] += 1
                if action == 'Root':        # a leading "/": nothing to evaluate yet, the steps that follow are absolute paths
                    prefix[d] = '/'
                    queue.append(d)
                    continue
                step = f'{args[0]}::{args[1]}'
                path = ('/' + step) if prefix[s] == '/' else (prefix[s] + '/' + step) if prefix[s] else step
                # the virtual document of an Element root is never part of a result
                want_s, want_p = sorted(set(states[d]['cur']) - {0}), sorted(set(states[d]['curP']) - {0})
                if len(want_s) > 1 or want_s != want_p:
                    stats['nontrivial'] += 1
                # second oracle of the spec: libxml2 on the schema-less tree (it cannot return the document node)
                if 0 not in states[d]['cur']:
                    try:
                        lres = sorted(docs['lxml'].lx_id(x) for x in docs['lxml'].root.xpath(lx_path(path), namespaces={'t': TNS}))
                    except Exception as e:  # noqa
                        lres = ('err', type(e).__name__)
                    stats['lx_evals'] += 1
                    if lres != want_p:
                        oracle.append(f'spec {want_p} libxml2 {lres} for {path} on {docs["lxml"].xml()}')
                ok = True
                spellings = [path]
                if path.startswith('/'):     # the abbreviated spelling of an absolute path: /*, //a, //@c
                    ab = path.replace('/descendant-or-self::node()/', '//').replace('child::', '').replace('attribute::', '@')
                    if ab != path and '::' not in ab:
                        spellings.append(ab)
                libs = ('etree', 'lxml') if (tier == 'thorough' or (pid + stats['transitions']) % 8 == 0) else ('etree',)
                for lib in libs:
                    for ptext in spellings:
                      for pv in (('2.0', '3.1') if tier == 'thorough' else (('3.1',) if stats['transitions'] % 2 else ('2.0',))):
                          obs2 = {}
                          for with_schema in (True, False):
                              ctx = ctxs[lib][0 if with_schema else 1]
                              tok = get_token(ptext, pv, proxy if with_schema else None)
                              if isinstance(tok, Exception):
                                  obs = err_class(tok)
                              else:
                                  try:
                                      obs = [i for i in (docs[lib].node_id(x) for x in tok.select(copy(ctx))) if i != 0]
                                  except Exception as e:  # noqa
                                      obs = err_class(e)
                              stats['evaluations'] += 1
                              obs2[with_schema] = obs

                          def srt(o):
                              try:
                                  return sorted(o) if isinstance(o, list) else None
                              except TypeError:
                                  return None
                          base_ok = srt(obs2[False]) == want_p
                          if not base_ok:
                              # the schema-less evaluation itself departs from XDM/libxml2: that is property C01's
                              # business; C20 still demands that the schema changes nothing (when it adds no PSVI node)
                              stats['baseline_mismatch'] = stats.get('baseline_mismatch', 0) + 1
                              ok = False
                          outcome = None
                          if not has_dflt:
                              if obs2[True] != obs2[False]:
                                  outcome = 'differs_from_schemaless'
                          else:
                              tok = get_token(ptext, pv, None)
                              try:
                                  ref = [i for i in (docs[lib + '+'].node_id(x) for x in tok.select(copy(ctxs[lib][2]))) if i != 0]
                              except Exception as e:  # noqa
                                  ref = err_class(e)
                              stats['evaluations'] += 1
                              if srt(ref) != want_s:
                                  ok = False      # C01's business again (path semantics on the materialised tree)
                                  stats['baseline_mismatch'] = stats.get('baseline_mismatch', 0) + 1
                              if isinstance(obs2[True], tuple) or srt(obs2[True]) != srt(ref):
                                  outcome = 'differs_from_materialised_psvi'
                                  obs2[False] = ref
                          if outcome:
                              ok = False
                              kinds = ','.join(sorted({f[n - 1]['k'] if n else 'd' for n in states[s]['cur']}))
                              fails.append((dict(mode='select', probe='select', axis=args[0], test=args[1],
                                                 outcome=outcome, ctx_kinds=kinds, depth=states[s]['depth'],
                                                 psvi_defaults=has_dflt, xsd=version, lib=lib, parser=pv, rooted=path.startswith('/'),
                                                 spelling=('abbrev' if ptext != path else 'full')),
                                            dict(kind='select', xsd_text=xsd, xml=docs[lib].xml(), version=version, lib=lib,
                                                 parser=pv, path=ptext, f=[dict(x) for x in f], has_dflt=has_dflt),
                                            dict(with_schema=want_s, without=want_p),
                                            dict(with_schema=repr(obs2[True]), without=repr(obs2[False]))))
                if ok and d not in prefix and states[d]['depth'] < 2:
                    prefix[d] = path
                    queue.append(d)
        if len(samples) < 1 and any(nd['dflt'] for nd in f):
            samples.append(dict(xsd=xsd, xml=docs['etree'].xml(), note='PSVI default attribute present'))
    return stats, fails, oracle[:5], samples


# ---------------------------------------------------------------------------------------

ACTIONS_SEEN: set = set()


def fnmap(v) -> dict:
    """a TLA+ function with an integer domain (printed as a tuple when the domain is 1..n)"""
    if isinstance(v, tuple):
        return {i: x for i, x in enumerate(v, 1)}
    return dict(v)


def load_walk_graph(dot: str):
    g = tla.load_dot(dot)
    out = g.out()
    by_tid: dict = {}
    for sid, st in g.states.items():
        by_tid.setdefault(st['tid'], {})[sid] = dict(pc=st['pc'], ctx=st['ctx'], tsch=st['tsch'],
                                                     ety=fnmap(st['ety']), aty=fnmap(st['aty']))
    inits = {g.states[s]['tid']: s for s in g.init}
    graphs = {}
    for tid, sts in by_tid.items():
        sub_out = {s: out[s] for s in sts}
        graphs[tid] = (sts, api_edges(sts, sub_out, inits[tid]), inits[tid])
    ACTIONS_SEEN.update(a for _, _, a, _ in g.edges)
    return graphs, len(g.edges)


def record(chk, fails):
    for feat, case, exp, obs in fails:
        what = case.get('expr') or case.get('path') or str(case.get('actions'))
        chk.fail(feat, case, exp, obs, what=f'{what} :: {case.get("xml", "")[:160]}')


def run(chk: core.Check) -> None:
    core.setup_repo_path()
    import xmlschema  # noqa: after setup_repo_path so that it binds elementpath from the repository under test
    import elementpath
    if not os.path.abspath(elementpath.__file__).startswith(os.path.abspath(core.REPO)):
        raise tla.MachineryError(f'elementpath imported from {elementpath.__file__}, not from {core.REPO}')
    chk.assumptions += [
        'spec/SchemaTyping.tla is the oracle for types, typed values, derives-from and the probes; xmlschema must accept every '
        'generated instance and decode every lexical to the same value (else exit 2); libxml2 must agree on every schema-less path',
        'PSVI reading of "never changes selection": attributes defaulted by the schema are additional nodes of the data model '
        'built with the schema (XSD 1 3.4.5.1, XDM 6.2.3); SchemaSelect states both selections',
        'excluded: wildcards, substitution groups, identity constraints, assertions, type of xsi:* attribute nodes, error codes',
        'xmlschema %s is the schema processor' % xmlschema.__version__,
    ]
    tier = chk.tier
    gen = os.path.join(chk.scratch, 'gen')
    only = os.environ.get('C20_ONLY', '')          # development aid: e.g. "walk:types,sel:3"
    want = (lambda key: (not only) or key in only.split(','))
    # ---- all TLC runs first, a few at a time (each is a separate JVM)
    runs = []
    for name, defs, consts in WALK[tier]:
        if want('walk:' + name):
            mod = 'MC_Walk_' + name
            sub = mc_module('SchemaWalk', mod, defs, gen)
            cfg = sub + tla.cfg_text(dict(consts, Guard='typed'), invariants=['Inv', 'InitLaws', 'NoStale'])
            runs.append(('walk', name, None, mod, cfg, os.path.join(chk.scratch, 'walk-' + name)))
    for name, defs, consts, sizes in SELECT[tier]:
        mod = f'MC_Sel_{name}'
        sub = mc_module('SchemaSelect', mod, defs, gen)
        for N in sizes:
            if want(f'sel:{N}'):
                cfg = sub + tla.cfg_text(dict(consts, N=N), invariants=['Inv'])
                runs.append(('sel', name, N, mod, cfg, os.path.join(chk.scratch, f'sel-{name}-{N}')))

    def launch(run_):
        kind, name, N, mod, cfg, wd = run_
        return tla.run_tlc(mod, cfg, wd, dump_dot=os.path.join(wd, 'g.dot'), workers=4, extra_modules_dir=gen,
                           timeout=3000, heap='4g')

    from concurrent.futures import ThreadPoolExecutor
    with ThreadPoolExecutor(max_workers=4) as ex:
        tlc_results = list(ex.map(launch, runs))
    # ---- SchemaWalk: typing vectors + histories
    total_unreached = 0
    for run_, r in zip(runs, tlc_results):
        kind, name, N, mod, cfg, wd = run_
        if kind != 'walk':
            continue
        dot = os.path.join(wd, 'g.dot')
        tla.require_ok(r, f'SchemaWalk/{name}', min_distinct=50)
        chk.model(f'SchemaWalk/{name}', r)
        t0 = time.time()
        vecs = {v[0]: v[1:] for v in printed(r.output, 'vec')}
        graphs, n_edges = load_walk_graph(dot)
        os.remove(dot)
        if set(vecs) != set(graphs):
            raise tla.MachineryError(f'{name}: {len(vecs)} printed vectors but {len(graphs)} triples in the graph')
        items = sorted(vecs.items())
        jobs = [([(tid, trip) for tid, trip in chunk], {tid: graphs[tid] for tid, _ in chunk}, tier)
                for chunk in core.chunked(items, 64)]
        results = core.pool_map(walk_worker, jobs, procs=PROCS)
        for stats, fails, oracle, samples in results:
            if oracle:
                raise tla.MachineryError(f'specification and xmlschema disagree ({name}): {oracle[:3]}')
            chk.add('transitions', stats['transitions'])
            chk.add('traces_validated_against_impl', stats['api_edges'])
            chk.add('evaluations', stats['evaluations'])
            chk.add('distinct_nontrivial', stats['nontrivial'])
            chk.add('schema_instance_pairs', stats['pairs'])
            chk.add('history_triples', stats['triples'])
            total_unreached += stats['unreached']
            for s in samples:
                chk.sample(s, cap=6)
            record(chk, fails)
        print(f'  walk/{name}: triples={len(vecs)} states={r.distinct} edges={n_edges} tlc={r.wall_s:.1f}s '
              f'replay={time.time() - t0:.1f}s', flush=True)
    if not only and ACTIONS_SEEN != {'SetSchema', 'Visit', 'Pop', 'ReadAttrs'}:
        raise tla.MachineryError(f'vacuous SchemaWalk model: actions that fired = {sorted(ACTIONS_SEEN)}')
    chk.coverage['walk_actions_fired'] = sorted(ACTIONS_SEEN)
    # the pinned code's guard, as a model: TLC must refute the refinement (diagnostic, recorded only)
    if want('coded'):
        wd = os.path.join(chk.scratch, 'walk-coded')
        small = dict(KidMenu={kd('int', 1, 1)}, AttrMenu=set())
        sub = mc_module('SchemaWalk', 'MC_Walk_coded', small, gen)
        cfg = sub + tla.cfg_text(dict(MinKids=1, MaxKids=1, MaxAtts=0, LexCap=1, XsiOn=False, VOn=False, RetypeTo={'string'}, Guard='coded'),
                                 invariants=['RefElems'])
        r = tla.run_tlc('MC_Walk_coded', cfg, wd, workers=2, extra_modules_dir=gen, timeout=300)
        chk.coverage['coded_guard_refuted_by_tlc'] = (r.violated == 'RefElems')
        # the first-particle match, as a law: TLC must refute DeclSound when two particles share a name
        small = dict(KidMenu={kd('int', 1, 1, False, True), kd('int', 0, 1)}, AttrMenu=set())
        sub = mc_module('SchemaWalk', 'MC_Walk_decl', small, gen)
        cfg = sub + tla.cfg_text(dict(MinKids=3, MaxKids=3, MaxAtts=0, LexCap=1, XsiOn=False, VOn=False, RetypeTo={'string'}, Guard='typed'),
                                 invariants=['DeclSound'])
        r = tla.run_tlc('MC_Walk_decl', cfg, os.path.join(chk.scratch, 'walk-decl'), workers=2, extra_modules_dir=gen, timeout=300)
        chk.coverage['first_match_declaration_refuted_by_tlc'] = (r.violated == 'DeclSound')
    # ---- SchemaSelect
    for run_, r in zip(runs, tlc_results):
        kind, name, N, mod, cfg, wd = run_
        if kind != 'sel':
            continue
        dot = os.path.join(wd, 'g.dot')
        if r.ok and r.distinct == 0:
            continue            # no instance with this number of nodes
        tla.require_ok(r, f'SchemaSelect/{name}/N{N}')
        chk.model(f'SchemaSelect/{name}/N{N}', r)
        t0 = time.time()
        pvec = {v[0]: v[1:] for v in printed(r.output, 'pair')}
        g = tla.load_dot(dot)
        os.remove(dot)
        out = g.out()
        by_pid: dict = {}
        for sid, st in g.states.items():
            by_pid.setdefault(st['pid'], {})[sid] = st
        inits = {g.states[s]['pid']: s for s in g.init}
        if set(pvec) != set(by_pid):
            raise tla.MachineryError(f'select {name}/N{N}: {len(pvec)} printed pairs, {len(by_pid)} in the graph')
        items = []
        for pid, sts in sorted(by_pid.items()):
            S, inst, f, sdef = pvec[pid]
            items.append((pid, S, inst, f, sdef, sts, {s: out[s] for s in sts}, inits[pid]))
        n_edges = len(g.edges)
        del g
        results = core.pool_map(select_worker, [(c, tier) for c in core.chunked(items, 64)], procs=PROCS)
        for stats, fails, oracle, samples in results:
            if oracle:
                raise tla.MachineryError(f'specification and second oracle disagree (select {name}/N{N}): {oracle[:3]}')
            chk.add('transitions', stats['transitions'])
            chk.add('traces_validated_against_impl', stats['transitions'])
            chk.add('evaluations', stats['evaluations'])
            chk.add('second_oracle_evaluations', stats['lx_evals'])
            chk.add('distinct_nontrivial', stats['nontrivial'])
            chk.add('select_pairs', stats['pairs'])
            chk.add('select_baseline_mismatch_C01', stats.get('baseline_mismatch', 0))
            for s in samples:
                chk.sample(s, cap=8)
            record(chk, fails)
        print(f'  select/{name}/N{N}: pairs={len(items)} states={r.distinct} edges={n_edges} tlc={r.wall_s:.1f}s '
              f'replay={time.time() - t0:.1f}s', flush=True)
    chk.coverage['unreached_states'] = total_unreached
    chk.coverage['exhaustive'] = True
    chk.coverage['rule'] = ('every (S, S\', instance) triple of the SchemaWalk universe: fresh-context vector per schema x XSD 1.0/1.1 '
                            '(type_name, nilled, typed_value, data(), 16 instance-of tests, 3 probes per node) + every API-level edge '
                            'of the history graph; every edge of the SchemaSelect graph with and without schema; non-trivial = '
                            'instance-of expected true, probe with a value, selection with > 1 node or differing with/without schema')
    chk.coverage['configs'] = dict(walk=[n for n, _, _ in WALK[tier]], select=[(n, s) for n, _, _, s in SELECT[tier]])


# ---------------------------------------------------------------------------------------

def replay(rec: dict) -> int:
    """re-run one recorded case on the working tree ($VERIF_REPO) and judge it like run() did"""
    core.setup_repo_path()
    import xmlschema  # noqa
    from elementpath import XPathContext, get_node_tree
    case, exp, feat = rec['case'], rec['expected'], rec['features']
    f = case['f']
    lib = case.get('lib', 'etree')
    doc = Doc(f, lib, env=case.get('env', 'plain'), nsplace=case.get('nsplace', 'root'), nons=case.get('nons', False))
    pv = case.get('parser', '3.1')
    print('xml      :', doc.xml())
    print('expected :', exp)
    bad = None
    if case['kind'] == 'history':
        print('xsd 1    :', case['xsd1'])
        print('xsd 2    :', case['xsd2'])
        version = case['version']
        proxies = {0: None, 1: get_schema(case['xsd1'], version)[1], 2: get_schema(case['xsd2'], version)[1]}
        ctx = XPathContext(get_node_tree(doc.ctxroot, namespaces=NS), namespaces=NS)
        for action, args in case['actions']:
            print('action   :', action, args)
            apply_action(ctx, doc, proxies, action, args)
        nodes = find_nodes(ctx.root, doc)
        obs = {n: observe_node(nd) for n, nd in sorted(nodes.items())}
        print('observed :', {n: (o[0], repr(o[2])) for n, o in obs.items()})
        if feat['probe'] == 'type_name':
            want = {int(k): v for k, v in exp.items()}
            got = {n: ('none' if o[0] == 'untyped' else o[0]) for n, o in obs.items() if n in want}
            bad = got != want
        elif feat['probe'] == 'attribute_list':
            want = {int(k): v for k, v in exp.items()}
            got = {n: ('none' if obs[n][0] == 'untypedAtomic' else obs[n][0]) if n in obs else 'absent' for n in want}
            bad = got != want
        else:
            # final_type_name / typed_value of one node: the node is the one whose source/pos is in the features
            cl = value_classes(version)
            for n, nd in enumerate(f, 1):
                if nd['s'] == feat.get('source') and nd['i'] == feat.get('pos', nd['i']) and n in obs:
                    if isinstance(exp, str):
                        bad = obs[n][0] != exp
                    else:
                        bad = cmp_values(exp, obs[n][2], cl) is not None
                    if bad:
                        break
    elif case['kind'] == 'select':
        version = case['version']
        proxy = get_schema(case['xsd_text'], version)[1]
        print('xsd      :', case['xsd_text'])
        print('path     :', case['path'])
        res = {}
        for key, d, px in (('with_schema', doc, proxy), ('without', Doc(f, lib, materialise=case.get('has_dflt', False)), None)):
            ctx = XPathContext(d.root, namespaces=NS, schema=px)
            tok = get_token(case['path'], pv, px)
            try:
                res[key] = sorted(d.node_id(x) for x in tok.select(ctx))
            except Exception as e:  # noqa
                res[key] = err_class(e)
        print('observed :', res, '(second line: schema-less evaluation', 'of the document with the PSVI attributes written out)'
              if case.get('has_dflt') else 'of the same document)')
        bad = res['with_schema'] != res['without']
    else:
        if case['kind'] == 'untyped':
            proxy, version = None, '1.0'
        else:
            version = case['version']
            print('xsd      :', case['xsd_text'])
            proxy = get_schema(case['xsd_text'], version)[1]
        cl = value_classes(version)
        ctx = doc.context(proxy)
        probe = feat['probe']
        if 'expr' in case:
            obs = select_api(doc.ctxroot, case['expr'], pv, proxy, doc.ns, None if doc.ctxroot is doc.root else doc.root) \
                if case.get('api') == 'select' else \
                evaluate(case['expr'], pv, proxy, ctx)
            print('expr     :', case['expr'])
            print('observed :', repr(obs))
            if probe == 'instance_of' and 'index' in case:      # one expression over all the children of the root
                kids = [n for n, nd in enumerate(f, 1) if nd['par'] == 1 and nd['k'] in ELEM_KINDS]
                if isinstance(obs, tuple):
                    bad = True
                elif case['form'] == 'filter':
                    bad = (doc.key2id.get(id(doc.obj[kids[case['index']]])) in {doc.key2id.get(id(x)) for x in obs}) is not exp
                else:
                    bad = len(obs) != len(kids) or obs[case['index']] is not exp
            elif probe in ('instance_of', 'cmp', 'atomic_instance_of'):
                bad = obs != [exp]
            elif probe == 'data':
                bad = cmp_values(exp, obs, cl) is not None
            else:
                bad = probe_outcome(exp, obs, cl) is not None
        else:
            tok = get_token(case['path'], pv, proxy)
            nodes = list(tok.select(copy(ctx)))
            print('path     :', case['path'])
            if probe in ('node', 'psvi_without_schema'):
                obs = 'present' if nodes else 'absent'
                print('observed :', obs)
                bad = obs != exp
            else:
                tn, nilled, tv = observe_node(nodes[0]) if nodes else (None, None, None)
                print('observed : type_name', tn, 'nilled', nilled, 'typed_value', repr(tv))
                bad = (tn != exp) if probe == 'type_name' else (nilled != exp) if probe == 'nilled' else \
                    (cmp_values(exp, tv, cl) is not None)
    if bad:
        print('VIOLATION property=C20 replay=(replayed)')
        return 1
    print('no disagreement on this tree')
    return 0
