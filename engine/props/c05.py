"""C05 -- evaluation is pure and repeatable; variable bindings are lexically scoped.

Specs: spec/Scopes.tla (definitional environment-passing semantics of for / let / some /
every / inline-function binders; the machine wraps a program in one more construct per step
so that leaks into the surrounding scope are observable; scoping laws are TLC invariants)
and spec/SelectorHistory.tla (one parsed expression used over a pool of contexts in any
order; specified output = fresh result for the context of that evaluation; caller inputs
never change).

Binding A: (1) every program of the Scopes graph is rendered to XPath text and evaluated by
the 2.0/3.0/3.1 parsers with outer variables x=10, y=20; value = TLC's `val`; (2) every
history of the SelectorHistory graph is replayed on ONE Selector and on ONE parsed token for
each expression of a pool (Scopes programs + path / map / array / inline-function /
dateTime templates) and each output is compared with a fresh parse on a fresh context;
(3) around EVERY evaluation the caller's inputs are snapshotted and compared: serialised
document, variables (deep, including tzinfo of xs:dateTime values), namespaces; and
select(...) is compared with list(iter_select(...)).
"""
from __future__ import annotations

import copy
import os
import random
import xml.etree.ElementTree as ET

from .. import core, tla

T, F = 1001, 1000


def render(x) -> str:
    k = x['k']
    if k == 'lit':
        return str(x['n'])
    if k == 'var':
        return '$' + x['v']
    if k == 'add':
        return f'({render(x["a"])} + {render(x["b"])})'
    if k == 'gt':
        return f'({render(x["a"])} gt {render(x["b"])})'
    if k == 'cat':
        return f'({render(x["a"])}, {render(x["b"])})'
    if k == 'for':
        return f'(for ${x["v"]} in {render(x["s"])} return {render(x["b"])})'
    if k == 'for2':
        return f'(for ${x["v"]} in {render(x["s"])}, ${x["w"]} in {render(x["t"])} return {render(x["b"])})'
    if k == 'let':
        return f'(let ${x["v"]} := {render(x["s"])} return {render(x["b"])})'
    if k == 'some':
        return f'(some ${x["v"]} in {render(x["s"])} satisfies {render(x["c"])})'
    if k == 'every':
        return f'(every ${x["v"]} in {render(x["s"])} satisfies {render(x["c"])})'
    if k == 'call':
        return f'(function(${x["v"]}) {{ {render(x["b"])} }})({render(x["a"])})'
    raise ValueError(k)


def kinds(x, acc=None) -> set:
    acc = set() if acc is None else acc
    acc.add(x['k'])
    for v in x.values():
        if isinstance(v, dict):
            kinds(v, acc)
    return acc


_P = None


def parsers():
    global _P
    if _P is None:
        from elementpath import XPath2Parser
        from elementpath.xpath30 import XPath30Parser
        from elementpath.xpath31 import XPath31Parser
        _P = {'2.0': XPath2Parser, '3.0': XPath30Parser, '3.1': XPath31Parser}
    return _P


def project_atoms(res):
    if not isinstance(res, list):
        res = [res]
    out = []
    for r in res:
        if r is True:
            out.append(T)
        elif r is False:
            out.append(F)
        elif isinstance(r, int):
            out.append(r)
        else:
            out.append(('?', repr(r)))
    return out


def outcome(fn):
    from elementpath.exceptions import ElementPathError
    try:
        return fn()
    except ElementPathError as e:
        return ('err', (e.code or '').split(':')[-1])
    except RecursionError:
        return ('escaped', 'RecursionError')
    except Exception as e:  # noqa
        return ('escaped', type(e).__name__)


def scopes_worker(job):
    import elementpath
    fails, n = [], 0
    for (e, val, via) in job:
        text = render(e)
        ks = kinds(e)
        versions = ['3.0', '3.1'] if ks & {'let', 'call'} else ['2.0', '3.0', '3.1']
        expected = list(val)
        for v in versions:
            variables = {'x': 10, 'y': 20}
            obs = outcome(lambda: project_atoms(elementpath.select(None, text, item=1, variables=variables,
                                                                   parser=parsers()[v])))
            n += 1
            feat = None
            if obs != expected:
                feat = dict(part='scopes', binders=','.join(sorted(ks - {'lit', 'var', 'add', 'gt', 'cat'})),
                            wrap=via, outcome=('error:' + str(obs[1])) if isinstance(obs, tuple) else 'value', parser=v)
            elif variables != {'x': 10, 'y': 20}:
                feat = dict(part='scopes', binders=','.join(sorted(ks - {'lit', 'var', 'add', 'gt', 'cat'})),
                            wrap=via, outcome='caller_variables_modified', parser=v)
                obs = dict(variables)
            else:
                obs2 = outcome(lambda: project_atoms(list(elementpath.iter_select(
                    None, text, item=1, variables={'x': 10, 'y': 20}, parser=parsers()[v]))))
                n += 1
                if obs2 != expected:
                    feat = dict(part='scopes', binders=','.join(sorted(ks - {'lit', 'var', 'add', 'gt', 'cat'})),
                                wrap=via, outcome='iter_select_differs', parser=v)
                    obs = obs2
            if feat:
                fails.append((feat, dict(part='scopes', expr=text, parser=v), expected, obs))
    return n, fails


# ---------------------------------------------------------------------------------------------
# SelectorHistory: contexts and expression pool

DOCS = {
    'd1': '<r><a v="1">t<b/></a><a v="2"/><b>u</b></r>',
    'd2': '<r xmlns:p="urn:p"><b/><a v="9"><a v="8"/></a><p:a v="7"/></r>',
}


def make_context(label: str):
    """Fresh caller-side inputs of context `label` (new objects on every call)."""
    from elementpath.datatypes import DateTime10
    if label == 'c1':
        root = ET.ElementTree(ET.fromstring(DOCS['d1']))
        return dict(root=root, variables={'x': 10, 'y': 20, 'd': DateTime10.fromstring('2000-01-01T00:00:00')},
                    timezone=None, namespaces={'p': 'urn:p'})
    if label == 'c2':
        root = ET.ElementTree(ET.fromstring(DOCS['d2']))
        return dict(root=root, variables={'x': 1, 'y': 2, 'd': DateTime10.fromstring('2000-01-01T00:00:00')},
                    timezone='+05:00', namespaces={'p': 'urn:p'})
    if label == 'c3':
        root = ET.fromstring(DOCS['d1'])   # Element root, other variables, negative timezone
        return dict(root=root, variables={'x': 7, 'y': 3, 'd': DateTime10.fromstring('1999-12-31T23:00:00')},
                    timezone='-03:00', namespaces={'p': 'urn:p'})
    raise ValueError(label)


TEMPLATES = [
    # (min parser version, expression)
    ('2.0', '//a/@v'), ('2.0', 'count(//b)'), ('2.0', '(//a)[last()]/@v'), ('2.0', 'string(/*/a[1])'),
    ('2.0', '//a[@v > $y]/@v'), ('2.0', 'for $n in //a return ($n/@v, $x)'), ('2.0', '$x + count(//a)'),
    ('2.0', 'some $n in //a satisfies $n/@v = $x'), ('2.0', '//p:a/@v'), ('2.0', '(//a/@v, $y)[2]'),
    ('2.0', '$d eq xs:dateTime("2000-01-01T00:00:00Z")'), ('2.0', 'string(adjust-dateTime-to-timezone($d))'),
    ('2.0', 'xs:dateTime("1999-12-31T22:00:00") lt $d'), ('2.0', 'string(implicit-timezone())'),
    ('2.0', 'hours-from-dateTime(adjust-dateTime-to-timezone(xs:dateTime("2000-01-01T12:00:00Z")))'),
    ('2.0', 'xs:dateTime("2000-01-01T00:00:00") eq xs:dateTime("2000-01-01T00:00:00Z")'),
    ('2.0', 'string($d - xs:dateTime("2000-01-01T00:00:00Z"))'), ('2.0', 'string(xs:dateTime("2000-06-01T00:00:00Z") - $d)'),
    ('2.0', 'string($d + xs:dayTimeDuration("PT1H"))'), ('2.0', 'string(adjust-dateTime-to-timezone($d, ()))'),
    ('2.0', 'string(adjust-dateTime-to-timezone($d, xs:dayTimeDuration("PT2H")))'),
    ('2.0', 'string(xs:date("2000-01-01") - xs:date("1999-12-31Z"))'),
    ('3.0', 'let $f := function($a) { $a + $x } return $f(1)'),
    ('3.0', 'for-each((1, 2), function($a) { $a * $x })'),
    ('3.0', 'let $f := function() { //a/@v } return count($f())'),
    ('3.0', 'fold-left((1, 2, 3), $y, function($acc, $n) { $acc + $n })'),
    ('3.0', '(for $i in (1, $x) return function() { $i + $y }) ! .()'),
    ('3.0', 'let $x := $x + 1 return ($x, $y)'), ('3.0', 'string-join(for $n in //a return string($n/@v), "-") || $x'),
    ('3.1', 'map{"k": $x}?k'), ('3.1', 'let $m := map{"a": $x, "b": $y} return (map:keys($m), map:size($m))'),
    ('3.1', 'array{$x, $y}?2'), ('3.1', '[$x, count(//a)]?*'), ('3.1', 'map{"n": //a/@v}?n'),
    ('3.1', 'map:for-each(map{"a": $x}, function($k, $v) { $v + $y })'),
    ('3.1', 'array:for-each([1, 2], function($n) { $n + $x })?*'),
    ('3.1', 'let $m := map{$x: "one"} return map:contains($m, 10)'),
    ('3.1', 'sort((3, $x, 2))'), ('3.1', 'map:merge((map{"a": $x}, map{"a": $y}))?a'),
]


# context-dependent atoms wrapped in every pair of constructors: a cache on any constructor token
# (map / array / inline function / binder) that survives an evaluation shows up in the second one
ATOMS = ['$x', '//a/@v', 'count(//a) + $y']
WRAPPERS = [
    ('3.1', 'map{{"k": {0}}}?k'), ('3.1', '[{0}]?1'), ('3.1', 'array{{{0}}}?1'), ('3.1', 'map{{"k": [{0}]}}?k?1'),
    ('3.1', '[map{{"k": {0}}}]?1?k'), ('3.1', 'map:get(map{{1: {0}}}, 1)'), ('3.1', 'array:get([{0}, 0], 1)'),
    ('3.0', '(function() {{ {0} }})()'), ('3.0', 'let $z := {0} return $z'), ('2.0', 'for $z in {0} return $z'),
    ('2.0', '({0})[1]'), ('3.0', 'for-each({0}, function($q) {{ $q }})'),
]


def generated_templates():
    out = []
    for a in ATOMS:
        for v1, w1 in WRAPPERS:
            for v2, w2 in WRAPPERS:
                out.append((max(v1, v2), w2.format(w1.format(a))))
    return out


def proj_result(res):
    """Comparable, context-independent projection of an API result."""
    if not isinstance(res, list):
        res = [res]
    out = []
    for r in res:
        if hasattr(r, 'tag') and not callable(getattr(r, 'tag')):
            out.append(('elem', ET.tostring(r, encoding='unicode')))
        elif hasattr(r, 'getroot'):
            out.append(('doc', ET.tostring(r.getroot(), encoding='unicode')))
        elif isinstance(r, float) and r != r:
            out.append(('nan',))
        else:
            out.append((type(r).__name__, str(r)))
    return out


def snapshot(ctx):
    root = ctx['root']
    el = root.getroot() if hasattr(root, 'getroot') else root
    return (ET.tostring(el, encoding='unicode'),
            tuple(sorted((k, type(v).__name__, str(v), str(getattr(v, 'tzinfo', None))) for k, v in ctx['variables'].items())),
            tuple(sorted(ctx['namespaces'].items())))


def eval_in(sel_or_tok, mode, ctx):
    from elementpath import XPathContext
    kw = dict(variables=ctx['variables'], timezone=ctx['timezone'], namespaces=ctx['namespaces'])
    if mode == 'selector':
        return sel_or_tok.select(ctx['root'], **kw)
    if mode == 'selector_iter':
        return list(sel_or_tok.iter_select(ctx['root'], **kw))
    return sel_or_tok.get_results(XPathContext(ctx['root'], **kw))


def history_worker(job):
    import elementpath
    from elementpath import Selector
    fails, n = [], 0
    for (expr, version, histories) in job:
        P = parsers()[version]
        fresh = {}
        for c in ('c1', 'c2', 'c3'):
            ctx = make_context(c)
            fresh[c] = outcome(lambda: proj_result(elementpath.select(
                ctx['root'], expr, parser=P, variables=ctx['variables'], timezone=ctx['timezone'],
                namespaces=ctx['namespaces'])))
            n += 1
        for mode in ('selector', 'selector_iter', 'token'):
            for hist in histories:
                # one parsed expression, caller inputs created once and reused across the history
                try:
                    obj = Selector(expr, namespaces={'p': 'urn:p'}, parser=P) if mode != 'token' else \
                        P(namespaces={'p': 'urn:p'}).parse(expr)
                except Exception as e:  # parse failure of a template is a machinery problem
                    raise tla.MachineryError(f'template does not parse: {expr}: {e}')
                ctxs = {c: make_context(c) for c in set(hist)}
                snaps = {c: snapshot(ctxs[c]) for c in ctxs}
                for i, c in enumerate(hist):
                    obs = outcome(lambda: proj_result(eval_in(obj, mode, ctxs[c])))
                    n += 1
                    feat = None
                    if obs != fresh[c]:
                        feat = dict(part='history', outcome='differs_from_fresh', mode=('token' if mode == 'token' else 'selector'),
                                    step=i + 1, repeated_context=c in hist[:i], template=expr, parser=version)
                        exp = fresh[c]
                    else:
                        for c2 in ctxs:
                            if snapshot(ctxs[c2]) != snaps[c2]:
                                feat = dict(part='purity', outcome='caller_input_modified', mode=('token' if mode == 'token' else 'selector'),
                                            step=i + 1, template=expr, parser=version)
                                exp, obs = snaps[c2], snapshot(ctxs[c2])
                                break
                    if feat:
                        fails.append((feat, dict(part='history', expr=expr, parser=version, mode=mode, hist=list(hist)), exp, obs))
                        break
    return n, fails


def replay(rec: dict) -> int:
    core.setup_repo_path()
    case = rec['case']
    if case['part'] == 'scopes':
        import elementpath
        obs = outcome(lambda: project_atoms(elementpath.select(None, case['expr'], item=1, variables={'x': 10, 'y': 20},
                                                               parser=parsers()[case['parser']])))
        print('expr', case['expr'], '\nexpected', rec['expected'], '\nobserved', obs)
        return 0 if obs == rec['expected'] else 1
    n, fails = history_worker([(case['expr'], case['parser'], [tuple(case['hist'])])])
    for f in fails:
        print(f[0], '\nexpected', f[2], '\nobserved', f[3])
    return 1 if fails else 0


def run(chk: core.Check) -> None:
    core.setup_repo_path()
    chk.assumptions += [
        'spec/Scopes.tla is the oracle for binder programs; for histories the oracle is, as the property states, a freshly parsed expression on a fresh context',
        'purity is observed on serialised documents, variable values (type, string value, tzinfo) and namespace maps',
    ]
    depth = 2 if chk.tier == "quick" else 3
    # (1) Scopes
    wd = os.path.join(chk.scratch, 'scopes')
    dot = os.path.join(wd, 'g.dot')
    cfg = tla.cfg_text(dict(MaxDepth=depth), invariants=['Laws'], constraints=['Bounded', 'WellTyped'])
    r = tla.require_ok(tla.run_tlc('Scopes', cfg, wd, dump_dot=dot, timeout=3000), 'Scopes', min_distinct=500)
    chk.model(f'Scopes/depth{depth}', r)
    g = tla.load_dot(dot)
    os.remove(dot)
    via = {}
    for s, d, a, args in g.edges:
        via.setdefault(d, a)
    progs = [(st['e'], st['val'], via.get(sid, 'seed')) for sid, st in g.states.items()]
    chk.add('transitions', len(g.edges))
    chk.add('distinct_nontrivial', sum(1 for e, v, w in progs if w != 'seed'))
    for p in progs[:: max(1, len(progs) // 4)][:4]:
        chk.sample(dict(program=render(p[0]), value=list(p[1])))
    res = core.pool_map(scopes_worker, core.chunked(progs, 64))
    for n, fails in res:
        chk.add('evaluations', n)
        for feat, case, exp, obs in fails:
            chk.fail(feat, case, exp, obs, what=case['expr'])
    chk.add('traces_validated_against_impl', len(progs))
    print(f'  scopes: programs={len(progs)} tlc={r.wall_s:.1f}s', flush=True)

    # (2) histories
    wd = os.path.join(chk.scratch, 'hist')
    dot = os.path.join(wd, 'g.dot')
    maxlen = 3 if chk.tier == 'quick' else 4
    cfg = tla.cfg_text(dict(Contexts={'c1', 'c2', 'c3'}, MaxLen=maxlen), invariants=['OutputIsFresh', 'Pure'],
                       properties=['InputsNeverChange'])
    r2 = tla.require_ok(tla.run_tlc('SelectorHistory', cfg, wd, dump_dot=dot, workers=2), 'SelectorHistory', min_distinct=10)
    chk.model(f'SelectorHistory/len{maxlen}', r2)
    g2 = tla.load_dot(dot)
    hists = sorted({tuple(st['hist']) for st in g2.states.values() if len(st['hist']) == maxlen})
    chk.add('transitions', len(g2.edges))
    rnd = random.Random(chk.seed)
    binder_progs = [p for p in progs if p[2] != 'seed']
    pool = [(v, t) for v, t in TEMPLATES] + generated_templates()
    from elementpath.exceptions import ElementPathError
    want = 24 if chk.tier == 'quick' else 120
    for e, val, w in rnd.sample(binder_progs, len(binder_progs)):
        if want == 0:
            break
        try:    # programs the parser rejects (known finding XPST0008) cannot be used as history templates
            parsers()['3.1']().parse(render(e))
        except ElementPathError:
            continue
        pool.append(('3.0' if kinds(e) & {'let', 'call'} else '2.0', render(e)))
        want -= 1
    jobs = []
    for minv, expr in pool:
        for v in ('2.0', '3.0', '3.1'):
            if v >= minv:
                jobs.append([(expr, v, hists)])
    res = core.pool_map(history_worker, jobs)
    nh = 0
    for n, fails in res:
        chk.add('evaluations', n)
        nh += 1
        for feat, case, exp, obs in fails:
            chk.fail(feat, case, exp, obs, what=f'{case["expr"]} history {case["hist"]} ({case["mode"]})')
    chk.add('traces_validated_against_impl', len(jobs) * len(hists) * 3)
    chk.sample(dict(history=list(hists[len(hists) // 2]), expression=pool[16][1], modes=['selector', 'selector_iter', 'token']))
    chk.coverage['history_pool'] = dict(expressions=len(pool), histories=len(hists), contexts=3)
    chk.coverage['exhaustive'] = True
    chk.coverage['rule'] = ('programs = every state of the Scopes graph (wrapped programs are non-trivial); histories = every '
                            f'sequence of {maxlen} evaluations over 3 contexts for every pool expression x parser x '
                            '{Selector.select, Selector.iter_select, token}; purity snapshot after every evaluation')
    print(f'  histories: expressions={len(pool)} histories={len(hists)}', flush=True)
