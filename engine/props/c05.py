"""C05 -- evaluation is pure and repeatable; variable bindings are lexically scoped.

Specs: spec/Scopes.tla (definitional environment-passing semantics of for / let / some /
every / inline-function binders; the machine wraps a program in one more construct per step
so that leaks into the surrounding scope are observable; scoping laws are TLC invariants)
and spec/SelectorHistory.tla (one parsed expression used over a pool of contexts in any
order; specified output = fresh result for the context of that evaluation; caller inputs
never change).

Binding A: (1) every program of the Scopes graph is rendered to XPath text and evaluated by
the 2.0/3.0/3.1 parsers with outer variables x=10, y=20; value = TLC's `val`; (2) every
history of the SelectorHistory graph is replayed on ONE Selector and on ONE parsed token for
each expression of a pool (Scopes programs + path / map / array / inline-function /
dateTime templates) and each output is compared with a fresh parse on a fresh context;
(3) around EVERY evaluation the caller's inputs are snapshotted and compared: serialised
document, variables (deep, including tzinfo of xs:dateTime values), namespaces; and
select(...) is compared with list(iter_select(...)).
"""
from __future__ import annotations

import copy
import os
import random
import xml.etree.ElementTree as ET

from .. import core, tla

T, F = 1001, 1000


VAR_STYLES = {'plain': '${0}', 'map': "map{{'k': ${0}}}?k", 'array': '[${0}]?1', 'forq': '(for $q in 1 return ${0})'}


def render(x, style: str = 'plain', inside: bool = False) -> str:
    """XPath text of a Scopes program.  `style` is a rendering choice for the variable reads INSIDE the bodies of escaping
    closures (clos / forclos): plain, or through a map / array constructor or a for clause (value-preserving wrappers that
    hide the read from a syntactic scan of the function body)."""
    k = x['k']
    if k == 'lit':
        return str(x['n'])
    if k == 'var':
        return VAR_STYLES[style if inside else 'plain'].format(x['v'])
    if k == 'clos':
        return (f'(let $f := function() {{ {render(x["b"], style, True)} }} return '
                f'(let ${x["v"]} := {render(x["s"], style, inside)} return $f()))')
    if k == 'forclos':
        return f'((for ${x["v"]} in {render(x["s"], style, inside)} return function() {{ {render(x["b"], style, True)} }}) ! .())'
    if k == 'add':
        return f'({render(x["a"], style, inside)} + {render(x["b"], style, inside)})'
    if k == 'gt':
        return f'({render(x["a"], style, inside)} gt {render(x["b"], style, inside)})'
    if k == 'cat':
        return f'({render(x["a"], style, inside)}, {render(x["b"], style, inside)})'
    if k == 'for':
        return f'(for ${x["v"]} in {render(x["s"], style, inside)} return {render(x["b"], style, inside)})'
    if k == 'for2':
        return f'(for ${x["v"]} in {render(x["s"], style, inside)}, ${x["w"]} in {render(x["t"], style, inside)} return {render(x["b"], style, inside)})'
    if k == 'for3':
        return (f'(for ${x["v"]} in {render(x["s"], style, inside)}, ${x["w"]} in {render(x["r"], style, inside)}, '
                f'${x["u"]} in {render(x["t"], style, inside)} return {render(x["b"], style, inside)})')
    if k == 'let':
        return f'(let ${x["v"]} := {render(x["s"], style, inside)} return {render(x["b"], style, inside)})'
    if k == 'some':
        return f'(some ${x["v"]} in {render(x["s"], style, inside)} satisfies {render(x["c"], style, inside)})'
    if k == 'every':
        return f'(every ${x["v"]} in {render(x["s"], style, inside)} satisfies {render(x["c"], style, inside)})'
    if k == 'call':
        return f'(function(${x["v"]}) {{ {render(x["b"], style, inside)} }})({render(x["a"], style, inside)})'
    raise ValueError(k)


def kinds(x, acc=None) -> set:
    acc = set() if acc is None else acc
    acc.add(x['k'])
    for v in x.values():
        if isinstance(v, dict):
            kinds(v, acc)
    return acc


_P = None


def parsers():
    global _P
    if _P is None:
        from elementpath import XPath2Parser
        from elementpath.xpath30 import XPath30Parser
        from elementpath.xpath31 import XPath31Parser
        _P = {'2.0': XPath2Parser, '3.0': XPath30Parser, '3.1': XPath31Parser}
    return _P


def project_atoms(res):
    if not isinstance(res, list):
        res = [res]
    out = []
    for r in res:
        if r is True:
            out.append(T)
        elif r is False:
            out.append(F)
        elif isinstance(r, int):
            out.append(r)
        else:
            out.append(('?', repr(r)))
    return out


def outcome(fn):
    from elementpath.exceptions import ElementPathError
    try:
        return fn()
    except ElementPathError as e:
        return ('err', (e.code or '').split(':')[-1])
    except RecursionError:
        return ('escaped', 'RecursionError')
    except Exception as e:  # noqa
        return ('escaped', type(e).__name__)


def scopes_worker(job):
    import elementpath
    fails, n = [], 0
    for (e, val, via) in job:
        ks = kinds(e)
        versions = ['3.0', '3.1'] if ks & {'let', 'call', 'clos', 'forclos'} else ['2.0', '3.0', '3.1']
        expected = list(val)
        texts = [(v, render(e)) for v in versions]
        if ks & {'clos', 'forclos'}:
            texts += [('3.1', render(e, 'map')), ('3.1', render(e, 'array')), ('3.0', render(e, 'forq')), ('3.1', render(e, 'forq'))]
        for v, text in texts:
            variables = {'x': 10, 'y': 20}
            obs = outcome(lambda: project_atoms(elementpath.select(None, text, item=1, variables=variables,
                                                                   parser=parsers()[v])))
            n += 1
            feat = None
            if obs != expected:
                feat = dict(part='scopes', binders=','.join(sorted(ks - {'lit', 'var', 'add', 'gt', 'cat'})),
                            wrap=via, outcome=('error:' + str(obs[1])) if isinstance(obs, tuple) else 'value', parser=v)
            elif variables != {'x': 10, 'y': 20}:
                feat = dict(part='scopes', binders=','.join(sorted(ks - {'lit', 'var', 'add', 'gt', 'cat'})),
                            wrap=via, outcome='caller_variables_modified', parser=v)
                obs = dict(variables)
            else:
                obs2 = outcome(lambda: project_atoms(list(elementpath.iter_select(
                    None, text, item=1, variables={'x': 10, 'y': 20}, parser=parsers()[v]))))
                n += 1
                if obs2 != expected:
                    feat = dict(part='scopes', binders=','.join(sorted(ks - {'lit', 'var', 'add', 'gt', 'cat'})),
                                wrap=via, outcome='iter_select_differs', parser=v)
                    obs = obs2
            if feat:
                fails.append((feat, dict(part='scopes', expr=text, parser=v), expected, obs))
    return n, fails


# ---------------------------------------------------------------------------------------------
# SelectorHistory: contexts and expression pool

DOCS = {
    'd1': '<r><a v="1">t<b/>w</a>x<a v="2"/>y<b>u</b>z</r>',
    'd2': '<r xmlns:p="urn:p"><b/><a v="9"><a v="8"/></a><p:a v="7"/></r>',
    'd4': '<p:root xmlns:p="urn:p"><a v="5"><b/>w</a><p:a v="6"/></p:root>',
}


_P31 = None


def _p31():
    global _P31
    if _P31 is None:
        from elementpath.xpath31 import XPath31Parser
        _P31 = XPath31Parser()
    return _P31


def typed_vars(k: int) -> dict:
    """One value per atomic type and context (k = 0, 1, 2): arguments of the signature family."""
    from decimal import Decimal
    from elementpath import datatypes as dt
    from elementpath.xpath_tokens import XPathMap, XPathArray
    return {
        # s3: also three valid regex flags; case chosen so that a literal pattern 'b' matches or not depending on the flags
        's': ('ABC ABC', 'abcabc', 'a-B-c')[k], 's2': ('b', 'B', 'c')[k], 's3': ('x', 'i', 'm')[k],
        'i': (2, 3, 1)[k], 'n': (1.5, -2.5, 1e10)[k], 'dec': Decimal(('2.5', '-0.5', '10')[k]), 'b': (True, False, True)[k],
        'dt': dt.DateTime10.fromstring(('2000-01-01T10:00:00Z', '1999-12-31T23:30:00+05:00', '2024-02-29T12:00:00')[k]),
        'date': dt.Date10.fromstring(('2000-01-31', '2004-02-29Z', '1999-12-31')[k]),
        'time': dt.Time.fromstring(('10:00:00', '23:59:59.5Z', '00:00:00')[k]),
        'dur': dt.Duration.fromstring(('P1DT2H', '-P2D', 'P1Y')[k]),
        'dtd': dt.DayTimeDuration.fromstring(('PT1H', '-PT90M', 'P1D')[k]),
        'ymd': dt.YearMonthDuration.fromstring(('P1Y2M', '-P3M', 'P10Y')[k]),
        'q': dt.QName(('urn:p', '', 'urn:p')[k], ('p:a', 'b', 'p:c')[k]), 'u': dt.AnyURI(('http://x/a b', 'urn:x', 'a/../b')[k]),
        # sequence-valued variables: the caller's LIST objects (an operator that extends a list in place shows in the snapshot)
        'seq': [[1, 2], [5], [7, 8, 9]][k], 'eseq': [],
        # the caller's own map and array objects with sequence-valued members (shared lists inside)
        'cm': XPathMap(_p31(), {'k': [[1, 2], [5, 6], [7]][k], 'e': [], 's': ('u', 'v', 'w')[k]}),
        'ca': XPathArray(_p31(), [[[10, 20], [30], [40, 50, 60]][k], 30, []]),
    }


def make_context(label: str):
    """Fresh caller-side inputs of context `label` (new objects on every call)."""
    from elementpath.datatypes import DateTime10
    if label == 'c1':
        root = ET.ElementTree(ET.fromstring(DOCS['d1']))
        return with_node_vars(dict(root=root, variables=dict({'x': 10, 'y': 20, 'd': DateTime10.fromstring('2000-01-01T00:00:00')}, **typed_vars(0)),
                    timezone=None, namespaces={'p': 'urn:p'}))
    if label == 'c2':
        root = ET.ElementTree(ET.fromstring(DOCS['d2']))
        return with_node_vars(dict(root=root, variables=dict({'x': 1, 'y': 2, 'd': DateTime10.fromstring('2000-01-01T00:00:00')}, **typed_vars(1)),
                    timezone='+05:00', namespaces={'p': 'urn:p'}, focus=True))
    if label == 'c3':
        root = ET.fromstring(DOCS['d1'])   # Element root, other variables, negative timezone
        return with_node_vars(dict(root=root, variables=dict({'x': 7, 'y': 3, 'd': DateTime10.fromstring('1999-12-31T23:00:00')}, **typed_vars(2)),
                    timezone='-03:00', namespaces={'p': 'urn:p'}))
    if label == 'c4':
        # a second Element root whose root element has another (prefixed) name: state derived from the root of an earlier tree
        root = ET.fromstring(DOCS['d4'])
        return with_node_vars(dict(root=root, variables=dict({'x': 4, 'y': 5, 'd': DateTime10.fromstring('2000-01-01T00:00:00')}, **typed_vars(1)),
                    timezone=None, namespaces={'p': 'urn:p'}))
    raise ValueError(label)


def with_node_vars(ctx: dict) -> dict:
    """a caller variable whose value is a LIST of raw tree elements and an atomic value (the caller's list must stay as it is)"""
    root = ctx['root']
    el = root.getroot() if hasattr(root, 'getroot') else root
    ctx['variables']['nodes'] = [el[0], el[1], 7]
    return ctx


TEMPLATES = [
    # (min parser version, expression)
    ('2.0', '//a/@v'), ('2.0', 'count(//b)'), ('2.0', '(//a)[last()]/@v'), ('2.0', 'string(/*/a[1])'),
    ('2.0', '//a[@v > $y]/@v'), ('2.0', 'for $n in //a return ($n/@v, $x)'), ('2.0', '$x + count(//a)'),
    ('2.0', 'some $n in //a satisfies $n/@v = $x'), ('2.0', '//p:a/@v'), ('2.0', '(//a/@v, $y)[2]'),
    ('2.0', '$d eq xs:dateTime("2000-01-01T00:00:00Z")'), ('2.0', 'string(adjust-dateTime-to-timezone($d))'),
    ('2.0', 'xs:dateTime("1999-12-31T22:00:00") lt $d'), ('2.0', 'string(implicit-timezone())'),
    ('2.0', 'hours-from-dateTime(adjust-dateTime-to-timezone(xs:dateTime("2000-01-01T12:00:00Z")))'),
    ('2.0', 'xs:dateTime("2000-01-01T00:00:00") eq xs:dateTime("2000-01-01T00:00:00Z")'),
    ('2.0', 'string($d - xs:dateTime("2000-01-01T00:00:00Z"))'), ('2.0', 'string(xs:dateTime("2000-06-01T00:00:00Z") - $d)'),
    ('2.0', 'string($d + xs:dayTimeDuration("PT1H"))'), ('2.0', 'string(adjust-dateTime-to-timezone($d, ()))'),
    ('2.0', 'string(adjust-dateTime-to-timezone($d, xs:dayTimeDuration("PT2H")))'),
    ('2.0', 'string(xs:date("2000-01-01") - xs:date("1999-12-31Z"))'),
    ('3.0', 'let $f := function($a) { $a + $x } return $f(1)'),
    ('3.0', 'for-each((1, 2), function($a) { $a * $x })'),
    ('3.0', 'let $f := function() { //a/@v } return count($f())'),
    ('3.0', 'fold-left((1, 2, 3), $y, function($acc, $n) { $acc + $n })'),
    ('3.0', '(for $i in (1, $x) return function() { $i + $y }) ! .()'),
    ('3.0', 'let $x := $x + 1 return ($x, $y)'), ('3.0', 'string-join(for $n in //a return string($n/@v), "-") || $x'),
    ('3.1', 'map{"k": $x}?k'), ('3.1', 'let $m := map{"a": $x, "b": $y} return (map:keys($m), map:size($m))'),
    ('3.1', 'array{$x, $y}?2'), ('3.1', '[$x, count(//a)]?*'), ('3.1', 'map{"n": //a/@v}?n'),
    ('3.1', 'map:for-each(map{"a": $x}, function($k, $v) { $v + $y })'),
    ('3.1', 'array:for-each([1, 2], function($n) { $n + $x })?*'),
    ('3.1', 'let $m := map{$x: "one"} return map:contains($m, 10)'),
    ('3.1', 'sort((3, $x, 2))'), ('3.1', 'map:merge((map{"a": $x}, map{"a": $y}))?a'),
    # serialisation of a node that is followed by text, with every parameter that selects another code path
    ('3.1', 'serialize((//a)[1])'), ('3.1', 'serialize((//a)[1], map{"standalone": true()})'),
    ('3.1', 'serialize((//a)[1], map{"standalone": false(), "omit-xml-declaration": false()})'),
    ('3.1', 'serialize((//a)[1], map{"indent": true()})'), ('3.1', 'serialize((//a)[1], map{"method": "html"})'),
    ('3.1', 'serialize((//a)[1], map{"method": "text"})'), ('3.1', 'serialize(//a, map{"item-separator": "|", "omit-xml-declaration": true()})'),
    ('3.1', 'serialize(map{"k": $x, "n": string((//a)[1]/@v)}, map{"method": "json"})'),
    ('3.1', 'serialize(((//a)[1], $x), map{"method": "adaptive"})'),
    ('3.0', 'parse-xml(serialize((//a)[1]))/*/@v'), ('3.0', 'serialize(parse-xml-fragment("<q/>t<q>" || $x || "</q>"))'),
    ('3.1', 'xml-to-json(json-to-xml(serialize(map{"k": $x}, map{"method": "json"})))'),
    ('3.0', 'string-join(//a ! string(.), "|")'), ('3.0', 'string-join(//a/following-sibling::node() ! string(.), "|")'),
    ('2.0', 'string(/)'), ('2.0', 'data(//a)'), ('2.0', 'for $n in //* return (name($n), string-length(string($n)))'),
    ('3.0', 'innermost(//*) ! name()'), ('3.0', 'path((//b)[last()])'), ('2.0', 'root((//b)[1])/*/@v | //a/@v'),
    ('2.0', 'deep-equal((//a)[1], (//a)[2])'), ('2.0', 'count(//node()) + count(//@*)'),
    # what depends on the namespaces of the dynamic context (xml.etree trees have no declarations of their own)
    ('2.0', '/*/namespace::*'), ('2.0', 'count(//namespace::*)'), ('2.0', 'in-scope-prefixes(/*)'),
    ('2.0', 'string(namespace-uri-for-prefix("p", /*))'), ('2.0', 'for $e in //* return name($e)'),
    ('2.0', 'string(namespace-uri-from-QName(resolve-QName("p:z", /*)))'), ('3.0', '//namespace-node() ! string(.)'),
    ('3.0', 'path((//*)[last()])'), ('3.0', 'count(/*/namespace::p)'),
    # the caller's outer focus and sequence-valued variables
    ('2.0', 'position()'), ('2.0', 'last()'), ('2.0', '(position(), last(), name(.))'), ('2.0', 'count(($seq, 3))'),
    ('2.0', '($seq, $x)'), ('2.0', '($eseq, 1, $seq)'), ('3.0', 'let $z := ($seq, 3) return count($z)'),
    ('3.0', 'string-join(($seq, $eseq, 4) ! string(.), "-")'), ('3.1', '[($seq, 3)]?1'), ('3.1', 'map{"k": ($seq, 3)}?k'),
    ('3.1', 'array:size([($eseq, $seq), $seq])'), ('3.0', 'for-each(($seq, 0), function($n) { $n + 1 })'),
    ('2.0', 'for $i in ($seq, $seq) return $i * 2'), ('2.0', 'sum(($seq, $eseq))'), ('2.0', 'reverse(($seq, 0))'),
    ('3.1', 'count(($cm("k"), 3))'), ('3.1', 'let $s := ($cm?k, 3), $t := (array:get($ca, 1), 40), $u := (map:get($cm, "e"), 0) return (count($s), count($t), count($u))'),
    ('3.1', '($ca(1), $ca?3, 9)'), ('3.1', 'let $f := function() {} return count(($f(), 1))'), ('3.1', 'array:size(array:append($ca, ($cm?k, 1)))'),
    ('3.1', 'map:size(map:put($cm, "n", ($cm?k, $cm?e)))'), ('3.1', '[($cm?k, $ca?1)]?1'), ('3.1', 'string-join((($cm?s, "z")), "")'),
    ('2.0', 'count($nodes)'), ('2.0', '$nodes[1]/@v'), ('2.0', 'for $n in $nodes return string($n)'), ('2.0', '($nodes, 1)[last()]'),
    ('3.1', 'array:flatten(($ca, $cm?k))'), ('3.1', 'map:for-each($cm, function($k, $v) { count(($v, 0)) })'),
]


# context-dependent atoms wrapped in every pair of constructors: a cache on any constructor token
# (map / array / inline function / binder) that survives an evaluation shows up in the second one
ATOMS = ['$x', '//a/@v', 'count(//a) + $y']
WRAPPERS = [
    ('3.1', 'map{{"k": {0}}}?k'), ('3.1', '[{0}]?1'), ('3.1', 'array{{{0}}}?1'), ('3.1', 'map{{"k": [{0}]}}?k?1'),
    ('3.1', '[map{{"k": {0}}}]?1?k'), ('3.1', 'map:get(map{{1: {0}}}, 1)'), ('3.1', 'array:get([{0}, 0], 1)'),
    ('3.0', '(function() {{ {0} }})()'), ('3.0', 'let $z := {0} return $z'), ('2.0', 'for $z in {0} return $z'),
    ('2.0', '({0})[1]'), ('3.0', 'for-each({0}, function($q) {{ $q }})'),
]


def generated_templates():
    out = []
    for a in ATOMS:
        for v1, w1 in WRAPPERS:
            for v2, w2 in WRAPPERS:
                out.append((max(v1, v2), w2.format(w1.format(a))))
    return out


# ---------------------------------------------------------------------------------------------
# Signature family: every function of the live signature table called with context-dependent arguments.
# A value computed in one evaluation and kept on the token (compiled pattern, translation table, parser, precision,
# collation...) shows up when the same parsed call is evaluated again with other argument values.

VAR_OF = {  # parameter item type -> (context-dependent expression, literal A, literal B)
    'xs:string': None,   # by order of appearance: $s, $s2, $s3
    'xs:string*': ('($s, $s2)', "('a', 'b')", "('c', 'a', 'c')"),
    'item()*': ('($x, $s, //a/@v)', "(1, 'a')", "('b', 2, 3)"), 'item()': ('$x', '1', "'b'"),
    'array(*)': ('[$x, $s, $i]', "[1, 'a']", "['b', 2, 3]"), 'map(*)': ('map{"k": $x, "s": $s, $i: $b}', "map{'k': 1}", "map{'k': 2, 'j': 'a'}"),
    'map(*)*': ('(map{"k": $x}, map{"k": $y, "j": $s})', "map{'k': 1}", "(map{'k': 2}, map{'k': 3, 'j': 'a'})"),
    'xs:anyAtomicType*': ('($x, $i, $n)', "(1, 2)", "(3, 1, 2)"), 'xs:anyAtomicType': ('$x', '1', "'b'"),
    'node()': ('(//a)[1]', '/*', '(//*)[last()]'), 'node()*': ('//a', '/*', '//*'), 'element()': ('(//a)[1]', '/*', '(//*)[last()]'),
    'xs:dateTime': ('$dt', "xs:dateTime('2000-01-01T00:00:00')", "xs:dateTime('1999-12-31T23:59:59.5+02:00')"),
    'xs:date': ('$date', "xs:date('2000-01-01')", "xs:date('2004-02-29-05:00')"),
    'xs:time': ('$time', "xs:time('12:00:00')", "xs:time('23:59:59.5Z')"),
    'xs:double': ('$n', '1.5e0', '-2.5e0'), 'xs:numeric': ('$n', '1.5', '-3'), 'xs:integer': ('$i', '2', '3'),
    'xs:integer*': ('($i, $x)', '(1, 2)', '(3, 1)'),
    'xs:duration': ('$dur', "xs:duration('P1D')", "xs:duration('-P1Y2M')"),
    'xs:dayTimeDuration': ('$dtd', "xs:dayTimeDuration('PT1H')", "xs:dayTimeDuration('-PT90M')"),
    'xs:QName': ('$q', "xs:QName('p:a')", "xs:QName('b')"),
}
STRING_VARS = [('$s', "'ABC ABC'", "'abcabc'"), ('$s2', "'b'", "'B'"), ('$s3', "'x'", "'i'")]
COLLATIONS = ["'http://www.w3.org/2005/xpath-functions/collation/codepoint'",
              "'http://www.w3.org/2005/xpath-functions/collation/html-ascii-case-insensitive'"]
NONDETERMINISTIC = {'fn:current-dateTime', 'fn:current-date', 'fn:current-time', 'fn:random-number-generator', 'fn:generate-id',
                    'fn:trace', 'fn:error'}


def _split_sig(sig: str) -> list[str]:
    depth, cur, parts = 0, '', []
    for c in sig[len('function('):]:
        if c == '(':
            depth += 1
        elif c == ')':
            if depth == 0:
                break
            depth -= 1
        if c == ',' and depth == 0:
            parts.append(cur.strip())
            cur = ''
        else:
            cur += c
    if cur.strip():
        parts.append(cur.strip())
    return parts


def _arg_triple(ptype: str, n_str: int):
    """(context-dependent expression, literal A, literal B) for one declared parameter type."""
    base = ptype
    if base == '...':
        base = 'xs:anyAtomicType'
    if base.startswith('function('):
        if base == 'function(*)':
            nparams, ret = 1, 'item()*'
        else:
            nparams = len(_split_sig(base))
            ret = base.rsplit(' as ', 1)[1] if ' as ' in base else 'item()*'
        ps = ', '.join(f'$p{i}' for i in range(nparams))
        first = '$p0' if nparams else '1'
        if ret.startswith('xs:boolean'):
            bodies = (f'string({first}[1]) = string($x)', f"string({first}[1]) = 'a'", f"string({first}[1]) != '1'")
        elif ret.startswith('xs:anyAtomicType'):
            bodies = (f'(string({first}[1]), $x)', f'string({first}[1])', f"concat(string({first}[1]), 'z')")
        else:
            bodies = (f'({first}, $x)', f'{first}', f"({first}, 'z')")
        return tuple(f'function({ps}) {{ {b} }}' for b in bodies)
    if base.startswith('element('):
        return ('()', '()', '()')
    if base not in VAR_OF and base[-1] in '?' and not base.endswith(')?'):
        base = base[:-1]
    elif base not in VAR_OF and base.endswith(')?'):
        base = base[:-1]
    if base == 'xs:string':
        return STRING_VARS[min(n_str, 2)]
    if base in VAR_OF and VAR_OF[base]:
        return VAR_OF[base]
    return ('$x', '1', "'b'")


def signature_templates() -> tuple[list, list]:
    """(history expressions, for-batch pairs) from the live XPath31Parser.function_signatures of the working tree."""
    from elementpath.xpath31 import XPath31Parser
    hist, batch = [], []
    for (qname, arity), sig in sorted(XPath31Parser.function_signatures.items(), key=lambda kv: (kv[0][0].qname, kv[0][1])):
        name = qname.qname
        if name in NONDETERMINISTIC:
            continue
        ptypes = _split_sig(sig)
        if len(ptypes) != arity:
            ptypes = (ptypes + ['xs:anyAtomicType'] * arity)[:arity]
        triples, n_str = [], 0
        for t in ptypes:
            triples.append(_arg_triple(t, n_str))
            if t.rstrip('?') == 'xs:string':
                n_str += 1
        call = lambda args: f'{name}({", ".join(args)})'       # noqa: E731
        hist.append(call([t[0] for t in triples]))
        for j in range(arity):
            if triples[j][0] != triples[j][1]:
                hist.append(call([t[1] if i == j else t[0] for i, t in enumerate(triples)]))
        if arity >= 2 and ptypes[-1].rstrip('?') == 'xs:string':
            for coll in COLLATIONS:
                hist.append(call([t[0] for t in triples[:-1]] + [coll]))
        if arity:
            vary_sets = [set(range(arity))] + [{j} for j in range(arity)] if arity > 1 else [{0}]
            for vs in vary_sets:
                if all(triples[j][1] == triples[j][2] for j in vs):
                    continue
                loop = call([f'(if ($k = 1) then {t[1]} else {t[2]})' if i in vs else t[1] for i, t in enumerate(triples)])
                flat = {k: call([(t[1] if k == 1 else t[2]) if i in vs else t[1] for i, t in enumerate(triples)]) for k in (1, 2)}
                batch.append((f'for $k in (1, 2, 1) return {loop}', f'({flat[1]}, {flat[2]}, {flat[1]})'))
    return sorted(set(hist)), sorted(set(batch))


# ---------------------------------------------------------------------------------------------
# Focus family: every operand of an operator / argument of a function / clause of a binder is evaluated in the SAME
# focus, whatever its siblings did to the dynamic context (an absolute path moves the context item while it is
# evaluated).  Law (Scopes.tla, let = substitution by value):  OP(E1, E2) = let $l := E1, $r := E2 return OP($l, $r).

def focus_pairs():
    """(min version, expression, equivalent expression with the operands bound first); evaluated inside /r/( ... ) on d1."""
    A_NUM = ['count(//b)', 'number(/r/a[1]/@v)', 'count(/r/a) + 1']
    R_NUM = ['count(a)', 'number(a[2]/@v)', 'count(*) - 1']
    A_STR = ['string(/r/b)', 'string(/r/a[2]/@v)', 'name(/r/*[1])']
    R_STR = ['string(b)', 'string(a[1]/@v)', 'name(*[last()])']
    A_BOOL = ['exists(/r/b)', 'empty(/r/a)']
    R_BOOL = ['exists(b)', 'empty(a)']
    A_SEQ = ['/r/a', '//b', '/r/a/@v']
    R_SEQ = ['a', 'b', '*', 'a/@v']
    out = []

    def both(op_fmt, A, R, seq=False):
        for a in A:
            for r in R:
                for x, y in ((a, r), (r, a)):          # the absolute operand first and second
                    e = op_fmt.format(x, y)
                    out.append(('3.0', e, f'let $l := ({x}), $r := ({y}) return (' + op_fmt.format('$l', '$r') + ')'))
                    if not seq:
                        out.append(('2.0', e, f'for $l in ({x}) return for $r in ({y}) return (' + op_fmt.format('$l', '$r') + ')'))
    for op in ('+', '-', '*', 'div', 'idiv', 'mod', 'eq', 'lt', 'ge', '=', '!=', '<', 'to'):
        both('({0}) %s ({1})' % op, A_NUM, R_NUM)
    for op in ('eq', 'lt', '=', '>'):
        both('({0}) %s ({1})' % op, A_STR, R_STR)
    both('({0}) || ({1})', A_STR, R_STR)
    for fn in ('concat', 'contains', 'starts-with', 'substring-before', 'substring-after', 'compare', 'codepoint-equal', 'ends-with'):
        both(fn + '({0}, {1})', A_STR, R_STR)
    for op in ('and', 'or'):
        both('({0}) %s ({1})' % op, A_BOOL, R_BOOL)
    for op in (',', '|', 'union', 'intersect', 'except'):
        both('({0}) %s ({1})' % op, A_SEQ, R_SEQ, seq=True)
    for op in ('=', '!='):
        both('({0}) %s ({1})' % op, ['/r/a/@v', '//b'], ['a/@v', 'b', '*'], seq=True)
    both('subsequence(({0}), 1, {1})', ['/r/a', '(//b, /r/a)'], R_NUM, seq=True)
    both('insert-before(({0}), 1, ({1}))', A_SEQ, R_SEQ, seq=True)
    both('index-of(({0}), {1})', ['/r/a/@v', '(1, 2, count(//b))'], R_NUM, seq=True)
    both('string-join(({0}) ! string(.), {1})', A_SEQ, R_STR, seq=True)
    both('deep-equal(({0}), ({1}))', A_SEQ, R_SEQ, seq=True)
    both('max((({0}), ({1})))', A_NUM, R_NUM)
    both('if ({0}) then ({1}) else 0', A_BOOL, R_NUM)
    both('if ({0}) then 0 else ({1})', A_BOOL, R_STR)
    for a in A_SEQ:
        for r in R_NUM + R_STR:
            out.append(('3.0', f'for $x in ({a}) return ({r})', f'let $r := ({r}) return for $x in ({a}) return $r'))
            out.append(('3.0', f'let $x := ({a}) return ({r})', f'let $r := ({r}) return let $x := ({a}) return $r'))
            out.append(('3.0', f'for $x in (1, 2), $y in ({a}) return ({r})', f'let $r := ({r}) return for $x in (1, 2), $y in ({a}) return $r'))
        for r in R_SEQ:
            for kw, ret in (('for', 'return name($y)'), ('some', 'satisfies name($y) = "b"'), ('every', 'satisfies name($y) = "a"')):
                out.append(('3.0', f'{kw} $x in ({a}), $y in ({r}) {ret}', f'let $r := ({r}) return {kw} $x in ({a}), $y in $r {ret}'))
            out.append(('3.0', f'let $x := ({a}), $y := ({r}) return count($y)', f'let $r := ({r}) return let $x := ({a}), $y := $r return count($y)'))
        for r in R_BOOL:
            out.append(('3.0', f'some $x in ({a}) satisfies ({r})', f'let $r := ({r}) return some $x in ({a}) satisfies $r'))
            out.append(('3.0', f'every $x in ({a}) satisfies ({r})', f'let $r := ({r}) return every $x in ({a}) satisfies $r'))
    return [(v, f'/r/({e1})', f'/r/({e2})') for v, e1, e2 in out]


def focus_worker(job):
    import elementpath
    fails, n = [], 0
    for minv, e1, e2 in job:
        for version, P in parsers().items():
            if version < minv:
                continue
            res = []
            for e in (e1, e2):
                ctx = make_context('c1')
                res.append(outcome(lambda: proj_result(elementpath.select(ctx['root'], e, parser=P, **call_kw(ctx, False)))))
                n += 1
            if res[0] != res[1]:
                fails.append((dict(part='focus', outcome='operand_focus_depends_on_sibling', construct=e1[4:].split(')', 1)[-1].strip()[:12] if False else
                                   _construct(e1), parser=version),
                              dict(part='focus', expr=e1, law=e2, parser=version), res[1], res[0]))
    return n, fails


def _construct(e: str) -> str:
    """the operator / function / binder of a focus-family expression (a feature for fingerprints)"""
    import re
    inner = e[4:-1]
    m = re.match(r'(for|let|some|every|if)\b', inner) or re.match(r'([a-z-]+)\(', inner)
    if m:
        return m.group(1)
    m = re.search(r'\) (\S+) \(', inner)
    return m.group(1) if m else '?'


SIG_HISTORIES = [('c1', 'c2', 'c1'), ('c2', 'c1', 'c3'), ('c3', 'c4', 'c3'), ('c4', 'c3', 'c1'), ('c1', 'c1', 'c2'),
                 ('c1', 'edit:c1', 'c1'), ('c3', 'edit:c3', 'c3')]


def sig_worker(job):
    """job: list of ('hist', expr) / ('batch', loop, flat).  Oracle = fresh parse on a fresh context (the property's words)."""
    import elementpath
    fails, n, skipped = [], 0, 0
    for item in job:
        for version, P in parsers().items():
            if item[0] == 'batch':
                _, loop, flat = item
                ctx = make_context('c1')
                kw = lambda c: dict(parser=P, variables=c['variables'], timezone=c['timezone'], namespaces=c['namespaces'])   # noqa: E731
                a = outcome(lambda: proj_result(elementpath.select(ctx['root'], loop, **kw(ctx))))
                ctx2 = make_context('c1')
                b = outcome(lambda: proj_result(elementpath.select(ctx2['root'], flat, **kw(ctx2))))
                n += 2
                if a != b and not (a[:1] == ('err',) and a[1] in ('XPST0017', 'XPST0003', 'XPST0081')):
                    if b[:1] == ('err',) and b[1] in ('XPST0017', 'XPST0003', 'XPST0081'):
                        skipped += 1
                        continue
                    fails.append((dict(part='forbatch', outcome='loop_differs_from_expansion', function=loop.split('return ', 1)[1].split('(', 1)[0],
                                       parser=version), dict(part='forbatch', loop=loop, flat=flat, parser=version), b, a))
                continue
            expr = item[1]
            try:
                tok = P(namespaces={'p': 'urn:p'}).parse(expr)
            except Exception:
                skipped += 1
                continue
            fresh, stable = {}, True
            for c in ('c1', 'c2', 'c3', 'c4'):
                two = [fresh_outcome(expr, P, c, 0), fresh_outcome(expr, P, c, 0)]
                n += 2
                fresh[(c, 0, False)] = two[0]
                stable = stable and two[0] == two[1]      # else: not a function of the context (current-dateTime ...): skipped
            if not stable:
                skipped += 1
                continue
            for mode in ('selector', 'token'):
                for hist in SIG_HISTORIES:
                    obj = elementpath.Selector(expr, namespaces={'p': 'urn:p'}, parser=P) if mode == 'selector' else \
                        P(namespaces={'p': 'urn:p'}).parse(expr)
                    ctxs = {c: make_context(c) for c in {ctx_of(h) for h in hist}}
                    snaps = {c: snapshot(ctxs[c]) for c in ctxs}
                    edits = {c: 0 for c in ctxs}
                    for i, c in enumerate(hist):
                        if c.startswith('edit:'):
                            c = ctx_of(c)
                            edits[c] += 1
                            edit_doc(ctxs[c], edits[c])
                            snaps[c] = snapshot(ctxs[c])
                            continue
                        key = (c, edits[c], mode == 'selector')
                        if key not in fresh:
                            fresh[key] = fresh_outcome(expr, P, c, edits[c], mode == 'selector')
                            n += 1
                        want = fresh[key]
                        obs = outcome(lambda: proj_result(eval_in(obj, mode, ctxs[c])))
                        n += 1
                        feat = None
                        if obs != want:
                            feat = dict(part='sighistory', outcome='differs_from_fresh', mode=mode, step=i + 1, function=expr.split('(', 1)[0],
                                        parser=version)
                            exp = want
                        elif any(snapshot(ctxs[c2]) != snaps[c2] for c2 in ctxs):
                            c2 = next(c2 for c2 in ctxs if snapshot(ctxs[c2]) != snaps[c2])
                            feat = dict(part='sigpurity', outcome='caller_input_modified', mode=mode, step=i + 1, function=expr.split('(', 1)[0],
                                        parser=version)
                            exp, obs = snaps[c2], snapshot(ctxs[c2])
                        if feat:
                            fails.append((feat, dict(part='sighistory', expr=expr, parser=version, mode=mode, hist=list(hist)), exp, obs))
                            break
    return n, fails, skipped


def caller_maps_probe():
    """"Evaluating any expression modifies neither ... the caller's ... namespace maps": the maps a caller hands to
    get_node_tree(), XPathContext(), the parser and select() are compared before and after evaluations that read them
    (namespace axis, in-scope-prefixes, name tests), for both tree libraries."""
    import elementpath
    import lxml.etree as LX
    from elementpath import XPathContext, get_node_tree
    fails, n = [], 0
    exprs = ['/*/namespace::*', '//namespace::*', 'count(//*/namespace::*)', 'in-scope-prefixes(/*)', '//*/name()', '//p:a', '//*:a',
             'namespace-uri-for-prefix("", /*)', '/*/namespace::p', 'for $e in //* return count($e/namespace::*)']
    for lib, mk in (('etree', ET.fromstring), ('lxml', LX.fromstring)):
        for text in ('<r xmlns="" xmlns:p="urn:p"><a/><p:a/></r>', '<r xmlns="urn:d" xmlns:p="urn:p"><a xmlns=""/><p:a/></r>'):
            for version, P in parsers().items():
                for expr in exprs:
                    for how in ('tree', 'context', 'select'):
                        maps = {'tree': {'p': 'urn:p', '': '', 'z': 'urn:z'}, 'parser': {'p': 'urn:p', '': ''}}
                        before = {k: dict(v) for k, v in maps.items()}
                        root = mk(text)

                        def run():
                            if how == 'tree':
                                node = get_node_tree(root, namespaces=maps['tree'])
                                return P(namespaces=maps['parser']).parse(expr).get_results(XPathContext(node))
                            if how == 'context':
                                return P(namespaces=maps['parser']).parse(expr).get_results(XPathContext(root, namespaces=maps['tree']))
                            return elementpath.select(root, expr, namespaces=maps['tree'], parser=P)
                        outcome(run)
                        n += 1
                        if maps != before:
                            fails.append((dict(part='purity', outcome='caller_namespace_map_modified', how=how, lib=lib, parser=version),
                                          dict(part='nsmap', expr=expr, parser=version, how=how, lib=lib, xml=text), before, {k: dict(v) for k, v in maps.items()}))
    return n, fails


def proj_result(res):
    """Comparable, context-independent projection of an API result."""
    if not isinstance(res, list):
        res = [res]
    out = []
    for r in res:
        if hasattr(r, 'tag') and not callable(getattr(r, 'tag')):
            out.append(('elem', ET.tostring(r, encoding='unicode')))
        elif hasattr(r, 'getroot'):
            out.append(('doc', ET.tostring(r.getroot(), encoding='unicode')))
        elif isinstance(r, float) and r != r:
            out.append(('nan',))
        else:
            out.append((type(r).__name__, str(r)))
    return out


def deep_str(v) -> str:
    """string form of a caller value including the members of maps / arrays / lists"""
    if hasattr(v, 'items') and callable(v.items) and type(v).__name__ in ('XPathMap', 'XPathArray'):
        try:
            items = list(v.items())
        except Exception as e:  # noqa
            return f'{type(v).__name__}!{type(e).__name__}'
        return type(v).__name__ + '[' + ', '.join(deep_str(x) for x in items) + ']'
    if isinstance(v, (list, tuple)):
        return '(' + ', '.join(deep_str(x) for x in v) + ')'
    return str(v)


def snapshot(ctx):
    root = ctx['root']
    el = root.getroot() if hasattr(root, 'getroot') else root
    return (ET.tostring(el, encoding='unicode'),
            tuple(sorted((k, type(v).__name__, deep_str(v), str(getattr(v, 'tzinfo', None))) for k, v in ctx['variables'].items())),
            tuple(sorted(ctx['namespaces'].items())))


def outer_focus(ctx) -> dict:
    """c2 also passes an outer focus: the root element as context item with position 2 of 5 (position()/last() at top level)"""
    if ctx.get('focus'):
        root = ctx['root']
        return dict(item=root.getroot() if hasattr(root, 'getroot') else root, position=2, size=5)
    return {}


def call_kw(ctx, minimal: bool) -> dict:
    """Keyword arguments of one evaluation.  minimal: only what the caller must pass (the Selector already has the
    namespaces): the API takes different paths depending on which tree-building options are given."""
    if minimal:
        kw = dict(variables=ctx['variables'], **outer_focus(ctx))
        if ctx['timezone'] is not None:
            kw['timezone'] = ctx['timezone']
        return kw
    return dict(variables=ctx['variables'], timezone=ctx['timezone'], namespaces=ctx['namespaces'], **outer_focus(ctx))


def eval_in(sel_or_tok, mode, ctx):
    from elementpath import XPathContext
    kw = call_kw(ctx, mode == 'selector')
    if mode == 'selector':
        return sel_or_tok.select(ctx['root'], **kw)
    if mode == 'selector_iter':
        return list(sel_or_tok.iter_select(ctx['root'], **kw))
    return sel_or_tok.get_results(XPathContext(ctx['root'], **kw))


def edit_doc(ctx: dict, k: int) -> None:
    """The k-th edit the CALLER makes to the document of a context (spec action Edit): a new element, a changed attribute,
    a changed text chunk - so that every template that reads the document sees a difference."""
    root = ctx['root']
    el = root.getroot() if hasattr(root, 'getroot') else root
    first = el[0]
    el.append(ET.Element('a', {'v': str(70 + k)}))
    ET.SubElement(first, 'b').text = f'n{k}'
    first.set('v', f'{k}{k}')
    first.text = f'T{k}'


def ctx_of(h: str) -> str:
    return h[5:] if h.startswith('edit:') else h


def fresh_outcome(expr: str, P, c: str, n_edits: int, minimal: bool = False, entry: str = 'select'):
    """The property's oracle: a freshly parsed expression on a fresh context (same keyword arguments as the reused one)."""
    import elementpath
    ctx = make_context(c)
    for k in range(1, n_edits + 1):
        edit_doc(ctx, k)
    if minimal:
        return outcome(lambda: proj_result(elementpath.Selector(expr, namespaces={'p': 'urn:p'}, parser=P).select(
            ctx['root'], **call_kw(ctx, True))))
    if entry == 'iter_select':
        return outcome(lambda: proj_result(list(elementpath.iter_select(ctx['root'], expr, parser=P, **call_kw(ctx, False)))))
    return outcome(lambda: proj_result(elementpath.select(ctx['root'], expr, parser=P, **call_kw(ctx, False))))


def history_worker(job):
    from elementpath import Selector
    fails, n = [], 0
    for (expr, version, histories) in job:
        P = parsers()[version]
        fresh = {}
        for mode in ('selector', 'selector_iter', 'token'):
            for hist in histories:
                # one parsed expression, caller inputs created once and reused across the history
                try:
                    obj = Selector(expr, namespaces={'p': 'urn:p'}, parser=P) if mode != 'token' else \
                        P(namespaces={'p': 'urn:p'}).parse(expr)
                except Exception as e:  # parse failure of a template is a machinery problem
                    raise tla.MachineryError(f'template does not parse: {expr}: {e}')
                ctxs = {c: make_context(c) for c in {ctx_of(h) for h in hist}}
                snaps = {c: snapshot(ctxs[c]) for c in ctxs}
                edits = {c: 0 for c in ctxs}
                for i, c in enumerate(hist):
                    if c.startswith('edit:'):       # the caller edits its own document between two evaluations
                        c = ctx_of(c)
                        edits[c] += 1
                        edit_doc(ctxs[c], edits[c])
                        snaps[c] = snapshot(ctxs[c])
                        continue
                    key = (c, edits[c], mode == 'selector')
                    if key not in fresh:
                        fresh[key] = fresh_outcome(expr, P, c, edits[c], mode == 'selector')
                        n += 1
                        if mode != 'selector':
                            # "select yields the same items as iter_select": the two module-level entry points, same arguments
                            alt = fresh_outcome(expr, P, c, edits[c], False, entry='iter_select')
                            n += 1
                            if alt != fresh[key]:
                                fails.append((dict(part='entrypoints', outcome='iter_select_differs_from_select', template=expr, parser=version),
                                              dict(part='history', expr=expr, parser=version, mode=mode, hist=list(hist)), fresh[key], alt))
                    obs = outcome(lambda: proj_result(eval_in(obj, mode, ctxs[c])))
                    n += 1
                    feat = None
                    if obs != fresh[key]:
                        feat = dict(part='history', outcome='differs_from_fresh', mode=('token' if mode == 'token' else 'selector'),
                                    step=i + 1, repeated_context=c in hist[:i], after_edit=edits[c] > 0, template=expr, parser=version)
                        exp = fresh[key]
                    else:
                        for c2 in ctxs:
                            if snapshot(ctxs[c2]) != snaps[c2]:
                                feat = dict(part='purity', outcome='caller_input_modified', mode=('token' if mode == 'token' else 'selector'),
                                            step=i + 1, template=expr, parser=version)
                                exp, obs = snaps[c2], snapshot(ctxs[c2])
                                break
                    if feat:
                        fails.append((feat, dict(part='history', expr=expr, parser=version, mode=mode, hist=list(hist)), exp, obs))
                        break
    return n, fails


def replay(rec: dict) -> int:
    core.setup_repo_path()
    case = rec['case']
    if case['part'] == 'scopes':
        import elementpath
        obs = outcome(lambda: project_atoms(elementpath.select(None, case['expr'], item=1, variables={'x': 10, 'y': 20},
                                                               parser=parsers()[case['parser']])))
        print('expr', case['expr'], '\nexpected', rec['expected'], '\nobserved', obs)
        return 0 if obs == rec['expected'] else 1
    if case['part'] == 'nsmap':
        n, fails = caller_maps_probe()
        fails = [f for f in fails if f[1]['expr'] == case['expr'] and f[1]['how'] == case['how'] and f[1]['lib'] == case['lib'] and f[1]['parser'] == case['parser']]
        for f in fails:
            print(f[0], '\nexpected', f[2], '\nobserved', f[3])
        return 1 if fails else 0
    if case['part'] == 'focus':
        n, fails = focus_worker([('2.0', case['expr'], case['law'])])
        fails = [f for f in fails if f[0]['parser'] == case['parser']]
        for f in fails:
            print(f[0], '\nexpected', f[2], '\nobserved', f[3])
        return 1 if fails else 0
    if case['part'] in ('sighistory', 'forbatch'):
        item = ('hist', case['expr']) if case['part'] == 'sighistory' else ('batch', case['loop'], case['flat'])
        n, fails, _ = sig_worker([item])
        fails = [f for f in fails if f[0]['parser'] == case['parser']]
        for f in fails:
            print(f[0], '\nexpected', f[2], '\nobserved', f[3])
        return 1 if fails else 0
    n, fails = history_worker([(case['expr'], case['parser'], [tuple(case['hist'])])])
    for f in fails:
        print(f[0], '\nexpected', f[2], '\nobserved', f[3])
    return 1 if fails else 0


def run(chk: core.Check) -> None:
    core.setup_repo_path()
    chk.assumptions += [
        'spec/Scopes.tla is the oracle for binder programs; for histories the oracle is, as the property states, a freshly parsed expression on a fresh context',
        'purity is observed on serialised documents, variable values (type, string value, tzinfo) and namespace maps',
    ]
    depth = 2 if chk.tier == "quick" else 3
    # (1) Scopes
    wd = os.path.join(chk.scratch, 'scopes')
    dot = os.path.join(wd, 'g.dot')
    cfg = tla.cfg_text(dict(MaxDepth=depth), invariants=['Laws'], constraints=['Bounded', 'WellTyped'])
    r = tla.require_ok(tla.run_tlc('Scopes', cfg, wd, dump_dot=dot, timeout=3000), 'Scopes', min_distinct=500)
    chk.model(f'Scopes/depth{depth}', r)
    g = tla.load_dot(dot)
    os.remove(dot)
    via = {}
    for s, d, a, args in g.edges:
        via.setdefault(d, a)
    progs = [(st['e'], st['val'], via.get(sid, 'seed')) for sid, st in g.states.items()]
    chk.add('transitions', len(g.edges))
    chk.add('distinct_nontrivial', sum(1 for e, v, w in progs if w != 'seed'))
    for p in progs[:: max(1, len(progs) // 4)][:4]:
        chk.sample(dict(program=render(p[0]), value=list(p[1])))
    res = core.pool_map(scopes_worker, core.chunked(progs, 64))
    for n, fails in res:
        chk.add('evaluations', n)
        for feat, case, exp, obs in fails:
            chk.fail(feat, case, exp, obs, what=case['expr'])
    chk.add('traces_validated_against_impl', len(progs))
    print(f'  scopes: programs={len(progs)} tlc={r.wall_s:.1f}s', flush=True)

    # (2) histories
    wd = os.path.join(chk.scratch, 'hist')
    dot = os.path.join(wd, 'g.dot')
    maxlen = 3 if chk.tier == 'quick' else 4
    cfg = tla.cfg_text(dict(Contexts={'c1', 'c2', 'c3', 'c4'}, MaxLen=maxlen, MaxEdits=1), invariants=['OutputIsFresh', 'Pure'],
                       properties=['InputsNeverChange'])
    r2 = tla.require_ok(tla.run_tlc('SelectorHistory', cfg, wd, dump_dot=dot, workers=2), 'SelectorHistory', min_distinct=10)
    chk.model(f'SelectorHistory/len{maxlen}', r2)
    g2 = tla.load_dot(dot)
    all_hists = sorted({tuple(c if kind == 'eval' else 'edit:' + c for kind, c in st['hist'])
                        for st in g2.states.values() if len(st['hist']) == maxlen})
    if any(h not in all_hists for h in SIG_HISTORIES if len(h) == maxlen):
        raise tla.MachineryError('SIG_HISTORIES are not behaviours of SelectorHistory')
    # quick: every edit-free history over c1..c3, the ones that alternate between the two Element roots c3 / c4, and the
    # histories in which the caller edits the document between two evaluations of the same context
    def in_quick(h):
        cs = {ctx_of(x) for x in h}
        if any(x.startswith('edit:') for x in h):
            return len(cs) == 1 or (h[0] == h[-1] and not h[0].startswith('edit:') and len(cs) == 2 and cs <= {'c1', 'c3'})
        return 'c4' not in cs or cs <= {'c3', 'c4'}
    hists = [h for h in all_hists if chk.tier != 'quick' or in_quick(h)]
    chk.add('transitions', len(g2.edges))
    rnd = random.Random(chk.seed)
    binder_progs = [p for p in progs if p[2] != 'seed']
    pool = [(v, t) for v, t in TEMPLATES] + generated_templates()
    from elementpath.exceptions import ElementPathError
    want = 24 if chk.tier == 'quick' else 120
    for e, val, w in rnd.sample(binder_progs, len(binder_progs)):
        if want == 0:
            break
        try:    # programs the parser rejects (known finding XPST0008) cannot be used as history templates
            parsers()['3.1']().parse(render(e))
        except ElementPathError:
            continue
        pool.append(('3.0' if kinds(e) & {'let', 'call', 'clos', 'forclos'} else '2.0', render(e)))
        want -= 1
    jobs = []
    for minv, expr in pool:
        for v in ('2.0', '3.0', '3.1'):
            if v >= minv:
                jobs.append([(expr, v, hists)])
    res = core.pool_map(history_worker, jobs)
    nh = 0
    for n, fails in res:
        chk.add('evaluations', n)
        nh += 1
        for feat, case, exp, obs in fails:
            chk.fail(feat, case, exp, obs, what=f'{case["expr"]} history {case["hist"]} ({case["mode"]})')
    chk.add('traces_validated_against_impl', len(jobs) * len(hists) * 3)
    # (3) signature family
    sig_hist, sig_batch = signature_templates()
    items = [('hist', e) for e in sig_hist] + [('batch', a, b) for a, b in sig_batch]
    rnd.shuffle(items)
    res = core.pool_map(sig_worker, core.chunked(items, 64))
    n_sig = skipped = 0
    for n, fails, sk in res:
        chk.add('evaluations', n)
        n_sig += n
        skipped += sk
        for feat, case, exp, obs in fails:
            chk.fail(feat, case, exp, obs, what=str(case.get('expr') or case.get('loop')))
    chk.add('traces_validated_against_impl', len(items) * 3)
    chk.coverage['signature_family'] = dict(history_expressions=len(sig_hist), for_batch_pairs=len(sig_batch), histories=len(SIG_HISTORIES),
                                            evaluations=n_sig, skipped_unparsable_or_nondeterministic=skipped)
    print(f'  signature family: calls={len(sig_hist)} batches={len(sig_batch)} evaluations={n_sig} skipped={skipped}', flush=True)
    # (4) focus family
    fp = focus_pairs()
    nf = 0
    for n, fails in core.pool_map(focus_worker, core.chunked(fp, 32)):
        chk.add('evaluations', n)
        nf += n
        for feat, case, exp, obs in fails:
            chk.fail(feat, case, exp, obs, what=f'{case["expr"]}  vs  {case["law"]}')
    chk.add('traces_validated_against_impl', len(fp))
    chk.coverage['focus_family'] = dict(pairs=len(fp), evaluations=nf)
    print(f'  focus family: pairs={len(fp)} evaluations={nf}', flush=True)
    # (5) caller-owned namespace maps: a node tree built by the caller with its own map, and the map given to the parser
    n_ns, ns_fails = caller_maps_probe()
    chk.add('evaluations', n_ns)
    for feat, case, exp, obs in ns_fails:
        chk.fail(feat, case, exp, obs, what=case['expr'])
    chk.coverage['caller_map_probes'] = n_ns
    chk.sample(dict(history=list(hists[len(hists) // 2]), expression=pool[16][1], modes=['selector', 'selector_iter', 'token']))
    chk.coverage['history_pool'] = dict(expressions=len(pool), histories=len(hists), contexts=3)
    chk.coverage['exhaustive'] = True
    chk.coverage['rule'] = ('programs = every state of the Scopes graph (wrapped programs are non-trivial); histories = every '
                            f'sequence of {maxlen} evaluations over 3 contexts for every pool expression x parser x '
                            '{Selector.select, Selector.iter_select, token}; purity snapshot after every evaluation')
    print(f'  histories: expressions={len(pool)} histories={len(hists)}', flush=True)
