"""C18 -- sequence-type judgements are sound: instance of, treat as, function signatures.

Spec: spec/SeqTypes.tla (XSD atomic hierarchy as a parent table, kind tests, function / map /
array tests, occurrence indicators; Matches = XPath 3.1 2.5.5, Subtype = 2.5.6; value-state
machine acc --InstanceOf(T)/TreatAs(T)--> acc').  TLC decides on the spec: Subtype reflexive and
transitive, soundness Matches(v,S) /\\ Subtype(S,T) => Matches(v,T), occurrence by cardinality,
treat as = identity or XPDY0050.

Binding A  every edge of the dumped graph is replayed: `$v instance of T`, `$v treat as T`
           (value bound as variable, written as a literal expression, and nested behind a
           `treat as`), the type text in several spellings (minimal, spaces, line breaks,
           comments), with the 2.0/3.0/3.1 parsers where type and value exist, and through
           elementpath.sequence_types.match_sequence_type.
Binding C  the XPath-level relations of the implementation (`instance of` on value x type,
           is_sequence_type_restriction on type x type) and parser.function_signatures are
           exported as literal constants into a generated module; TLC checks the same laws on
           the EXPORTED relations and their equality with the spec's; every counterexample is
           confirmed through the real API before it is reported.
Signature conformance  TLC chooses arguments ArgsFor(parameter types) for every exported
           signature inside the universe; the function is called directly and dynamically and
           TLC evaluates Matches(projected result, declared return type) in the spec.

No second oracle exists for this property: mismatches are adjudicated by the W3C text (the
section is recorded with each known finding).
"""
from __future__ import annotations

import os
import re
import signal
from decimal import Decimal

from .. import core, tla

TIERS = {
    'quick': dict(Universe='quick', MaxDepth=3),
    'thorough': dict(Universe='thorough', MaxDepth=3),
}
SPELLINGS = {'quick': ['min', 'spaced', 'lines'], 'thorough': ['min', 'spaced', 'lines']}

DOC_XML = '<?xml version="1.0"?><!--c--><?pt x?><a xmlns:p="urn:p" x="1" xml:lang="en" xml:id="a1">t<b><b y="2"/></b></a>'
DOC_URI = 'http://example.com/docs/doc.xml'
N_VARIANTS = {'quick': 4, 'thorough': 6}      # concrete renderings per abstract atomic argument (signature conformance)
PREFIXES = {
    'http://www.w3.org/2005/xpath-functions': 'fn',
    'http://www.w3.org/2001/XMLSchema': 'xs',
    'http://www.w3.org/2005/xpath-functions/math': 'math',
    'http://www.w3.org/2005/xpath-functions/map': 'map',
    'http://www.w3.org/2005/xpath-functions/array': 'array',
    'http://www.w3.org/2010/xslt-xquery-serialization': 'output',
}


# ---------------------------------------------------------------------------------------
# TLC output: PrintT values (TLC pretty-prints long values over several lines as `<< "tag",`)

def printed(output: str, tag: str):
    out = []
    for m in re.finditer(r'<<\s*"' + re.escape(tag) + r'",', output):
        j = m.start()
        depth = 0
        k = j
        n = len(output)
        in_str = False
        while k < n:
            c = output[k]
            if in_str:
                if c == '\\':
                    k += 1
                elif c == '"':
                    in_str = False
            elif c == '"':
                in_str = True
            elif output.startswith('<<', k):
                depth += 1
                k += 1
            elif output.startswith('>>', k):
                depth -= 1
                k += 1
                if depth == 0:
                    break
            k += 1
        out.append(tla.parse_value(output[j:k + 1])[1])
    return out


# ---------------------------------------------------------------------------------------
# binding table: abstract sequence type -> XPath text (dumb 1:1 rendering)

SP = ' '      # mandatory white space
PI_FORMS = {'pistr': "'%s'", 'piws': '" %s  "', 'pitab': '"\t%s\n"', 'picr': '"\r\n %s"'}


def item_tokens(it, star: bool = False) -> list[str]:
    k = it['k']
    if k == 'atomic':
        return ['xs:' + it['n']]
    if k in ('item', 'node', 'text', 'comment'):
        return [k, '(', ')']
    if k == 'namespace':
        return ['namespace-node', '(', ')']
    if k == 'empty':
        return ['empty-sequence', '(', ')']
    if k == 'pi':
        # argument forms of processing-instruction(N): NCName, or a string literal whose
        # fn:normalize-space() is the target (XPath 3.1 2.5.5.3)
        arg = [] if it['name'] == '*' else [PI_FORMS.get(star, '%s') % it['name']]
        return ['processing-instruction', '('] + arg + [')']
    if k == 'document':
        return ['document-node', '('] + ([] if it['elem']['k'] == 'none' else item_tokens(it['elem'], star)) + [')']
    if k in ('element', 'attribute'):
        if it['name'] == '*' and it['ty'] == '*':
            return [k, '(', '*', ')'] if star is True else [k, '(', ')']
        toks = [k, '(', it['name']]
        if it['ty'] != '*':
            toks += [',', 'xs:' + it['ty']]
            if it.get('nil'):
                toks.append('?')
        return toks + [')']
    if k == 'function':
        if it['any']:
            return ['function', '(', '*', ')']
        toks = ['function', '(']
        for n, p in enumerate(it['ps']):
            if n:
                toks.append(',')
            toks += type_tokens(p, star)
        return toks + [')', SP, 'as', SP] + type_tokens(it['r'], star)
    if k == 'map':
        if it['any']:
            return ['map', '(', '*', ')']
        return ['map', '(', 'xs:' + it['key'], ','] + type_tokens(it['val'], star) + [')']
    if k == 'array':
        if it['any']:
            return ['array', '(', '*', ')']
        return ['array', '('] + type_tokens(it['mem'], star) + [')']
    raise ValueError(k)


def type_tokens(st, star: bool = False) -> list[str]:
    it, occ = st['it'], st['occ']
    toks = item_tokens(it, star)
    if occ in ('0', '1'):
        return toks
    if it['k'] == 'function' and not it['any']:
        # an occurrence indicator after `as R` belongs to R: ParenthesizedItemType (XPath 3.0 [111])
        toks = ['('] + toks + [')']
    return toks + [occ]


def spell(toks: list[str], how: str) -> str:
    if how == 'min':
        return ''.join(toks).replace(',', ', ')
    sep = {'spaced': ' ', 'lines': '\n  ', 'comment': ' (: c :) '}[how]
    out = []
    for t in toks:
        if t == SP:
            continue
        out.append(t)
    return sep.join(out)


def type_text(st, how: str = 'min') -> str:
    if how == 'star':        # element(*) / attribute(*) for element() / attribute()
        return spell(type_tokens(st, True), 'min')
    if how in PI_FORMS:      # string-literal forms of the name argument of processing-instruction()
        return spell(type_tokens(st, how), 'min')
    return spell(type_tokens(st), how)


def type_minver(st) -> str:
    """first XPath version whose grammar has every construct of the type"""
    it = st['it']
    k = it['k']
    v = '2.0'
    if k == 'atomic' and it['n'] == 'numeric':
        v = '3.1'
    elif k == 'namespace':
        v = '3.0'
    elif k == 'function':
        v = '3.0'
        if not it['any']:
            v = max([v] + [type_minver(p) for p in it['ps']] + [type_minver(it['r'])])
    elif k == 'map':
        v = '3.1'
    elif k == 'array':
        v = '3.1'
    return v


def type_family(st) -> str:
    k = st['it']['k']
    if k in ('function', 'map', 'array'):
        return k + ('*' if st['it']['any'] else '')
    if k in ('element', 'attribute'):
        it = st['it']
        return k + ('' if it['name'] == '*' else ':name') + ('' if it['ty'] == '*' else ':type')
    if k == 'document':
        return 'document' + ('' if st['it']['elem']['k'] == 'none' else ':elem')
    if k == 'pi':
        return 'pi' + ('' if st['it']['name'] == '*' else ':name')
    if k == 'atomic':
        return 'atomic:numeric' if st['it']['n'] == 'numeric' else 'atomic'
    return k


def walk_types(st):
    """the sequence type and every sequence type nested in it"""
    yield st
    it = st['it']
    if it['k'] == 'function' and not it['any']:
        for p in it['ps']:
            yield from walk_types(p)
        yield from walk_types(it['r'])
    elif it['k'] == 'map' and not it['any']:
        yield from walk_types(it['val'])
    elif it['k'] == 'array' and not it['any']:
        yield from walk_types(it['mem'])


def type_traits(st) -> dict:
    """abstract traits of the type text the failure classes are keyed on"""
    paren = inner_multi = numeric = False
    for t in walk_types(st):
        it = t['it']
        if it['k'] == 'function' and not it['any'] and t['occ'] in ('?', '*', '+'):
            paren = True           # needs a ParenthesizedItemType
        if it['k'] == 'atomic' and it['n'] == 'numeric':
            numeric = True
        if it['k'] == 'map' and not it['any'] and (it['key'] == 'numeric'):
            numeric = True
        if it['k'] == 'map' and not it['any'] and it['val']['occ'] in ('*', '+'):
            inner_multi = True     # occurrence indicator * or + directly inside map( ) / array( )
        if it['k'] == 'array' and not it['any'] and it['mem']['occ'] in ('*', '+'):
            inner_multi = True
    it = st['it']
    targ = it['ty'] if it['k'] in ('element', 'attribute') else \
        (it['elem']['ty'] if it['k'] == 'document' and it['elem']['k'] != 'none' else '*')
    return dict(paren=paren, inner_multi=inner_multi, numeric=numeric, targ=targ)


def type_class(st) -> str:
    k = st['it']['k']
    return {'atomic': 'atomic', 'empty': 'empty', 'item': 'item'}.get(
        k, 'functional' if k in ('function', 'map', 'array') else 'node')


# ---------------------------------------------------------------------------------------
# binding table: abstract value -> XPath literal expression

# Binding table abstract atom -> concrete lexical forms.  The FIRST form is the representative used by
# the judgement universe; the others are the variants of the signature-conformance calls (negative,
# zero, fractional seconds, BCE years, time zones, bounds, empty / multi-word strings ...).
LEX = {
    'untypedAtomic': ['a', '12', '', '2001-02-03'], 'string': None,
    'normalizedString': ['a b', 'c', '', ' x  y '], 'token': ['a b', 'c', '', 'en-US'],
    'language': ['en', 'de-CH', 'x-klingon'], 'NMTOKEN': ['a', '1-2', 'a:b'], 'Name': ['a:b', '_x', 'n-1'],
    'NCName': ['a', 'b', '_x.y'], 'ID': ['a', 'a1', 'zz'], 'IDREF': ['a', 'a1', 'zz'], 'ENTITY': ['a', 'b'],
    'decimal': None, 'integer': None,
    'nonPositiveInteger': ['-3', '0', '-99999999999999999999'], 'negativeInteger': ['-3', '-1', '-99999999999999999999'],
    'long': ['7', '-9223372036854775808', '0', '9223372036854775807'], 'int': ['7', '-2147483648', '0', '2147483647'],
    'short': ['-7', '8', '0', '32767'], 'byte': ['7', '-128', '0', '127'],
    'nonNegativeInteger': ['7', '0', '99999999999999999999'], 'positiveInteger': ['7', '1', '99999999999999999999'],
    'unsignedLong': ['7', '0', '18446744073709551615'], 'unsignedInt': ['3000000000', '0', '7', '4294967295'],
    'unsignedShort': ['40000', '0', '7', '65535'], 'unsignedByte': ['200', '0', '7', '255'],
    'float': ['1.5', '-1e-46', '0', 'INF', 'NaN', '-0', '-2.5', '1e-46', '1e-45', '3.4028235e38', '3.5e38', '-3.5e38'], 'double': None, 'boolean': None,
    'duration': ['P1Y2DT3H', '-P1Y2M3DT4H5M6.7S', 'PT0S', '-PT0.5S', '-P3DT10H30M', 'P0D', '-P0D',
                 'PT100000000000000000000S'],
    'yearMonthDuration': ['P1Y2M', '-P1Y2M', 'P0M', 'P13M'],
    'dayTimeDuration': ['P1DT2H', '-P3DT10H30M', 'PT0S', '-PT0.5S', '-PT3H', 'PT0.5S'],
    'dateTime': ['2001-02-03T04:05:06', '-0044-03-15T12:00:00Z', '1999-12-31T23:59:59.999+14:00',
                 '2000-02-29T00:00:00-05:00', '-0001-12-31T24:00:00', '10000-01-01T00:00:00+14:00',
                 '0000-01-01T00:00:00'],
    'date': ['2001-02-03', '-0044-03-15', '1999-12-31+14:00', '2000-02-29Z'],
    'time': ['04:05:06', '23:59:59.999Z', '00:00:00-05:00', '12:30:00+05:30'],
    'gYearMonth': ['2001-02', '-0044-03', '1999-12Z'], 'gYear': ['2001', '-0044', '1999+14:00', '0000', '10000'],
    'gMonthDay': ['--02-03', '--02-29', '--12-31Z'], 'gDay': ['---03', '---31Z'], 'gMonth': ['--02', '--12Z'],
    'hexBinary': ['0fb7', '', 'FF'], 'base64Binary': ['YWJj', '', 'YQ=='],
    'anyURI': ['http://example.com/a', '', 'b/c#d', 'urn:p'], 'QName': ['xs:a', 'a', 'fn:b'],
}
NATIVE = {'string': ["'a'", "''", "'b c'", "'en'", "'a1'", "'2001-02-03'"],
          'integer': ['1', '-3', '0', '99999999999999999999', '2', '65'],
          'decimal': ['1.5', '-2.5', '0.0', '100.25', '123456789012345678901234567890.123456789', '-0.0'],
          'double': ['1.5e0', '-2.5e0', '0e0', "xs:double('INF')", "xs:double('NaN')", "xs:double('-0')",
                     "xs:double('5e-324')", "xs:double('1e-400')", "xs:double('1.8e308')", "xs:double('-1e-400')"],
          'boolean': ['true()', 'false()']}
NODE_PATH = {('document', 'a'): '$d', ('element', 'a'): '$d/a', ('element', 'b'): '$d/a/b',
             ('attribute', 'x'): '$d/a/@x', ('text', ''): '$d/a/text()', ('comment', ''): '$d/comment()',
             ('pi', 'pt'): '$d/processing-instruction()', ('namespace', 'p'): '$d/a/namespace::p'}
FN_TEXT = {
    'function(xs:integer) as xs:integer': 'function($x as xs:integer) as xs:integer {$x}',
    'function(item()*) as item()*': 'function($x) {$x}',
    'function() as xs:string': "function() as xs:string {'a'}",
    'function(xs:string, item()*) as xs:boolean': 'function($x as xs:string, $y as item()*) as xs:boolean {true()}',
    'function(xs:numeric?) as xs:numeric?': 'abs#1',
}


NODE_VARIANTS = {('element', 'b'): ['$d/a/b', '$d/a/b/b']}    # child of the root element, deep descendant


def item_text(x, nth: int = 0) -> str:
    k = x['k']
    if k == 'atom':
        t = x['t']
        if t in NATIVE:
            return NATIVE[t][nth % len(NATIVE[t])]
        lex = LEX[t]
        return f"xs:{t}('{lex[nth % len(lex)]}')"
    if k == 'node':
        key = (x['nk'], x['name'])
        if key in NODE_VARIANTS and nth:
            return NODE_VARIANTS[key][nth % len(NODE_VARIANTS[key])]
        return NODE_PATH[key]
    if k == 'fn':
        sig = 'function(' + ', '.join(type_text(p) for p in x['ps']) + ') as ' + type_text(x['r'])
        return FN_TEXT[sig]
    if k == 'map':
        return 'map{' + ', '.join(f'{item_text(e[0], n)}: {value_text(e[1], n)}' for n, e in enumerate(x['es'])) + '}'
    if k == 'array':
        return '[' + ', '.join(value_text(m, n) for n, m in enumerate(x['ms'])) + ']'
    raise ValueError(k)


def value_text(v, nth: int = 0) -> str:
    if len(v) == 1:
        return item_text(v[0], nth)
    return '(' + ', '.join(item_text(x, nth + n) for n, x in enumerate(v)) + ')'


def item_minver(x) -> str:
    k = x['k']
    if k == 'fn':
        return '3.0'
    if k in ('map', 'array'):
        return '3.1'
    return '2.0'


def value_minver(v) -> str:
    return max(['2.0'] + [item_minver(x) for x in v])


def value_kind(v) -> str:
    if len(v) == 0:
        return 'empty'
    ks = []
    for x in v:
        ks.append(x['k'] if x['k'] != 'node' else 'node:' + x['nk'])
    if len(v) == 1:
        return ks[0]
    return 'seq(' + ','.join(k.split(':')[0] for k in ks) + ')'


# ---------------------------------------------------------------------------------------
# the real thing

_env = None


class Env:
    def __init__(self):
        import elementpath
        from elementpath import XPath2Parser, get_node_tree
        from elementpath.xpath30 import XPath30Parser
        from elementpath.xpath31 import XPath31Parser
        import xml.etree.ElementTree as ET
        self.ep = elementpath
        self.parsers = {'2.0': XPath2Parser, '3.0': XPath30Parser, '3.1': XPath31Parser}
        self.doc = get_node_tree(ET.ElementTree(ET.fromstring(DOC_XML)), namespaces={'p': 'urn:p'}, uri=DOC_URI)
        # comment and PI before the root element are kept by a real parser only
        from io import StringIO
        try:
            import lxml.etree as LET
            self.doc = get_node_tree(LET.parse(StringIO(DOC_XML)), namespaces={'p': 'urn:p'}, uri=DOC_URI)
        except ImportError:  # pragma: no cover
            pass
        self.values: dict[str, object] = {}
        self.baselines: dict = {}

    def baseline(self, src: str, parser: str, ctx, v):
        key = (src, parser, ctx, id(v))
        if key not in self.baselines:
            variables = {'v': v, 'd': self.doc}
            if ctx == 'doc':
                self.baselines[key] = guarded(lambda: self.ep.select(self.doc, src, parser=self.parsers[parser],
                                                                     variables=variables))
            else:
                self.baselines[key] = guarded(lambda: self.ep.select(None, src, parser=self.parsers[parser], item=1,
                                                                     variables=variables))
        return self.baselines[key]

    def value(self, text: str):
        """the Python object of a universe value = result of evaluating its literal text (3.1)"""
        if text not in self.values:
            from elementpath import XPathContext
            tok = self.parsers['3.1']().parse(text)
            r = tok.evaluate(XPathContext(root=self.doc, variables={'d': self.doc}))
            if isinstance(r, list):
                r = r[0] if len(r) == 1 else list(r)
            self.values[text] = r
        return self.values[text]


def env() -> Env:
    global _env
    if _env is None:
        core.setup_repo_path()
        _env = Env()
    return _env


class Hang(Exception):
    pass


def _alarm(signum, frame):
    raise Hang()


def guarded(fn):
    """outcome classes: value | ('err', code) | ('escaped', Class) | ('hang',).
    A hang is reported only if the evaluation also exceeds a second, much longer limit: on a machine
    shared by many checks a 20 s alarm can fire on a millisecond evaluation."""
    out = _guarded(fn, 20)
    if out == ('hang',):
        out = _guarded(fn, 45)
    return out


def _guarded(fn, seconds: int):
    from elementpath.exceptions import ElementPathError
    signal.signal(signal.SIGALRM, _alarm)
    try:
        signal.alarm(seconds)
        try:
            return ('value', fn())
        finally:
            signal.alarm(0)         # before any handler runs: the alarm must not fire inside one
    except ElementPathError as e:
        return ('err', (e.code or '').split(':')[-1])
    except Hang:
        return ('hang',)
    except RecursionError:
        return ('escaped', 'RecursionError')
    except Exception as e:  # noqa
        return ('escaped', type(e).__name__)


def same_item(a, b, by_source: bool = False) -> bool:
    if a is b:
        return True
    if type(a) is not type(b):
        return False
    if by_source and hasattr(a, 'source') and hasattr(a, 'parser'):
        # a function / map / array written as a literal is a new item at every evaluation
        return re.sub(r' at 0x[0-9a-f]+', '', a.source) == re.sub(r' at 0x[0-9a-f]+', '', b.source)
    if isinstance(a, float) and a != a:
        return b != b                       # NaN is the same value as NaN here
    if isinstance(a, (bool, int, float, str, Decimal)):
        return a == b
    try:
        return bool(a == b) and not hasattr(a, 'node_kind') and not callable(a)
    except Exception:  # noqa
        return False


def same_value(a, b, by_source: bool = False) -> bool:
    la = a if isinstance(a, list) else [a]
    lb = b if isinstance(b, list) else [b]
    return len(la) == len(lb) and all(same_item(x, y, by_source) for x, y in zip(la, lb))


def evaluate(case: dict):
    """Run one judgement on the real code.  case: op, api, src (expression text of the operand),
    vtext (literal text defining $v), ttext, parser, ctx -> observed outcome
    'true' | 'false' | 'same' | 'changed' | 'err:CODE' | 'escaped:Class' | 'hang' | 'other:..'"""
    e = env()
    v = e.value(case['vtext'])
    op = case['op']
    if case['api'] == 'match_sequence_type':
        from elementpath.sequence_types import match_sequence_type
        parser = e.parsers[case['parser']]()
        out = guarded(lambda: match_sequence_type(v, case['ttext'], parser))
    else:
        expr = f"{case['src']} {'instance of' if op == 'instance' else 'treat as'} {case['ttext']}"
        variables = {'v': v, 'd': e.doc}
        if case.get('ctx') == 'doc':
            out = guarded(lambda: e.ep.select(e.doc, expr, parser=e.parsers[case['parser']], variables=variables))
        else:
            out = guarded(lambda: e.ep.select(None, expr, parser=e.parsers[case['parser']], item=1,
                                              variables=variables))
    if out[0] == 'value':
        r = out[1]
        if op == 'instance':
            if isinstance(r, list) and len(r) == 1:
                r = r[0]
            return 'true' if r is True else 'false' if r is False else f'other:{type(r).__name__}'
        if case['api'] != 'select':
            return 'other:api'
        # "returns V unchanged": the operand alone, through the same result formatter of select()
        base = e.baseline(case['src'], case['parser'], case.get('ctx'), v)
        if base[0] != 'value':
            return 'unobservable'
        return 'same' if same_value(r, base[1], case.get('srckind') == 'lit') else 'changed'
    if out[0] == 'err':
        return 'err:' + out[1]
    if out[0] == 'escaped':
        return 'escaped:' + out[1]
    return 'hang'


# ---------------------------------------------------------------------------------------
# Binding A: replay of the dumped graph

def state_value(acc, values):
    """abstract value held by a state of the machine"""
    if acc['kind'] == 'bool':
        return ({'k': 'atom', 't': 'boolean'},), ('true()' if acc['b'] else 'false()')
    v = values[acc['i'] - 1]
    return v, value_text(v)


def edge_cases(tier: str, action: str, st, v, vtext: str) -> list[dict]:
    """every way one judgement is put to the real code"""
    op = 'instance' if action == 'InstanceOf' else 'treat'
    lo = max(type_minver(st), value_minver(v))
    t_min = type_text(st, 'min')
    cases = []

    def add(**kw):
        c = dict(op=op, api='select', src='$v', srckind='var', vtext=vtext, ttext=t_min, spelling='min',
                 parser='3.1', ctx='item')
        c.update(kw)
        cases.append(c)

    for how in SPELLINGS[tier]:
        add(ttext=type_text(st, how), spelling=how)
    t_star = type_text(st, 'star')
    if t_star != t_min:
        add(ttext=t_star, spelling='star')
    add(src=f'({vtext})' if len(v) == 1 else vtext, srckind='lit')
    if st['it']['k'] == 'pi' and st['it']['name'] != '*':
        for how in PI_FORMS:
            add(ttext=type_text(st, how), spelling=how)
    if len(v) == 1 and v[0]['k'] == 'atom' and st['it']['k'] == 'atomic' and vtext not in ('true()', 'false()'):
        # the other concrete values of the same abstract atom: boundary values of the type's value space
        t = v[0]['t']
        forms = NATIVE[t] if t in NATIVE else LEX[t]
        for k in range(1, len(forms)):
            lit = item_text(v[0], k)
            add(src=f'({lit})', vtext=lit, srckind='variant')
    if op == 'treat' or tier == 'thorough':
        add(src='($v treat as item()*)', srckind='nested')     # history: judgement after a treat as
        add(ctx='doc')                                           # context item = the document node
    for ver in (('2.0', '3.0') if tier == 'thorough' else ('2.0',)):
        if ver >= lo:
            add(parser=ver)
    if op == 'instance':
        for how in SPELLINGS[tier]:
            add(api='match_sequence_type', ttext=type_text(st, how), spelling=how)
    return cases


def features_of(case: dict, st, v, expected: str, observed: str) -> dict:
    traits = type_traits(st)
    # xs:numeric in the signature of a function item of the value counts as well
    traits['numeric'] = traits['numeric'] or any(
        type_traits(t)['numeric'] for x in v if x['k'] == 'fn' for t in list(x['ps']) + [x['r']])
    verdict = {'true': 'match', 'same': 'match', 'false': 'nomatch', 'err:XPDY0050': 'nomatch'}
    return dict(op=case['op'], api=case['api'], spelling=case['spelling'], src=case['srckind'],
                parser=case['parser'], ctx=case['ctx'], tclass=type_class(st), tfamily=type_family(st),
                occ=st['occ'], vkind=value_kind(v), expected=expected, observed=observed,
                exp_verdict=verdict[expected], obs_verdict=verdict.get(observed, observed), **traits)


_constructible: dict = {}


def constructible(text: str) -> bool:
    if text not in _constructible:
        e = env()
        _constructible[text] = guarded(lambda: e.value(text))[0] == 'value'
    return _constructible[text]


def worker(job):
    tier, edges = job
    fails = []
    n = 0
    for (action, st, v, vtext, expected, vi, ti) in edges:
        for case in edge_cases(tier, action, st, v, vtext):
            if case['srckind'] == 'variant' and not constructible(case['vtext']):
                continue            # lexical form rejected by the constructor (e.g. year 0000 with XSD 1.0)
            obs = evaluate(case)
            n += 1
            if obs != expected:
                case = dict(case, kind='judgement', vi=vi, ti=ti)
                fails.append((features_of(case, st, v, expected, obs), case, expected, obs))
    return n, fails


# ---------------------------------------------------------------------------------------
# Binding C: implementation tables -> TLC constants

def impl_type_text(st):
    """the type in the string language of elementpath.sequence_types (None: not expressible,
    a ParenthesizedItemType would be needed)"""
    if type_traits(st)['paren']:
        return None
    return type_text(st, 'min')


def restriction(sup: str, sub: str):
    core.setup_repo_path()
    from elementpath.sequence_types import is_sequence_type_restriction
    r = guarded(lambda: is_sequence_type_restriction(sup, sub))
    if r[0] == 'value':
        return 'true' if r[1] is True else 'false' if r[1] is False else f'other:{r[1]!r}'
    return ':'.join(r)


def export_restriction(job):
    """rows of the XPath-level subtype relation: is_sequence_type_restriction(sup, sub)"""
    texts, rows = job
    out = []
    for i in rows:
        sub = texts[i]
        row, err = [], []
        if sub is not None:
            for j, sup in enumerate(texts):
                if sup is None:
                    continue
                r = restriction(sup, sub)
                if r == 'true':
                    row.append(j + 1)
                elif r != 'false':
                    err.append(j + 1)
        out.append((i + 1, row, err))
    return out


def export_instance(job):
    """rows of `$v instance of T` (3.1 parser, value bound as variable)"""
    values_texts, type_texts, rows = job
    out = []
    for vi in rows:
        row, err = [], []
        for j, tt in enumerate(type_texts):
            obs = evaluate(dict(op='instance', api='select', src='$v', vtext=values_texts[vi], ttext=tt,
                                parser='3.1', ctx='item'))
            if obs == 'true':
                row.append(j + 1)
            elif obs != 'false':
                err.append(j + 1)
        out.append((vi + 1, row, err))
    return out


def split_signature(sig: str):
    """'function(A, B) as R' -> ([A, B], R)   (lexical splitting only)"""
    assert sig.startswith('function(')
    depth = 0
    end = None
    for i, ch in enumerate(sig):
        if ch == '(':
            depth += 1
        elif ch == ')':
            depth -= 1
            if depth == 0:
                end = i
                break
    inner, rest = sig[9:end], sig[end + 1:]
    assert rest.startswith(' as '), sig
    parts, cur, depth = [], '', 0
    for ch in inner:
        if ch == '(':
            depth += 1
        elif ch == ')':
            depth -= 1
        if ch == ',' and depth == 0:
            parts.append(cur.strip())
            cur = ''
        else:
            cur += ch
    if cur.strip():
        parts.append(cur.strip())
    return parts, rest[4:]


def export_signatures():
    """parser.function_signatures of EVERY parser version (redefined functions differ per version):
    (version, name, arity, parameter texts, return text)"""
    e = env()
    out = []
    for ver in ('2.0', '3.0', '3.1'):
        for (qname, arity), sig in e.parsers[ver].function_signatures.items():
            ps, r = split_signature(sig)
            out.append(dict(ver=ver, name=qname.qname, arity=arity, ps=ps, r=r, sig=sig))
    return out


def tla_set(xs) -> str:
    return '{' + ', '.join(str(x) for x in xs) + '}'


def tla_rows(rows: dict, n: int) -> str:
    return '<<' + ',\n  '.join(tla_set(rows.get(i, [])) for i in range(1, n + 1)) + '>>'


IMPL_MODULE = '''---- MODULE Impl_C18 ----
(* GENERATED at check time from the working tree of elementpath: the XPath-level relations of the
   implementation (is_sequence_type_restriction on type x type, `instance of` on value x type) and
   parser.function_signatures, as literal constants.  TLC checks the laws of the property on the
   EXPORTED data, its equality with the relations of SeqTypes, and chooses the arguments of the
   signature-conformance calls. *)
EXTENDS SeqTypes
ImplDefT == %(deft)s
ImplSup == %(sup)s
ImplMatch == %(match)s
ImplMatchErr == %(matcherr)s
Sigs == %(sigs)s
PickK == %(k)d
D == ImplDefT
SubDev(i, j) == (j \\in ImplSup[i]) # (j \\in SupRow[i])
MatchDev(v, j) == (j \\in ImplMatch[v]) # (j \\in MatchRow[v])
(* laws on the exported relations; every counterexample is attributed to the first judgement of
   the implementation that deviates from the specification *)
NonReflexive == {i \\in D : i \\notin ImplSup[i]}
NonTransitive ==
  UNION {{<<i, j, k, IF SubDev(i, j) THEN "ij" ELSE IF SubDev(j, k) THEN "jk" ELSE IF SubDev(i, k) THEN "ik" ELSE "none">> :
            k \\in (ImplSup[j] \\ ImplSup[i])} : <<i, j>> \\in {<<i, j>> \\in D \\X D : j \\in ImplSup[i]}}
Unsound ==
  UNION {{<<v, s, t, IF SubDev(s, t) THEN "sub" ELSE IF MatchDev(v, s) THEN "matchS" ELSE IF MatchDev(v, t) THEN "matchT" ELSE "none">> :
            t \\in ((ImplSup[s] \\ ImplMatch[v]) \\ ImplMatchErr[v])} :
         <<v, s>> \\in {<<v, s>> \\in (1..NV) \\X D : s \\in ImplMatch[v]}}
SubExtra == UNION {{<<i, j>> : j \\in (ImplSup[i] \\ SupRow[i])} : i \\in D}
SubMissing == UNION {{<<i, j>> : j \\in ((SupRow[i] \\cap D) \\ ImplSup[i])} : i \\in D}
MatchDiff == UNION {{<<v, j>> : j \\in (((ImplMatch[v] \\ MatchRow[v]) \\cup (MatchRow[v] \\ ImplMatch[v]))
                                       \\ (ImplMatchErr[v] \\cup AmbRow[v]))} : v \\in 1..NV}
(* ArgsFor(parameter type): values of the universe matching it IN THE SPEC; PickK of them *)
ArgsFor(p) == {v \\in 1..NV : p \\in MatchRow[v]}
SetMin(S) == CHOOSE x \\in S : \\A y \\in S : x <= y
SetMax(S) == CHOOSE x \\in S : \\A y \\in S : x >= y
Median(S) == CHOOSE x \\in S : Cardinality({y \\in S : y < x}) = Cardinality(S) \\div 2
(* the representative whose type is exactly the parameter's atomic type (for xs:anyAtomicType the
   xs:string one): the concrete special-case literals of the binding table are variants of it *)
Exact(p) == LET it == TypeSeq[p].it IN
            IF it.k # "atomic" THEN {}
            ELSE {v \\in ArgsFor(p) : ValueSeq[v] = <<Atom(IF it.n = "anyAtomicType" THEN "string" ELSE it.n)>>}
NodeParam(p) == TypeSeq[p].it.k \\in (NodeKinds \\cup {"node"})
ArgPick(p, n) == LET c == ArgsFor(p) IN
                 IF c = {} THEN {}
                 ELSE IF n = 1 THEN c                               \\* unary functions: every matching value
                 ELSE IF n = 2 /\\ NodeParam(p) THEN c              \\* every node kind (and the empty sequence)
                 ELSE IF n = 2 \\/ PickK = 3 THEN {SetMin(c), Median(c), SetMax(c)} \\cup Exact(p)
                 ELSE {Median(c), SetMax(c)} \\cup Exact(p)
RECURSIVE ArgTuples(_, _)
ArgTuples(ps, n) == IF Len(ps) = 0 THEN {<<>>}
                    ELSE {<<a>> \\o rest : a \\in ArgPick(Head(ps), n), rest \\in ArgTuples(Tail(ps), n)}
CallPlan == UNION {{<<s, args>> : args \\in ArgTuples(Sigs[s].ps, Len(Sigs[s].ps))} : s \\in 1..Len(Sigs)}
(* every abstract argument tuple is rendered in NVariants concrete variants by the binding table *)
NVariants == %(nvar)d
(* no ASSUME mentions exported data: a law that fails on the implementation's tables yields a
   printed set of counterexamples (confirmed through the API, reported as violations), never an
   aborted TLC run; ASSUME is used for the laws of the pure specification only *)
ImplInit ==
  /\\ PrintT(<<"nonreflexive", NonReflexive>>)
  /\\ PrintT(<<"nontransitive", NonTransitive>>)
  /\\ PrintT(<<"unsound", Unsound>>)
  /\\ PrintT(<<"subextra", SubExtra>>)
  /\\ PrintT(<<"submissing", SubMissing>>)
  /\\ PrintT(<<"matchdiff", MatchDiff>>)
  /\\ PrintT(<<"callplan", CallPlan>>)
  /\\ PrintT(<<"sizes", <<Cardinality(D), Cardinality(UNION {{<<i, j>> : j \\in ImplSup[i]} : i \\in D}),
                            Cardinality(UNION {{<<i, j>> : j \\in SupRow[i]} : i \\in 1..NT}),
                            Cardinality(UNION {{<<v, j>> : j \\in ImplMatch[v]} : v \\in 1..NV}),
                            Cardinality(UNION {{<<v, j>> : j \\in MatchRow[v]} : v \\in 1..NV})>> >>)
  /\\ acc = Val(1)
ImplNext == UNCHANGED acc
====
'''

OBS_MODULE = '''---- MODULE Obs_C18 ----
(* GENERATED: projected results of built-in function calls with the declared return type of the
   called signature; TLC evaluates Matches(result, declared return type) in SeqTypes. *)
EXTENDS SeqTypes
Obs == %(obs)s
Bad == {n \\in 1..Len(Obs) : ~MatchSeq(Obs[n].res, TypeSeq[Obs[n].r])}
ObsInit == /\\ PrintT(<<"bad", Bad>>)
           /\\ PrintT(<<"nobs", Len(Obs)>>)
           /\\ acc = Val(1)
ObsNext == UNCHANGED acc
====
'''


def restriction_features(sub, sup, expected: str, observed: str) -> dict:
    tr_sub, tr_sup = type_traits(sub), type_traits(sup)

    def ret_occ(st):
        it = st['it']
        return it['k'] == 'function' and not it['any'] and it['r']['occ'] in ('?', '*', '+')
    return dict(op='restriction', api='is_sequence_type_restriction', sub_family=type_family(sub),
                sup_family=type_family(sup), occ_sub=sub['occ'], occ_sup=sup['occ'],
                same_item=(sub['it'] == sup['it']), numeric=(tr_sub['numeric'] or tr_sup['numeric']),
                ret_occ=(ret_occ(sub) or ret_occ(sup)), expected=expected, observed=observed)


# ---------------------------------------------------------------------------------------
# signature conformance: calls and projection of the results

def qname_text(name: str) -> str:
    if name and name[0] == '{':
        uri, local = name[1:].split('}')
        return f'{PREFIXES[uri]}:{local}' if uri in PREFIXES else f'Q{{{uri}}}{local}'
    return name


def project_item(x, text2idx, types):
    """real item -> abstract item of spec/SeqTypes (None: outside the abstraction)"""
    from elementpath.xpath_nodes import XPathNode, DocumentNode, ElementNode
    from elementpath.xpath_tokens import XPathFunction, XPathMap, XPathArray
    from elementpath.datatypes import AnyAtomicType
    if isinstance(x, XPathNode):
        kind = {'processing-instruction': 'pi'}.get(x.node_kind, x.node_kind)
        if isinstance(x, DocumentNode):
            els = [c for c in x.children if isinstance(c, ElementNode)]
            name = qname_text(els[0].name) if len(els) == 1 else ''
        elif kind in ('element', 'attribute', 'pi', 'namespace'):
            name = qname_text(x.name or '')
        else:
            name = ''
        return {'k': 'node', 'nk': kind, 'name': name}
    if isinstance(x, XPathMap):
        es = []
        for k, v in x.items():
            pk, pv = project_item(k, text2idx, types), project_value(v, text2idx, types)
            if pk is None or pv is None:
                return None
            es.append((pk, pv))
        return {'k': 'map', 'es': tuple(es)}
    if isinstance(x, XPathArray):
        ms = []
        for m in x.items():
            pm = project_value(m, text2idx, types)
            if pm is None:
                return None
            ms.append(pm)
        return {'k': 'array', 'ms': tuple(ms)}
    if isinstance(x, XPathFunction):
        try:
            sts = list(x.sequence_types[:x.arity]) + [x.sequence_types[-1]]
            idx = [text2idx[normalize_text(t)] for t in sts]
        except (KeyError, IndexError, TypeError):
            return None
        return {'k': 'fn', 'ps': tuple(types[i - 1] for i in idx[:-1]), 'r': types[idx[-1] - 1]}
    t = type(x)
    if t is bool:
        return {'k': 'atom', 't': 'boolean'}
    if t is int:
        return {'k': 'atom', 't': 'integer'}
    if t is float:
        return {'k': 'atom', 't': 'double'}
    if t is Decimal:
        return {'k': 'atom', 't': 'decimal'}
    if t is str:
        return {'k': 'atom', 't': 'string'}
    name = getattr(t, 'name', None)
    if isinstance(x, AnyAtomicType) and isinstance(name, str):
        return {'k': 'atom', 't': name}
    return None


def project_value(r, text2idx, types):
    if r is None:
        return ()
    items = r if isinstance(r, list) else [r]
    out = []
    for x in items:
        p = project_item(x, text2idx, types)
        if p is None:
            return None
        out.append(p)
    return tuple(out)


def normalize_text(t: str) -> str:
    return re.sub(r'\s*,\s*', ', ', ' '.join(t.split()))


def run_calls(job):
    """call name(args) directly and (XPath 3.0+) name#arity(args) dynamically, with the parser version that
    registered the signature, in a context where node functions can succeed (document with a URI, context
    item = the root element with xml:lang / xml:id / namespaces); project the results"""
    text2idx, types, calls = job
    e = env()
    from elementpath import XPathContext
    out = []
    ctx_item = e.doc.getroot()
    for (si, sig, args, argtexts) in calls:
        if not all(constructible(t) for t in argtexts):
            out.append((si, args, 'direct', '', 'unconstructible', None, '', argtexts))
            continue            # a lexical form the constructor rejects (year 0000 with XSD 1.0)
        variables = {f'a{n + 1}': e.value(t) for n, t in enumerate(argtexts)}
        variables['d'] = e.doc
        arglist = ', '.join(f'$a{n + 1}' for n in range(len(argtexts)))
        modes = [('direct', f"{sig['name']}({arglist})")]
        if sig['ver'] >= '3.0':
            modes.append(('dynamic', f"{sig['name']}#{sig['arity']}({arglist})"))
        for mode, expr in modes:
            def call():
                tok = e.parsers[sig['ver']]().parse(expr)
                return tok.evaluate(XPathContext(root=e.doc, item=ctx_item, variables=dict(variables),
                                                 documents={DOC_URI: e.doc}))
            r = guarded(call)
            if r[0] == 'value':
                pv = project_value(r[1], text2idx, types)
                out.append((si, args, mode, expr, 'value', pv, repr(r[1])[:120], argtexts))
            else:
                out.append((si, args, mode, expr, ':'.join(r), None, '', argtexts))
    return out


# Special-case argument literals (variants of the abstract xs:string / xs:anyURI / xs:QName singleton).
# The F&O text singles out particular names and literals whose branches return differently built
# values; the generic list below is completed, per function, by the short string literals that the
# implementation of THAT function compares its arguments with (harvested from its source code).
STRING_SPECIALS = [
    '', ' ', ' \t\n', 'xml', 'xmlns', 'p', 'undeclared', 'xs', 'fn',
    'http://www.w3.org/XML/1998/namespace', 'http://www.w3.org/2001/XMLSchema',
    'http://www.w3.org/2005/xpath-functions', 'urn:p', DOC_URI,
    'en', 'EN-us', 'NFC', 'nfc', 'NFKD', 'FULLY-NORMALIZED', 'unknown',
    'http://www.w3.org/2005/xpath-functions/collation/codepoint',
    'http://www.w3.org/2005/xpath-functions/collation/html-ascii-case-insensitive', 'http://example.com/unknown-collation',
    'utf-8', 'UTF-16', 'x-unknown', 'i', 'x', 'q', 'smix', '[Y0001]-[M01]-[D01]', '[H01]:[m01]', '#,##0.00', '1', 'Ww', 'a1',
    'a b', '(a)(b)?', '$1', '\\', 'xml:lang', 'xs:integer', 'json', '{"a":1}', '<a/>',
]
URI_SPECIALS = ['http://www.w3.org/XML/1998/namespace', 'http://www.w3.org/2001/XMLSchema',
                'http://www.w3.org/2005/xpath-functions', 'urn:p', '', 'b/c#d']
QNAME_SPECIALS = ['xml:lang', 'xs:integer', 'fn:abs', 'local']


def xpath_string(lit: str) -> str:
    return "'" + lit.replace("'", "''") + "'"


_harvest_cache: dict = {}


def harvest_literals(ver: str, name: str, arity: int) -> list[str]:
    """short string literals the implementation of the function compares values with
    (== / != / in / not in / startswith / endswith / match-case), by inspect.getsource + ast"""
    key = (ver, name)
    if key in _harvest_cache:
        return _harvest_cache[key]
    import ast
    import inspect
    import textwrap
    e = env()
    found: list[str] = []
    try:
        fn = e.parsers[ver]().get_function(name, arity)
        cls = type(fn)
    except Exception:  # noqa
        _harvest_cache[key] = found
        return found

    def consts(node):
        for sub in ast.walk(node):
            if isinstance(sub, ast.Constant) and isinstance(sub.value, str) and len(sub.value) <= 40:
                if sub.value not in found:
                    found.append(sub.value)

    for attr in ('evaluate', 'select'):
        meth = cls.__dict__.get(attr)
        if meth is None:
            continue
        try:
            tree = ast.parse(textwrap.dedent(inspect.getsource(meth)))
        except (OSError, TypeError, SyntaxError):
            continue
        for node in ast.walk(tree):
            if isinstance(node, ast.Compare):
                consts(node)
            elif isinstance(node, ast.Call) and isinstance(node.func, ast.Attribute) and \
                    node.func.attr in ('startswith', 'endswith', 'get', 'count', 'find'):
                for a in node.args:
                    consts(a)
            elif isinstance(node, ast.match_case):
                consts(node.pattern)
    _harvest_cache[key] = found
    return found


def special_variants(sig: dict, abstract_value) -> list[str]:
    """extra concrete renderings of an abstract singleton argument for one function"""
    if len(abstract_value) != 1 or abstract_value[0]['k'] != 'atom':
        return []
    t = abstract_value[0]['t']
    if t == 'string':
        lits = list(STRING_SPECIALS)
        for h in harvest_literals(sig['ver'], sig['name'], sig['arity']):
            if h not in lits:
                lits.append(h)
        return [xpath_string(x) for x in lits]
    if t == 'anyURI':
        return [f'xs:anyURI({xpath_string(x)})' for x in URI_SPECIALS]
    if t == 'QName':
        return [f'xs:QName({xpath_string(x)})' for x in QNAME_SPECIALS]
    return []


def result_kind(pv) -> str:
    if pv is None:
        return 'unprojectable'
    if len(pv) == 0:
        return 'empty'
    ks = sorted({(x['k'] + ':' + x.get('t', x.get('nk', ''))).rstrip(':') for x in pv})
    return ('seq:' if len(pv) > 1 else '') + '|'.join(ks)


# ---------------------------------------------------------------------------------------
# histories: function items derived from one another, several judgements in ONE evaluation
# (spec/FnItemHist.tla; every state of its graph is one expression)

HIST = {'quick': dict(MaxLen=2, SameBase=True), 'thorough': dict(MaxLen=2, SameBase=False)}
BASE_TEXT = {
    'function(xs:string?, xs:double) as xs:string': 'substring#2',
    'function(xs:integer, xs:integer) as xs:integer':
        'function($a as xs:integer, $b as xs:integer) as xs:integer {$a + $b}',
    'function(item()*, xs:integer) as item()*': 'remove#2',
}
HIST_ARG = {'xs:string?': "'abcde'", 'xs:double': '2e0', 'xs:integer': '1', 'item()*': "('x', 'y')"}
DERIVS = ['self', 'first', 'second', 'both']


def fn_sig_text(f) -> str:
    return 'function(' + ', '.join(type_text(p) for p in f['ps']) + ') as ' + type_text(f['r'])


def hist_expr(bases, tests, hist):
    """one evaluation: let $f1 := .., $f2 := .. return (J1, J2, ..) and the expected outcome"""
    used = sorted({h['b'] for h in hist})
    lets = ', '.join(f'$f{b} := {BASE_TEXT[fn_sig_text(bases[b - 1])]}' for b in used)
    js = []
    for h in hist:
        f = bases[h['b'] - 1]
        a1, a2 = (HIST_ARG[type_text(p)] for p in f['ps'])
        item = {'self': f'$f{h["b"]}', 'first': f'$f{h["b"]}(?, {a2})', 'second': f'$f{h["b"]}({a1}, ?)',
                'both': f'$f{h["b"]}(?, ?)'}[DERIVS[h['d'] - 1]]
        t = type_text({'it': tests[h['t'] - 1], 'occ': '1'})
        js.append(f'{item} instance of {t}' if h['op'] == 'instance' else f'count({item} treat as {t})')
    expected = ['1' if h['out'] == 'same' else h['out'] for h in hist]
    if expected[-1] == 'XPDY0050':
        expected = 'err:XPDY0050'
    else:
        expected = ','.join(expected)
    return f'let {lets} return ({", ".join(js)})', expected


def eval_history(expr: str, parser: str) -> str:
    e = env()
    out = guarded(lambda: e.ep.select(e.doc, expr, parser=e.parsers[parser]))
    if out[0] == 'value':
        r = out[1] if isinstance(out[1], list) else [out[1]]
        return ','.join('true' if x is True else 'false' if x is False else repr(x) for x in r)
    if out[0] == 'err':
        return 'err:' + out[1]
    return ':'.join(out)


def hist_worker(job):
    parsers, cases = job
    fails = []
    n = 0
    for expr, expected, feat in cases:
        for parser in parsers:
            obs = eval_history(expr, parser)
            n += 1
            if obs != expected:
                fails.append((dict(feat, parser=parser, expected=expected, observed=obs),
                              dict(kind='history', expr=expr, parser=parser), expected, obs))
    return n, fails


def run_histories(chk, tier: str, procs: int) -> None:
    wd = os.path.join(chk.scratch, 'hist')
    dot = os.path.join(wd, 'g.dot')
    cfg = tla.cfg_text(dict(TIERS[tier], MaxDepth=1, **HIST[tier]), spec='HSpec', invariants=['HLaws'])
    r = tla.require_ok(tla.run_tlc('FnItemHist', cfg, wd, dump_dot=dot, workers=8), 'FnItemHist', min_distinct=100)
    chk.model(f'FnItemHist/{tier}', r)
    bases = printed(r.output, 'bases')[0]
    tests = printed(r.output, 'tests')[0]
    g = tla.load_dot(dot)
    os.remove(dot)
    cases = []
    n_mixed = 0
    for st in g.states.values():
        hist = st['hist']
        if not hist:
            continue
        expr, expected = hist_expr(bases, tests, hist)
        derivs = '>'.join(DERIVS[h['d'] - 1] for h in hist)
        feat = dict(op='history', ops='>'.join(h['op'] for h in hist), derivs=derivs,
                    base=BASE_TEXT[fn_sig_text(bases[hist[0]['b'] - 1])].split('(')[0],
                    same_test=len({h['t'] for h in hist}) == 1, length=len(hist),
                    first_arg_fixed=any(DERIVS[h['d'] - 1] == 'second' for h in hist))
        cases.append((expr, expected, feat))
        if len(hist) > 1 and len({(h['b'], h['d']) for h in hist}) > 1 and len({h['t'] for h in hist}) == 1:
            n_mixed += 1        # different items derived from one base judged against the same test
    if not n_mixed:
        raise tla.MachineryError('FnItemHist: no history judges two derived items against one test (vacuous)')
    parsers = ['3.1'] if tier == 'quick' else ['3.0', '3.1']
    results = core.pool_map(hist_worker, [(parsers, c) for c in core.chunked(cases, 4 * procs)], procs=procs)
    for n, fails in results:
        chk.add('evaluations', n)
        for feat, case, exp, obs in fails:
            chk.fail(feat, case, exp, obs, what=case['expr'])
    chk.add('transitions', len(g.edges))
    chk.add('traces_validated_against_impl', len(cases))
    chk.add('distinct_nontrivial', n_mixed)
    chk.coverage['histories'] = dict(expressions=len(cases), two_items_of_one_base_against_one_test=n_mixed)
    chk.sample(dict(history=cases[len(cases) // 2][0], expected=cases[len(cases) // 2][1]))
    print(f'  histories: states={r.distinct} expressions={len(cases)} (derived items against one test: {n_mixed}) '
          f'tlc={r.wall_s:.1f}s', flush=True)


# ---------------------------------------------------------------------------------------
# kind tests under static namespace contexts; treat as observed through consumers / entry points

NS_XML = '<r xmlns:p="urn:x"><e a="1" p:b="2"/><p:e/></r>'
NS_ITEM_PATH = {('element', '', 'e'): '$d/r/e', ('element', 'urn:x', 'e'): '$d/r/p:e',
                ('attribute', '', 'a'): '$d/r/e/@a', ('attribute', 'urn:x', 'b'): '$d/r/e/@p:b'}
_ns_env = None


def ns_env():
    global _ns_env
    if _ns_env is None:
        e = env()
        import xml.etree.ElementTree as ET
        from elementpath import get_node_tree, XPathContext
        doc = get_node_tree(ET.ElementTree(ET.fromstring(NS_XML)), namespaces={'p': 'urn:x'})
        items = {}
        for key, path in NS_ITEM_PATH.items():
            tok = e.parsers['3.1'](namespaces={'p': 'urn:x'}).parse(path)
            r = tok.evaluate(XPathContext(root=doc, variables={'d': doc}))
            if not isinstance(r, list) or len(r) != 1:
                raise tla.MachineryError(f'namespace document: {path} selects {r!r}')
            items[key] = r[0]
        _ns_env = (doc, items)
    return _ns_env


def eval_ns(case: dict) -> str:
    e = env()
    doc, items = ns_env()
    v = items[tuple(case['item'])]
    namespaces = {'p': 'urn:x'}
    if case['dns']:
        namespaces[''] = case['dns']
    P = e.parsers[case['parser']]
    variables = {'v': v, 'd': doc}
    form = case['form']

    def run_expr(expr):
        if form == 'select':
            return e.ep.select(None, expr, namespaces=namespaces, parser=P, item=1, variables=variables)
        if form == 'doc':
            return e.ep.select(doc, expr, namespaces=namespaces, parser=P, variables=variables)
        from elementpath import XPathContext
        return P(namespaces=namespaces).parse(expr).evaluate(XPathContext(root=doc, variables=variables))
    out = guarded(lambda: run_expr(case['expr']))
    if out[0] == 'value':
        r = out[1]
        if isinstance(r, list) and len(r) == 1:
            r = r[0]
        if case['op'] == 'instance':
            return 'true' if r is True else 'false' if r is False else f'other:{type(r).__name__}'
        base = run_expr('$v')       # the operand alone through the same result formatter
        if isinstance(base, list) and len(base) == 1:
            base = base[0]
        return 'same' if r is base else 'changed'
    if out[0] == 'err':
        return 'err:' + out[1]
    return ':'.join(out)


def ns_worker(job):
    fails, n = [], 0
    for case, feat, expected in job:
        obs = eval_ns(case)
        n += 1
        if obs != expected:
            verdict = {'true': 'match', 'same': 'match', 'false': 'nomatch', 'err:XPDY0050': 'nomatch'}
            fails.append((dict(feat, expected=expected, observed=obs, obs_verdict=verdict.get(obs, obs)), case, expected, obs))
    return n, fails


def run_static_ns(chk, tier: str, procs: int) -> None:
    wd = os.path.join(chk.scratch, 'ns')
    dot = os.path.join(wd, 'g.dot')
    cfg = tla.cfg_text(dict(TIERS[tier], MaxDepth=1), spec=None, init='NsInit', next_='StutterNext', invariants=['NsLaw'])
    r = tla.require_ok(tla.run_tlc('SeqTypes', cfg, wd, dump_dot=dot, workers=4), 'SeqTypes/NsInit', min_distinct=500)
    chk.model(f'SeqTypes-staticns/{tier}', r)
    items, dns, kinds, names, tys, ops = printed(r.output, 'nsuniverse')[0]
    g = tla.load_dot(dot)
    os.remove(dot)
    cases = []
    n_dns_unprefixed_attr = 0
    for st in g.states.values():
        a = st['acc']
        x, kind, nm = items[a['x'] - 1], kinds[a['k'] - 1], names[a['n'] - 1]
        ty = tys[kind][a['ty'] - 1]
        op = ops[a['o'] - 1]
        d = dns[a['d'] - 1]
        ntext = ('p:' if nm['p'] else '') + nm['l']
        if nm['l'] == '*' and nm['p']:
            continue
        kt = f'{kind}({ntext})' if ty == '*' else f'{kind}({ntext}, xs:{ty})'
        expected = {'XPDY0050': 'err:XPDY0050'}.get(a['out'], a['out'])
        item = (x['nk'], x['name']['ns'], x['name']['local'])
        tfamily = kind + ('' if nm['l'] == '*' else ':name') + ('' if ty == '*' else ':type')
        verdict = {'true': 'match', 'same': 'match', 'false': 'nomatch', 'err:XPDY0050': 'nomatch'}
        feat = dict(op=op, api='select', family='staticns', tfamily=tfamily, targ=ty if ty != '*' else None,
                    prefixed=bool(nm['p']), vkind='node:' + x['nk'], item_ns=bool(x['name']['ns']),
                    default_ns={'': 'none', 'urn:x': 'same-as-prefix', 'urn:y': 'other'}[d],
                    exp_verdict=verdict[expected])
        if kind == 'attribute' and d and not nm['p'] and nm['l'] != '*' and x['nk'] == 'attribute':
            n_dns_unprefixed_attr += 1
        forms = [('select', '3.1'), ('evaluate', '3.1'), ('select', '2.0')] + \
                ([('doc', '3.0'), ('evaluate', '2.0')] if tier == 'thorough' else [])
        for form, parser in forms:
            expr = f"$v {'instance of' if op == 'instance' else 'treat as'} {kt}"
            cases.append((dict(kind='staticns', item=list(item), dns=d, expr=expr, op=op, form=form, parser=parser),
                          dict(feat, form=form, parser=parser), expected))
    if not n_dns_unprefixed_attr:
        raise tla.MachineryError('static namespace family: no unprefixed attribute test under a default namespace (vacuous)')
    for n, fails in core.pool_map(ns_worker, core.chunked(cases, 2 * procs), procs=procs):
        chk.add('evaluations', n)
        for feat, case, exp, obs in fails:
            chk.fail(feat, case, exp, obs, what=f"{case['expr']} (item {case['item']}, default namespace {case['dns']!r})")
    chk.add('traces_validated_against_impl', len(g.states))
    chk.coverage['static_namespace_contexts'] = dict(judgements=len(g.states), evaluations=len(cases),
                                                     unprefixed_attribute_tests_under_default_ns=n_dns_unprefixed_attr)
    print(f'  static namespaces: states={r.distinct} evaluations={len(cases)} tlc={r.wall_s:.1f}s', flush=True)


CONSUMER_TEXT = {'all': '%s', 'exists': 'exists(%s)', 'empty': 'empty(%s)', 'head': 'head(%s)', 'first': '(%s)[1]',
                 'some': 'some $q in %s satisfies true()', 'every': 'every $q in %s satisfies false()',
                 'sub1': 'subsequence(%s, 1, 1)', 'ebv': 'boolean(%s)', 'not': 'not(%s)', 'if': 'if (%s) then 1 else 2'}


def _consume_run(e, expr: str, parser: str, entry: str, variables: dict):
    from elementpath import XPathContext, Selector, iter_select
    P = e.parsers[parser]
    if entry == 'select':
        return e.ep.select(e.doc, expr, parser=P, variables=variables)
    if entry == 'selector':
        return Selector(expr, parser=P, variables=variables).select(e.doc)
    if entry == 'evaluate':
        return P().parse(expr).evaluate(XPathContext(root=e.doc, variables=variables))
    if entry == 'tselect':
        return list(P().parse(expr).select(XPathContext(root=e.doc, variables=variables)))
    if entry == 'iter1':        # the caller pulls the first item only
        for x in iter_select(e.doc, expr, parser=P, variables=variables):
            return [x]
        return []
    raise tla.MachineryError(entry)


def eval_consume(case: dict) -> str:
    e = env()
    variables = {'d': e.doc}
    out = guarded(lambda: _consume_run(e, case['expr'], case['parser'], case['entry'], variables))
    if out[0] == 'value':
        base = guarded(lambda: _consume_run(e, case['base'], case['parser'], case['entry'], variables))
        if base[0] != 'value':
            return 'unobservable'
        return 'same' if same_value(out[1], base[1], True) else 'changed'
    if out[0] == 'err':
        return 'err:' + out[1]
    return ':'.join(out)


def consume_worker(job):
    fails, n = [], 0
    for case, feat, expected in job:
        obs = eval_consume(case)
        n += 1
        if obs == 'unobservable':
            continue
        if obs != expected:
            fails.append((None, case, expected, obs))
    return n, fails


def run_consumers(chk, tier: str, procs: int) -> None:
    wd = os.path.join(chk.scratch, 'consume')
    dot = os.path.join(wd, 'g.dot')
    cfg = tla.cfg_text(dict(TIERS[tier], MaxDepth=1), spec=None, init='CInit', next_='StutterNext',
                       invariants=['ConsumerFree'])
    r = tla.require_ok(tla.run_tlc('SeqTypes', cfg, wd, dump_dot=dot, workers=8), 'SeqTypes/CInit', min_distinct=5000)
    chk.model(f'SeqTypes-consumers/{tier}', r)
    types = printed(r.output, 'types')[0]
    values = printed(r.output, 'values')[0]
    consumers, entries = printed(r.output, 'consumers')[0]
    g = tla.load_dot(dot)
    os.remove(dot)
    cases = []
    n_late = 0
    for s in g.states.values():
        a = s['acc']
        st, v = types[a['t'] - 1], values[a['v'] - 1]
        c, entry = consumers[a['c'] - 1], entries[a['e'] - 1]
        lo = max(type_minver(st), value_minver(v), '3.0' if c == 'head' else '2.0')
        vtext = value_text(v) if len(v) != 1 else f'({value_text(v)})'
        if len(v) == 0:
            vtext = '()'
        ttext = type_text(st)
        expr = CONSUMER_TEXT[c] % f'({vtext} treat as {ttext})'
        base = CONSUMER_TEXT[c] % vtext
        expected = {'XPDY0050': 'err:XPDY0050'}.get(a['out'], a['out'])
        late = a['out'] == 'XPDY0050' and len(v) > 1
        feat = None          # built on failure (features_of vocabulary, so that the known classes of binding A apply)
        if late and c != 'all':
            n_late += 1
        parsers = ['3.1'] + ([lo] if lo != '3.1' and (tier == 'thorough' or (a['v'] + a['t']) % 3 == 0) else [])
        for parser in parsers:
            cases.append((dict(kind='consume', expr=expr, base=base, parser=parser, entry=entry, consumer=c, late=late,
                               vi=a['v'], ti=a['t']), None, expected))
    if not n_late:
        raise tla.MachineryError('consumer family: no multi-item non-matching operand under a short-circuiting consumer')
    for n, fails in core.pool_map(consume_worker, core.chunked(cases, 4 * procs), procs=procs):
        chk.add('evaluations', n)
        for feat, case, exp, obs in fails:
            pseudo = dict(op='treat', api='select', spelling='min', srckind='lit', parser=case['parser'], ctx='doc')
            feat = dict(features_of(pseudo, types[case['ti'] - 1], values[case['vi'] - 1], exp, obs),
                        consumer=case['consumer'], entry=case['entry'], late=case['late'])
            chk.fail(feat, case, exp, obs, what=f"{case['expr']} via {case['entry']} ({case['parser']})")
    chk.add('traces_validated_against_impl', len(g.states))
    chk.coverage['treat_through_consumers'] = dict(judgements=len(g.states), evaluations=len(cases),
                                                   multi_item_failures_under_short_circuit=n_late)
    print(f'  consumers: states={r.distinct} evaluations={len(cases)} tlc={r.wall_s:.1f}s', flush=True)


# ---------------------------------------------------------------------------------------

def tlc_constants(module: str, text: str, wd: str, tier: str, init: str, nxt: str, what: str,
                  spec_snapshot: str | None = None):
    gen = os.path.join(wd, 'gen')
    os.makedirs(gen, exist_ok=True)
    with open(os.path.join(gen, module + '.tla'), 'w') as f:
        f.write(text)
    if spec_snapshot:
        # the generated constants are indexed by the universe printed by the FIRST run: later runs must
        # see exactly the same SeqTypes.tla even if spec/ is edited meanwhile
        with open(os.path.join(gen, 'SeqTypes.tla'), 'w') as f:
            f.write(spec_snapshot)
    cfg = tla.cfg_text(dict(TIERS[tier], MaxDepth=1), spec=None, init=init, next_=nxt)
    return tla.require_ok(tla.run_tlc(module, cfg, wd, workers=2, extra_modules_dir=gen), what)


def replay(rec: dict) -> int:
    core.setup_repo_path()
    case = rec['case']
    kind = case.get('kind', 'judgement')
    print('case     :', case)
    print('expected :', rec['expected'])
    if kind == 'judgement':
        obs = evaluate(case)
    elif kind == 'restriction':
        obs = restriction(case['sup'], case['sub'])
    elif kind == 'law':
        obs = confirm_law(case)
    elif kind == 'call':
        obs = replay_call(case)
    elif kind == 'history':
        obs = eval_history(case['expr'], case['parser'])
    elif kind == 'staticns':
        obs = eval_ns(case)
    elif kind == 'consume':
        obs = eval_consume(case)
    else:
        raise tla.MachineryError(f'unknown replay kind {kind}')
    print('observed :', obs)
    if obs != rec['expected']:
        print('VIOLATION property=C18 replay=(replayed)')
        return 1
    return 0


def confirm_law(case: dict) -> str:
    """re-evaluate the judgements of a TLC counterexample through the real API"""
    if case['law'] == 'transitive':
        a, b, c = case['types']
        got = (restriction(b, a), restriction(c, b), restriction(c, a))
        return 'holds' if got != ('true', 'true', 'false') else 'violated'
    if case['law'] == 'sound':
        s, t = case['types']
        m1 = evaluate(dict(op='instance', api='select', src='$v', vtext=case['vtext'], ttext=s, parser='3.1', ctx='item'))
        m2 = evaluate(dict(op='instance', api='select', src='$v', vtext=case['vtext'], ttext=t, parser='3.1', ctx='item'))
        got = (m1, restriction(t, s), m2)
        return 'holds' if got != ('true', 'true', 'false') else 'violated'
    if case['law'] == 'reflexive':
        return 'holds' if restriction(case['types'][0], case['types'][0]) == 'true' else 'violated'
    raise tla.MachineryError(case['law'])


def replay_call(case: dict) -> str:
    """re-run one call and let TLC judge the projected result against the declared type"""
    import tempfile
    wd = tempfile.mkdtemp(prefix='c18-replay-')
    tier = case.get('tier', 'quick')
    cfg = tla.cfg_text(dict(TIERS[tier], MaxDepth=1), constraints=['Bounded'])
    r = tla.require_ok(tla.run_tlc('SeqTypes', cfg, wd, workers=2), 'SeqTypes')
    types = printed(r.output, 'types')[0]
    text2idx = {type_text(t): i + 1 for i, t in enumerate(types)}
    sig = dict(name=case['name'], arity=case['arity'], ver=case.get('ver', '3.1'))
    res = run_calls((text2idx, types, [(0, sig, (), case['argtexts'])]))
    row = [x for x in res if x[2] == case['mode']][0]
    if row[4] != 'value':
        return row[4]
    if row[5] is None:
        return 'unprojectable'
    obs = '<<[r |-> %d, res |-> %s]>>' % (text2idx[case['declared']], tla.to_tla(row[5]))
    r2 = tlc_constants('Obs_C18', OBS_MODULE % dict(obs=obs), wd, tier, 'ObsInit', 'ObsNext', 'Obs_C18')
    bad = printed(r2.output, 'bad')[0]
    import shutil
    shutil.rmtree(wd, ignore_errors=True)
    return 'mismatch:' + result_kind(row[5]) if bad else 'matches'


def run(chk: core.Check) -> None:
    core.setup_repo_path()
    tier = chk.tier
    procs = int(os.environ.get('C18_PROCS', '16'))
    chk.assumptions += [
        'spec/SeqTypes.tla is the oracle: XPath 3.1 2.5.5 (matching), 2.5.6 (subtype), XSD part 2 section 3 hierarchy; '
        'no second oracle exists, mismatches are adjudicated by the W3C text',
        'no schema in scope: elements are xs:untyped, attributes xs:untypedAtomic; schema-element/schema-attribute, '
        'xs:error and xs:dateTimeStamp (XSD 1.1) are outside the universe',
        'maps/arrays against TYPED function tests are judged only where the signature reading (XDM 3.1 17.1) and the '
        'reading that makes 2.5.6.2 rules 31/36 sound agree (operator Ambiguous)',
        '"treat as returns V unchanged" is observed as equality with the operand alone through the same result '
        'formatter of select()',
    ]
    if os.environ.get('C18_ONLY') == 'ext':        # development aid: the two extension families alone
        run_static_ns(chk, tier, procs)
        run_consumers(chk, tier, procs)
        return
    # ---- 1. the specification: laws, graph, universe ------------------------------------
    wd = os.path.join(chk.scratch, 'spec')
    dot = os.path.join(wd, 'g.dot')
    cfg = tla.cfg_text(TIERS[tier], invariants=['Laws'], properties=['TreatLaw'], constraints=['Bounded'])
    r = tla.require_ok(tla.run_tlc('SeqTypes', cfg, wd, dump_dot=dot, workers=8), 'SeqTypes', min_distinct=20)
    with open(os.path.join(wd, 'SeqTypes.tla')) as f:
        snapshot = f.read()
    chk.model(f'SeqTypes/{tier}', r)
    types = printed(r.output, 'types')[0]
    values = printed(r.output, 'values')[0]
    chk.coverage['ambiguous_pairs_excluded'] = printed(r.output, 'ambiguous')[0]
    g = tla.load_dot(dot)
    os.remove(dot)
    edges = []
    nontrivial = set()
    for s, d, a, args in g.edges:
        src, dst = g.states[s]['acc'], g.states[d]['acc']
        ti = args[0]
        st = types[ti - 1]
        v, vtext = state_value(src, values)
        vi = src['i'] if src['kind'] == 'val' else 0
        if a == 'InstanceOf':
            expected = 'true' if dst['b'] else 'false'
        else:
            expected = 'same' if dst == src else 'err:' + dst['code']
        edges.append((a, st, v, vtext, expected, vi, ti))
        if len(v) and st['it']['k'] not in ('item', 'empty'):
            nontrivial.add((a, vtext, ti))
    if not any(e[4] == 'true' for e in edges) or not any(e[4] == 'err:XPDY0050' for e in edges):
        raise tla.MachineryError('vacuous graph: an outcome class never occurs')
    chk.add('transitions', len(edges))
    chk.add('traces_validated_against_impl', len(edges))
    chk.add('distinct_nontrivial', len(nontrivial))
    for e_ in edges[:: max(1, len(edges) // 8)][:8]:
        chk.sample(dict(expr=f"{e_[3]} {'instance of' if e_[0] == 'InstanceOf' else 'treat as'} {type_text(e_[1])}",
                        expected=e_[4]))
    print(f'  SeqTypes: types={len(types)} values={len(values)} states={r.distinct} edges={len(edges)} '
          f'tlc={r.wall_s:.1f}s', flush=True)

    # ---- 2. binding A --------------------------------------------------------------------
    results = core.pool_map(worker, [(tier, c) for c in core.chunked(edges, 4 * procs)], procs=procs)
    a_diff = set()
    for n, fails in results:
        chk.add('evaluations', n)
        for feat, case, exp, obs in fails:
            chk.fail(feat, case, exp, obs, what=f"{case['src']} {case['op']} {case['ttext']!r}")
            if (case['op'], case['api'], case['spelling'], case['srckind'], case['parser'], case['ctx']) == \
                    ('instance', 'select', 'min', 'var', '3.1', 'item') and obs in ('true', 'false') and case['vi']:
                a_diff.add((case['vi'], case['ti']))
    print(f'  binding A: evaluations={chk.coverage["evaluations"]}', flush=True)

    # ---- 3. binding C: export, laws on the exported relations ---------------------------
    texts = [impl_type_text(t) for t in types]
    sup, match, merr = {}, {}, {}
    n_sup_err = 0
    for ch in core.pool_map(export_restriction, [(texts, c) for c in core.chunked(list(range(len(types))), 2 * procs)],
                            procs=procs):
        for i, row, err in ch:
            sup[i] = row
            n_sup_err += len(err)
    vtexts = [value_text(v) for v in values]
    ttexts = [type_text(t) for t in types]
    for ch in core.pool_map(export_instance, [(vtexts, ttexts, c) for c in core.chunked(list(range(len(values))), 2 * procs)],
                            procs=procs):
        for i, row, err in ch:
            match[i] = row
            merr[i] = err
    chk.add('evaluations', len(types) * len(types) + len(values) * len(types))
    if n_sup_err:
        chk.note(f'is_sequence_type_restriction raised on {n_sup_err} pairs (treated as not related)')
    text2idx = {t: i + 1 for i, t in enumerate(ttexts)}
    sigs_all = export_signatures()
    sigs = [s for s in sigs_all if all(p in text2idx for p in s['ps']) and s['r'] in text2idx]
    chk.coverage['signatures_exported'] = len(sigs_all)
    chk.coverage['signatures_in_universe'] = len(sigs)
    sigs_tla = '<<' + ',\n  '.join('[ps |-> <<%s>>, r |-> %d]' % (', '.join(str(text2idx[p]) for p in s['ps']),
                                                                   text2idx[s['r']]) for s in sigs) + '>>'
    deft = [i + 1 for i, t in enumerate(texts) if t is not None]
    mod = IMPL_MODULE % dict(deft=tla_set(deft), sup=tla_rows(sup, len(types)), match=tla_rows(match, len(values)),
                             matcherr=tla_rows(merr, len(values)), sigs=sigs_tla, k=2 if tier == 'quick' else 3,
                             nvar=N_VARIANTS[tier])
    wd2 = os.path.join(chk.scratch, 'impl')
    r2 = tlc_constants('Impl_C18', mod, wd2, tier, 'ImplInit', 'ImplNext', 'Impl_C18 (exported relations)', snapshot)
    chk.model(f'Impl_C18/{tier}', r2)
    sizes = printed(r2.output, 'sizes')[0]
    chk.coverage['exported'] = dict(types_expressible=sizes[0], impl_subtype_pairs=sizes[1], spec_subtype_pairs=sizes[2],
                                    impl_instance_pairs=sizes[3], spec_instance_pairs=sizes[4])
    if sizes[1] < len(deft) or sizes[3] < len(values):
        raise tla.MachineryError('exported relations are (almost) empty: export failed')
    T = lambda i: types[i - 1]          # noqa: E731
    n_law = 0
    for (i,) in ((x,) for x in printed(r2.output, 'nonreflexive')[0]):
        case = dict(kind='law', law='reflexive', types=[texts[i - 1]])
        n_law += 1
        if confirm_law(case) == 'violated':
            chk.fail(dict(restriction_features(T(i), T(i), 'true', 'false'), law='reflexive'), case, 'holds', 'violated',
                     what=f'{texts[i - 1]} is not a subtype of itself')
    for i, j, exp in [(i, j, 'false') for i, j in sorted(printed(r2.output, 'subextra')[0])] + \
            [(i, j, 'true') for i, j in sorted(printed(r2.output, 'submissing')[0])]:
        n_law += 1
        obs = restriction(texts[j - 1], texts[i - 1])       # confirmation through the real API
        if obs != exp:
            chk.fail(restriction_features(T(i), T(j), exp, obs), dict(kind='restriction', sup=texts[j - 1], sub=texts[i - 1]),
                     exp, obs, what=f'is_sequence_type_restriction({texts[j - 1]!r}, {texts[i - 1]!r})')
    for i, j, k, dev in sorted(printed(r2.output, 'nontransitive')[0]):
        case = dict(kind='law', law='transitive', types=[texts[i - 1], texts[j - 1], texts[k - 1]])
        n_law += 1
        if confirm_law(case) != 'violated':
            raise tla.MachineryError(f'TLC counterexample not confirmed by the API: {case}')
        a, b = {'ij': (i, j), 'jk': (j, k), 'ik': (i, k), 'none': (i, k)}[dev]
        feat = restriction_features(T(a), T(b), 'false' if dev in ('ij', 'jk') else 'true',
                                    'true' if dev in ('ij', 'jk') else 'false')
        chk.fail(dict(feat, law='transitive', dev=dev), case, 'holds', 'violated',
                 what=f'{texts[i - 1]} <= {texts[j - 1]} <= {texts[k - 1]} but not {texts[i - 1]} <= {texts[k - 1]}')
    for v, s, t, dev in sorted(printed(r2.output, 'unsound')[0]):
        case = dict(kind='law', law='sound', vtext=vtexts[v - 1], types=[texts[s - 1], texts[t - 1]])
        n_law += 1
        if confirm_law(case) != 'violated':
            raise tla.MachineryError(f'TLC counterexample not confirmed by the API: {case}')
        if dev == 'sub':
            feat = restriction_features(T(s), T(t), 'false', 'true')
        else:
            ti = s if dev == 'matchS' else t
            inst = dict(op='instance', api='select', spelling='min', srckind='var', parser='3.1', ctx='item')
            feat = features_of(inst, T(ti), values[v - 1], 'false' if dev == 'matchS' else 'true',
                               'true' if dev == 'matchS' else 'false')
        chk.fail(dict(feat, law='sound', dev=dev), case, 'holds', 'violated',
                 what=f'{vtexts[v - 1]} instance of {texts[s - 1]}, {texts[s - 1]} <= {texts[t - 1]}, '
                      f'but not instance of {texts[t - 1]}')
    chk.add('evaluations', n_law)
    # self-check of the harness: the value-level differences TLC finds on the exported `instance of`
    # table are exactly the binding-A failures of the same configuration
    c_diff = {(v, j) for v, j in printed(r2.output, 'matchdiff')[0]}
    if c_diff != a_diff:
        raise tla.MachineryError(f'binding A and binding C disagree on {len(c_diff ^ a_diff)} (value, type) pairs: '
                                 f'{sorted(c_diff ^ a_diff)[:5]}')
    chk.coverage['law_counterexamples_confirmed'] = n_law
    print(f'  binding C: impl pairs sub={sizes[1]} (spec {sizes[2]}) instance={sizes[3]} (spec {sizes[4]}) '
          f'counterexamples={n_law} tlc={r2.wall_s:.1f}s', flush=True)

    # ---- 4. signature conformance (every parser version's own table) ----------------------
    plan = sorted(printed(r2.output, 'callplan')[0])
    nvar = N_VARIANTS[tier]
    calls, seen_calls = [], set()
    n_special = 0
    values_by_idx = values
    for si, args in plan:
        for k in range(nvar):
            # variant k, rotated by the argument position so that the arguments of one call differ
            argtexts = tuple(value_text(values_by_idx[a - 1], k + n) for n, a in enumerate(args))
            if (si, argtexts) in seen_calls:
                continue
            seen_calls.add((si, argtexts))
            calls.append((si, sigs[si - 1], args, list(argtexts)))
        # special-case literals: one argument position at a time, the others at their first variant
        base = [value_text(values_by_idx[a - 1], n) for n, a in enumerate(args)]
        for pos, a in enumerate(args):
            for lit in special_variants(sigs[si - 1], values_by_idx[a - 1]):
                argtexts = tuple(base[:pos] + [lit] + base[pos + 1:])
                if (si, argtexts) in seen_calls:
                    continue
                seen_calls.add((si, argtexts))
                calls.append((si, sigs[si - 1], args, list(argtexts)))
                n_special += 1
    res = []
    for ch in core.pool_map(run_calls, [(text2idx, types, c) for c in core.chunked(calls, 4 * procs)], procs=procs):
        res += ch
    chk.add('evaluations', len(res))
    outcomes: dict[str, int] = {}
    obs_rows, obs_key = [], {}
    cases = []
    ok_calls = {(s['ver'], s['name'], s['arity']): 0 for s in sigs}
    n_escaped = 0
    for si, args, mode, expr, outcome, pv, rep, argtexts in res:
        cls = outcome if outcome == 'value' else outcome.split(':')[0]
        outcomes[cls] = outcomes.get(cls, 0) + 1
        sig = sigs[si - 1]
        case = dict(kind='call', ver=sig['ver'], name=sig['name'], arity=sig['arity'], mode=mode, expr=expr, tier=tier,
                    argtexts=list(argtexts), declared=sig['r'])
        if outcome == 'value':
            ok_calls[(sig['ver'], sig['name'], sig['arity'])] += 1
            if pv is None:
                outcomes['unprojectable'] = outcomes.get('unprojectable', 0) + 1
                continue
            key = (text2idx[sig['r']], tla.to_tla(pv))
            if key not in obs_key:
                obs_key[key] = len(obs_rows) + 1
                obs_rows.append(key)
            case['obs'] = obs_key[key]
            case['pv'] = pv
            case['rep'] = rep
            cases.append(case)
        elif cls in ('escaped', 'hang'):
            # C03 territory; recorded, not judged here (the property exempts calls that raise a coded error only)
            n_escaped += 1
            if n_escaped <= 5:
                chk.note(f'call {expr} ({sig["ver"]}) with {case["argtexts"]}: {outcome}')
    chk.coverage['call_outcomes'] = outcomes
    never = sorted(f'{n}#{a} ({v})' for (v, n, a), c in ok_calls.items() if c == 0)
    chk.coverage['special_literal_calls'] = n_special
    chk.coverage['harvested_literals'] = {f'{k[1]} ({k[0]})': v for k, v in sorted(_harvest_cache.items()) if v}
    chk.coverage['functions_called'] = len(ok_calls)
    chk.coverage['functions_with_successful_call'] = len(ok_calls) - len(never)
    chk.coverage['functions_without_successful_call'] = never
    chk.coverage['successful_calls_per_function_min_median_max'] = (
        lambda xs: [xs[0], xs[len(xs) // 2], xs[-1]])(sorted(ok_calls.values()))
    if not obs_rows:
        raise tla.MachineryError('no function call returned a value: conformance check is vacuous')
    obs = '<<' + ',\n  '.join('[r |-> %d, res |-> %s]' % k for k in obs_rows) + '>>'
    wd3 = os.path.join(chk.scratch, 'obs')
    r3 = tlc_constants('Obs_C18', OBS_MODULE % dict(obs=obs), wd3, tier, 'ObsInit', 'ObsNext', 'Obs_C18 (call results)', snapshot)
    chk.model(f'Obs_C18/{tier}', r3)
    bad = set(printed(r3.output, 'bad')[0])
    if printed(r3.output, 'nobs')[0] != len(obs_rows):
        raise tla.MachineryError('Obs_C18: row count mismatch')
    for case in cases:
        if case['obs'] in bad:
            pv = case.pop('pv')
            chk.fail(dict(op='call', fn=case['name'], arity=case['arity'], mode=case['mode'], parser=case['ver'],
                          declared=case['declared'], result=result_kind(pv)), case, 'matches',
                     'mismatch:' + result_kind(pv),
                     what=f"{case['expr']} ({case['ver']}) with {case['argtexts']} returned {case['rep']}, "
                          f"declared {case['declared']}")
    chk.add('traces_validated_against_impl', len(cases))
    chk.sample(dict(call=cases[0]['expr'], args=cases[0]['argtexts'], declared=cases[0]['declared'], result=cases[0]['rep']))
    print(f'  conformance: signatures={len(sigs)}/{len(sigs_all)} (2.0+3.0+3.1 tables) calls={len(res)} values={len(cases)} '
          f'functions without a successful call={len(never)} distinct results={len(obs_rows)} mismatching={len(bad)} '
          f'tlc={r3.wall_s:.1f}s', flush=True)

    # ---- 5. histories of judgements on derived function items ---------------------------
    run_histories(chk, tier, procs)
    # ---- 6. kind tests under static namespace contexts; treat as through consumers --------
    run_static_ns(chk, tier, procs)
    run_consumers(chk, tier, procs)
    chk.coverage['exhaustive'] = True
    chk.coverage['rule'] = (
        'every edge of the TLC graph of SeqTypes (value x sequence type x {instance of, treat as}, chains of 2) is one '
        'case, replayed in several type spellings / operand spellings / parsers / APIs; every ordered pair of types and '
        'every (value, type) of the universe is exported for the laws; every exported signature inside the universe is '
        'called with TLC-chosen arguments (all parser versions, several concrete variants per argument); every state of '
        'FnItemHist (judgements on a function item and its partial applications within one evaluation) is one expression; '
        'every initial state of NsInit (item x default element namespace x element/attribute test with prefixed / unprefixed '
        'name and type argument x operator) and of CInit (value x type x consumer of the treat expression x entry point; '
        'entry point rotated in quick) is one expression.  '
        'distinct_nontrivial = distinct (operand, type, operator) with a non-empty '
        'operand and an item type other than item()/empty-sequence()')
