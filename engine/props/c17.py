"""C17 -- JSON and XML serialisation round-trip through their parsers.

Specs (TLC is the source of every expected value):
  spec/JsonChars.tla     characters, code points, definitional RFC 8259 escaping (pure operators)
  spec/JsonString.tla    character-level step machine src --EscChar*--> txt --UnescChar*--> out, law
                         Unescape(Escape(s)) = s for every rendering; as-implemented transcription of
                         helpers.unescape_json_string (replace chain) as a second branch
  spec/JsonModel.tla     value-state machine over the three representations XDM / JSON text (tokens) /
                         json-to-xml element tree, actions Serialize ParseJson(dup) JsonToXml(esc,dup)
                         XmlToJson, law: the abstract value is unchanged around every cycle
  spec/XmlRoundTrip.tla  serializer / tree-builder step machine over the trees of spec/XDM.tla

Binding A.  The dumped graphs are the test plan:
  JsonString  every (src, txt) of a phase="escaped" state: parse-json('"txt"'), xml-to-json(json-to-xml(..))
              with escape false/true, the same with txt as an object key, serialize($src) and its
              parse-json cycle; key pairs the as-implemented chain identifies -> xml-to-json must accept both
  JsonModel   every edge, source state rendered from the spec: Serialize (+ the cycle
              parse-json(serialize($v)) and deep-equal), ParseJson(dup), JsonToXml(esc,dup);XmlToJson,
              XmlToJson on the spec's element tree (xml.etree and lxml)
  XmlRoundTrip every (tree, context node): deep-equal(node, parse-xml(serialize(node))) and the
              structure of the parsed tree, xml.etree and lxml, document and element roots, plain /
              namespaced / markup-character / non-NFC content
Projection is dumb: python json.loads for JSON texts (it is also the second oracle of the spec:
json.loads(rendered spec text) must equal the spec's abstract value, else MachineryError), an XPath-level
walk for maps/arrays, an ElementTree walk for parsed XML.  Numbers are compared as doubles (fn:parse-json
yields xs:double); number spelling, whitespace and member order are free.
Excluded: byte encodings, serialization parameters other than method, fn:parse-json escape=true.
"""
from __future__ import annotations

import json
import os
import re
import signal
import time
from concurrent.futures import ThreadPoolExecutor
from decimal import Decimal
from fractions import Fraction

from .. import core, tla
from ..xmlbind import Doc

FN = 'http://www.w3.org/2005/xpath-functions'
PROCS = int(os.environ.get('C17_PROCS', '8'))

# ---------------------------------------------------------------------------------------------
# binding table: character ids of spec/JsonChars.tla -> characters
CH = {1: 'a', 2: '"', 3: '\\', 4: '/', 5: 'n', 6: 'u', 7: '\n', 8: '\x01', 9: '\x7f', 10: '\U0001F600',
      11: '�', 12: '\ufeff', 13: '\u2028', 14: '\u2029', 15: '\x85', 16: '\xa0', 17: '\ufffe', 18: '\uffff', 50: '\ud83d', 51: '\ude00'}
CH.update({20 + i: str(i) for i in range(10)})
CH.update({30 + i: 'ABCDEF'[i] for i in range(6)})
CH.update({41 + i: 'bcdef'[i] for i in range(5)})

# binding table of the static-context configurations (constant StaticCfgs of the specs): keyword arguments
# of the parser that evaluates the expression.  The laws do not mention the configuration.
NS_B = 'urn:c17:b'
STATIC = {
    'default': {},
    'base-abs': dict(base_uri='http://example.com/base/'),
    'base-rel': dict(base_uri='rel/dir/'),
    'collation': dict(default_collation='http://www.w3.org/2005/xpath-functions/collation/html-ascii-case-insensitive'),
    'ns-prefix': dict(namespaces={'p': NS_B, 'q': 'urn:c17:q'}),
    'ns-default': dict(namespaces={'': 'urn:c17:default', 'p': NS_B}),
    'xsd11': dict(xsd_version='1.1'),
    'nonstrict': dict(strict=False),
    'compat': dict(compatibility_mode=True),
    # the context node is not the caller's tree but comes from fn:parse-xml of a source TEXT (chain of two round
    # trips, law Idempotent): text nodes written as CDATA sections / with character references
    'origin-cdata': {},
    'origin-charref': {},
}
XML_CFGS = set(STATIC)
JSON_CFGS = {'default', 'base-abs', 'xsd11'}


BASE = set(range(1, 11))                 # SourceChars of spec/JsonChars.tla
SPECIALS = {1} | set(range(12, 19))      # 'a' + SpecialChars: raw U+FEFF U+2028 U+2029 U+0085 U+00A0 U+FFFE U+FFFF
TIERS = {
    'quick': dict(strings=[('all2', dict(MaxLen=2, Alpha=BASE, FormMode='all', Pols=set())),
                           ('pol3', dict(MaxLen=3, Alpha=BASE, FormMode='policy', Pols={'canon', 'U', 'py'}, _replay_pols=('canon', 'U'))),
                           ('special3', dict(MaxLen=3, Alpha=SPECIALS, FormMode='policy', Pols={'min', 'py'}, _replay_pols=('min',)))],
                  model=dict(Universe='quick', MaxDepth=8, StaticCfgs=JSON_CFGS),
                  xml=[('N3', dict(N=3, Kinds={"ea", "eb", "t", "c", "p", "xa", "xc"}, RootCfg="R1", StaticCfgs=XML_CFGS,
                                   PrologMode='all', Alphabets={'ascii', 'astral'}))]),
    'thorough': dict(strings=[('all3', dict(MaxLen=3, Alpha=BASE, FormMode='all', Pols=set())),
                              ('pol3', dict(MaxLen=3, Alpha=BASE, FormMode='policy', Pols={'canon', 'min', 'U', 'l', 'py'})),
                              ('pol4', dict(MaxLen=4, Alpha=BASE, FormMode='policy', Pols={'canon', 'U'})),
                              ('special3', dict(MaxLen=3, Alpha=SPECIALS | {2, 3}, FormMode='policy', Pols={'canon', 'min', 'py'})),
                              ('special2all', dict(MaxLen=2, Alpha=SPECIALS | {2, 3}, FormMode='all', Pols=set()))],
                     model=dict(Universe='thorough', MaxDepth=8, StaticCfgs=JSON_CFGS),
                     xml=[('N3', dict(N=3, Kinds={"ea", "eb", "t", "c", "p", "xa", "xc"}, RootCfg="R1", StaticCfgs=XML_CFGS,
                                      PrologMode='all', Alphabets={'ascii', 'latin', 'astral'})),
                          ('N4', dict(N=4, Kinds={"ea", "eb", "t", "c", "p", "xa", "xc"}, RootCfg="R1",
                                      StaticCfgs={'default', 'base-abs', 'ns-default', 'origin-cdata'}, PrologMode='none', Alphabets={'ascii', 'latin'}))]),
}


def S(ids) -> str:
    return ''.join(CH[i] for i in ids)


# symbolic numbers of spec/JsonModel.tla (e = Sym): index -> decimal numeral.  17 significant digits, integers
# beyond 2^53, the largest finite / smallest positive double, a long decimal, a big exponent
SYM_E = 1000
SYM = {1: '0.30000000000000004', 2: '1.0000000000000002', 3: '9007199254740993', 4: '1.7976931348623157e308',
       5: '5e-324', 6: '18446744073709551616', 7: '0.1000000000000000055511151231257827', 8: '1.5e+300',
       9: '123456789012345678', 10: '-2.2250738585072014e-308'}
if len({float(x) for x in SYM.values()}) != len(SYM):
    raise tla.MachineryError('symbolic numbers must denote distinct doubles')


def numd(m: int, e: int) -> Decimal:
    return Decimal(SYM[m]) if e == SYM_E else Decimal(m).scaleb(e)


def numspell(m: int, e: int, sp: str) -> str:
    """lexical spellings of the JSON number m*10^e (dumb rendering; checked against Decimal)"""
    d = numd(m, e)
    if e == SYM_E:
        return SYM[m]
    plain = format(d, 'f')
    if sp in ('canon', 'plain'):
        out = plain
    elif sp == 'exp':
        out = f'{m}e{e}'
    elif sp == 'Exp':
        out = f'{m}E{e}'
    elif sp == 'expplus':
        out = f'{m}e+{e}' if e >= 0 else f'{m}e{e}'
    elif sp == 'frac':
        out = plain if '.' in plain else plain + '.0'
    elif sp == 'dexp':
        out = f'{m}.0e{e}'
    elif sp == 'negzero':
        out = '-0'
    else:
        raise tla.MachineryError(f'unknown number spelling {sp}')
    if Decimal(out) != d:
        raise tla.MachineryError(f'number rendering {out!r} is not {m}e{e}')
    return out


# ---------------------------------------------------------------------------------------------
# canonical abstract values: JSON-able nested lists  ['z'] ['b',x] ['n',float] ['s',str] ['a',[..]] ['o',[[k,v]..]]
def canon_av(a) -> list:
    t = a['t']
    if t == 'null':
        return ['z']
    if t == 'bool':
        return ['b', bool(a['b'])]
    if t == 'num':
        return ['n', float(numd(a['m'], a['e']))]
    if t == 'str':
        return ['s', S(a['s'])]
    if t == 'arr':
        return ['a', [canon_av(x) for x in a['items']]]
    if t == 'obj':
        return ['o', sorted(([S(k), canon_av(v)] for k, v in dict(a['o']).items()), key=lambda p: p[0])]
    if t == 'err':
        return ['err']
    raise tla.MachineryError(f'unknown abstract value {a!r}')


class _Obj(list):
    pass


def canon_json(text: str):
    """python json as projection of a JSON text (first member wins); returns (canon, had_duplicate_keys)"""
    dup = [False]

    def conv(x):
        if x is None:
            return ['z']
        if isinstance(x, bool):
            return ['b', x]
        if isinstance(x, (Decimal, int, float)):
            return ['n', float(x)]
        if isinstance(x, str):
            return ['s', x]
        if isinstance(x, _Obj):
            d = {}
            for k, v in x:
                if k in d:
                    dup[0] = True
                    continue
                d[k] = conv(v)
            return ['o', sorted(([k, v] for k, v in d.items()), key=lambda p: p[0])]
        if isinstance(x, list):
            return ['a', [conv(y) for y in x]]
        raise ValueError(type(x))

    def bad_constant(s):
        raise ValueError(s)

    v = json.loads(text, object_pairs_hook=_Obj, parse_float=Decimal, parse_int=Decimal, parse_constant=bad_constant)
    return conv(v), dup[0]


def canon_proj(flat) -> list:
    """result of the XPath-level walk PROJ -> canon"""
    if not isinstance(flat, list):
        flat = [flat]
    pos = [0]

    def val():
        t = flat[pos[0]]
        pos[0] += 1
        if t == 'N':
            return ['z']
        if t in ('B', 'S', 'D'):
            v = flat[pos[0]]
            pos[0] += 1
            return ['b', bool(v)] if t == 'B' else ['s', str(v)] if t == 'S' else ['n', float(v)]
        if t == '[':
            items = []
            while not (isinstance(flat[pos[0]], str) and flat[pos[0]] == ']'):
                items.append(val())
            pos[0] += 1
            return ['a', items]
        if t == '{':
            pairs = []
            while not (isinstance(flat[pos[0]], str) and flat[pos[0]] == '}'):
                k = flat[pos[0] + 1]
                pos[0] += 2
                pairs.append([str(k), val()])
            pos[0] += 1
            return ['o', sorted(pairs, key=lambda p: p[0])]
        return ['?', str(t)]

    try:
        v = val()
    except IndexError:
        return ['?', 'truncated']
    return v if pos[0] == len(flat) else ['?', 'trailing']


def _atom(x: str) -> str:
    return (f"(if (empty({x})) then 'N' else if (count({x}) gt 1) then 'SEQ' else if ({x} instance of xs:boolean) "
            f"then ('B', {x}) else if ({x} instance of xs:string) then ('S', {x}) "
            f"else if ({x} instance of xs:numeric) then ('D', {x}) else 'OTHER')")


def _proj(x: str, depth: int, lvl: int = 0) -> str:
    if depth == 0:
        return _atom(x)
    i, k, m = f'$i{lvl}', f'$k{lvl}', f'$m{lvl}'
    return (f"(if ({x} instance of array(*)) then ('[', (for {i} in 1 to array:size({x}) return "
            f"(let {m} := {x}({i}) return {_proj(m, depth - 1, lvl + 1)})), ']') "
            f"else if ({x} instance of map(*)) then ('{{', (for {k} in map:keys({x}) return "
            f"('K', {k}, (let {m} := {x}({k}) return {_proj(m, depth - 1, lvl + 1)}))), '}}') else {_atom(x)})")


PROJ = _proj('$r', 3)      # flat preorder walk of $r (maps / arrays nested up to 3 deep)
JSON_OPT = 'map{"method":"json"}'


# ---------------------------------------------------------------------------------------------
# rendering of spec values
def render_xv(v, variables: list, seq1: bool = False, member: bool = False) -> str:
    """XDM value of JsonModel -> XPath constructor text; atoms are passed as variables.
    seq1: an atomic member / entry value is spelled as the singleton sequence (ATOM)[1] -- in XDM an item
    and the sequence of length one containing it are the same value"""
    t = v['t']
    if t == 'empty':
        return '()'
    if t == 'bool':
        a = 'true()' if v['b'] else 'false()'
        return f'({a})[1]' if seq1 and member else a
    name = f'a{len(variables)}'
    if t == 'str':
        variables.append([name, 's', S(v['s'])])
        return f'(${name})[1]' if seq1 and member else '$' + name
    if t == 'num':
        lex = format(numd(v['m'], v['e']), 'f')
        variables.append([name, {'int': 'i', 'dec': 'd', 'dbl': 'f'}[v['ty']], lex])
        return f'(${name})[1]' if seq1 and member else '$' + name
    if t == 'arr':
        return '[' + ', '.join(render_xv(x, variables, seq1, True) for x in v['items']) + ']'
    if t == 'map':
        parts = []
        for k, x in sorted(dict(v['o']).items()):
            kn = f'a{len(variables)}'
            variables.append([kn, 's', S(k)])
            parts.append(f'${kn}: {render_xv(x, variables, seq1, True)}')
        return 'map{' + ', '.join(parts) + '}'
    raise tla.MachineryError(f'unknown XDM value {v!r}')


def mkvars(variables: list) -> dict:
    out = {}
    for name, ty, lex in variables:
        out[name] = lex if ty == 's' else int(lex) if ty == 'i' else Decimal(lex) if ty == 'd' else float(lex)
    return out


def render_tokens(ts, spaced: bool = False) -> str:
    parts = []
    for t in ts:
        k = t['k']
        parts.append('"' + S(t['x']) + '"' if k == 'str' else numspell(t['m'], t['e'], t['sp']) if k == 'num' else k)
    return (' ' + ' \n\t'.join(parts) + '\r\n') if spaced else ''.join(parts)


def build_xe(xe, mod):
    """element tree of JsonModel -> real elements (xml.etree or lxml)"""
    el = mod.Element('{%s}%s' % (FN, xe['tag']))
    if xe['hk']:
        el.set('key', S(xe['key']))
    if xe['ek']:
        el.set('escaped-key', 'true')
    tag = xe['tag']
    if tag == 'boolean':
        el.text = 'true' if xe['b'] else 'false'
    elif tag == 'number':
        el.text = numspell(xe['m'], xe['e'], 'canon')
    elif tag == 'string':
        if xe['esc']:
            el.set('escaped', 'true')
        if xe['s']:
            el.text = S(xe['s'])
    elif tag in ('array', 'map'):
        for kid in xe['kids']:
            el.append(build_xe(kid, mod))
    return el


def xe_jsonable(xe):
    d = {k: (list(v) if isinstance(v, tuple) and k in ('key', 's') else v) for k, v in xe.items() if k != 'kids'}
    if 'kids' in xe:
        d['kids'] = [xe_jsonable(k) for k in xe['kids']]
    return d


# ---------------------------------------------------------------------------------------------
# abstract features of a case (for class fingerprints)
SPECIAL_KEY_CHARS = ('\\', '/', '\n', '\x7f', '\x01')


def _walk(c, f: dict):
    t = c[0]
    if t == 's':
        _strflags(c[1], 'str', f)
    elif t == 'n':
        if c[1] != 0:
            x = Decimal(repr(c[1])).adjusted()          # scientific exponent
            if x >= 16 or x <= -5:
                f['num_exp'] = True
                if x % 10 == 0:
                    f['num_exp_ends0'] = True
    elif t == 'a':
        for y in c[1]:
            _walk(y, f)
    elif t == 'o':
        if sum(1 for k, _ in c[1] if '\\' in k) >= 2:
            f['keys_bs_pair'] = True
        keys = [k for k, _ in c[1]]
        for k1 in keys:              # one key is what another one would be if it were JSON-unescaped once more
            m = re.fullmatch(r'(.*?)\\(u[0-9A-Fa-f]{4}|["\\/bfnrt])(.*)', k1, re.S)
            if m:
                try:
                    once = json.loads('"' + k1.replace('\n', '\\n').replace('\x7f', '\\u007f') + '"')
                except ValueError:
                    continue
                if once != k1 and once in keys:
                    f['keys_unescape_pair'] = m.group(2)[0] if m.group(2)[0] != '\\' else 'bs'
        for k, y in c[1]:
            _strflags(k, 'key', f)
            _walk(y, f)
            if y[0] == 'z':
                f['keyed_null'] = True
            elif y[0] != 's':
                f['keyed_nonstr'] = True
            if y[0] != 's' and any(ch in k for ch in SPECIAL_KEY_CHARS):
                f['keyed_nonstr_special'] = True


_LOOKS_ESCAPED = re.compile(r'\\(?:u[0-9A-Fa-f]{4}|["\\/bfnrt])')


def _strflags(s: str, where: str, f: dict):
    if '\\' in s:
        f[where + '_bs'] = f['bs'] = True
        if '\\' in _LOOKS_ESCAPED.sub('', s):
            f['bs_invalid_looking'] = True   # a backslash that would NOT be a well-formed escape if the value were read as escaped text
        if re.search(r'\\u[0-9A-Fa-f]{4}', s):
            f['bs_u_hex'] = True             # backslash u + four hex digits as VALUE characters
        if re.search(r'\\\\u(?![0-9A-Fa-f]{4})', s):
            f['bs_bs_u'] = True              # two backslashes and u, not followed by four hex digits
    if '/' in s:
        f[where + '_slash'] = f['slash'] = True
    if '"' in s:
        f[where + '_quote'] = f['quote'] = True
    if '\n' in s or '\x7f' in s:
        f[where + '_ctl'] = True
    if '\x01' in s:
        f['nonxml'] = True
    if '\U0001F600' in s:
        f['astral'] = True


FLAGS = ['str_bs', 'key_bs', 'bs', 'bs_invalid_looking', 'bs_u_hex', 'bs_bs_u', 'str_slash', 'key_slash', 'slash', 'str_quote', 'key_quote', 'quote', 'str_ctl', 'key_ctl',
         'nonxml', 'astral', 'num_exp', 'num_exp_ends0', 'keyed_null', 'keyed_nonstr', 'keyed_nonstr_special', 'keys_bs_pair', 'keys_unescape_pair']


def flags_of(canon) -> dict:
    """abstract features of a JSON value (class fingerprints are sub-patterns of these)"""
    f = {k: False for k in FLAGS}
    if canon and canon[0] not in ('err', '?'):
        _walk(canon, f)
    return f


def first_diff(exp, obs) -> str:
    """kind of the first difference between two canonical values"""
    if exp[0] != obs[0]:
        return f'type:{exp[0]}/{obs[0]}'
    t = exp[0]
    if t == 'n':
        if exp[1] == obs[1]:
            return ''
        if exp[1] and obs[1]:
            r = Decimal(repr(obs[1])) / Decimal(repr(exp[1]))
            if r > 0 and r.log10() == r.log10().to_integral_value():
                return 'num:pow10'
        return 'num'
    if t == 's':
        if exp[1] == obs[1]:
            return ''
        if '&#' in obs[1]:
            return 'str:charref'
        if obs[1].replace('\\', '') == exp[1].replace('\\', ''):
            return 'str:backslashes'
        if '�' in obs[1]:
            return 'str:replaced'
        return 'str'
    if t == 'b':
        return '' if exp[1] == obs[1] else 'bool'
    if t == 'a':
        if len(exp[1]) != len(obs[1]):
            return 'len'
        for x, y in zip(exp[1], obs[1]):
            d = first_diff(x, y)
            if d:
                return d
        return ''
    if t == 'o':
        if [p[0] for p in exp[1]] != [p[0] for p in obs[1]]:
            ek, ok = [p[0] for p in exp[1]], [p[0] for p in obs[1]]
            if len(ek) == len(ok):
                for a, b in zip(ek, ok):
                    if a != b:
                        return 'key' + first_diff(['s', a], ['s', b])[3:]
            return 'keys'
        for x, y in zip(exp[1], obs[1]):
            d = first_diff(x[1], y[1])
            if d:
                return d
        return ''
    return ''


# ---------------------------------------------------------------------------------------------
# calling the implementation (public API only)
class _Hang(Exception):
    pass


def _alarm(signum, frame):
    raise _Hang()


_P31 = None
_SELECTORS: dict = {}

def call(expr: str, variables=None, root=None, cache: bool = False, cfg: str = 'default'):
    """outcome classes: ('ok', value) | ('err', code) | ('escaped', ExceptionClass) | ('hang',)"""
    global _P31
    import elementpath
    from elementpath.exceptions import ElementPathError
    if _P31 is None:
        from elementpath.xpath31 import XPath31Parser
        _P31 = XPath31Parser
        signal.signal(signal.SIGALRM, _alarm)
        signal.signal(signal.SIGPROF, _alarm)
    kw = {'item': 1} if root is None else {}
    pk = dict(STATIC[cfg])
    ns = pk.pop('namespaces', None)
    # hang detector: 60 s of CPU time of this process (the machine may be heavily loaded: wall-clock time says
    # nothing), 30 min wall clock as a backstop for a blocked call
    signal.setitimer(signal.ITIMER_PROF, 60)
    signal.alarm(1800)
    try:
        if cache:        # constant expression text, only the variable values change: parse once
            sel = _SELECTORS.get((expr, cfg))
            if sel is None:
                sel = _SELECTORS[(expr, cfg)] = elementpath.Selector(expr, namespaces=ns, parser=_P31, **pk)
            return ('ok', sel.select(root, variables=variables, **kw))
        return ('ok', elementpath.select(root, expr, namespaces=ns, variables=variables, parser=_P31, **kw, **pk))
    except ElementPathError as e:
        return ('err', (e.code or '').split(':')[-1])
    except _Hang:
        return ('hang',)
    except RecursionError:
        return ('escaped', 'RecursionError')
    except Exception as e:  # noqa
        return ('escaped', type(e).__name__)
    finally:
        signal.setitimer(signal.ITIMER_PROF, 0)
        signal.alarm(0)


def judge_text(res, exp):
    """res: outcome of an expression returning a JSON text; exp: canon or ['err'] -> (outcome, diff, observed)"""
    if exp == ['err']:
        if res[0] == 'err':
            return None, '', res
        return ('value_instead_of_error' if res[0] == 'ok' else f'{res[0]}:{res[-1]}'), '', res
    if res[0] == 'err':
        return f'error:{res[1]}', '', res
    if res[0] != 'ok':
        return f'{res[0]}:{res[-1]}', '', res
    text = res[1]
    if isinstance(text, list) and len(text) == 1:
        text = text[0]
    if not isinstance(text, str):
        return 'not_a_string', '', repr(text)
    try:
        obs, dup = canon_json(text)
    except (ValueError, RecursionError):
        return 'not_json', '', text          # the independent JSON parser rejects the text
    if dup:
        return 'duplicate_keys_in_text', '', text
    d = first_diff(exp, obs)
    return ('value' if d else None), d, text


def judge_proj(res, exp):
    if exp == ['err']:
        if res[0] == 'err':
            return None, '', res
        return ('value_instead_of_error' if res[0] == 'ok' else f'{res[0]}:{res[-1]}'), '', res
    if res[0] == 'err':
        return f'error:{res[1]}', '', res
    if res[0] != 'ok':
        return f'{res[0]}:{res[-1]}', '', res
    obs = canon_proj(res[1])
    d = first_diff(exp, obs)
    return ('value' if d else None), d, obs


# one evaluation = one dict {law, expr, vars, judge, exp, opts...}; run_eval is shared by worker and replay
def run_eval(ev: dict):
    """-> (outcome or None, diff, observed)"""
    kind = ev['judge']
    root = None
    if 'xe' in ev:
        import xml.etree.ElementTree as ET
        import lxml.etree as LX
        mod = ET if ev['lib'] == 'etree' else LX
        el = build_xe(ev['xe'], mod)
        root = ET.ElementTree(el) if ev['lib'] == 'etree' else el.getroottree()
    res = call(ev['expr'], mkvars(ev.get('vars', [])) or None, root, cache='serialize(' not in ev['expr'],
               cfg=ev.get('opts', {}).get('cfg', 'default'))
    if kind == 'text':
        return judge_text(res, ev['exp'])
    if kind == 'proj':
        return judge_proj(res, ev['exp'])
    if kind == 'true':          # the expression must be true()
        if res[0] != 'ok':
            return (f'error:{res[1]}' if res[0] == 'err' else f'{res[0]}:{res[-1]}'), '', res
        v = res[1]
        if isinstance(v, list) and len(v) == 1:
            v = v[0]
        return (None if v is True else 'false'), '', v
    raise tla.MachineryError(f'unknown judge {kind}')


def json_worker(evs: list):
    fails = []
    n = 0
    for ev in evs:
        out, diff, obs = run_eval(ev)
        n += 1
        if out is not None:
            feat = dict(law=ev['law'], outcome=out, diff=diff, **ev.get('opts', {}))
            feat.update(ev['flags'])
            case = {k: v for k, v in ev.items() if k not in ('flags',)}
            fails.append((feat, case, ev['exp'], obs))
    return n, fails


# ---------------------------------------------------------------------------------------------
# JsonString: vectors
def load_nodes(path: str, needles: tuple) -> list:
    """states of a (large) dot dump whose label mentions one of the needles"""
    out = []
    with open(path, encoding='utf-8') as f:
        for line in f:
            if ' -> ' in line[:45] or not any(n in line for n in needles):
                continue
            m = tla._node_re.match(line)
            if m:
                out.append(tla.parse_state(tla._dot_unescape(m.group(2))))
    return out


def string_evals(src, txt, safe, pol, first: bool) -> list:
    s_src, s_txt, s_safe = S(src), S(txt), S(safe)
    fl_v = flags_of(['s', s_src])
    fl_k = flags_of(['o', [[s_src, ['s', 'a']]]])
    base = dict(pol=pol)
    evs = []
    t_val = '"' + s_txt + '"'
    t_key = '{"' + s_txt + '":"a"}'
    for pos, t, e_safe, e_src, f in (('value', t_val, ['s', s_safe], ['s', s_src], fl_v),
                                     ('key', t_key, ['o', [[s_safe, ['s', 'a']]]], ['o', [[s_src, ['s', 'a']]]], fl_k)):
        v = [['t', 's', t]]
        evs.append(dict(law='parse-json', expr=f'let $r := parse-json($t) return {PROJ}', vars=v, judge='proj',
                        exp=e_safe, opts=dict(base, pos=pos, esc=False, dup='use-first'), flags=f))
        evs.append(dict(law='xml-to-json(json-to-xml)', expr='xml-to-json(json-to-xml($t))', vars=v, judge='text',
                        exp=e_safe, opts=dict(base, pos=pos, esc=False, dup='retain'), flags=f))
        evs.append(dict(law='xml-to-json(json-to-xml)', expr='xml-to-json(json-to-xml($t, map{"escape":true()}))',
                        vars=v, judge='text', exp=e_src, opts=dict(base, pos=pos, esc=True, dup='retain'), flags=f))
    if first and s_safe == s_src:
        v = [['s', 's', s_src]]
        for pos, c, e, f in (('value', '$s', ['s', s_src], fl_v), ('key', 'map{$s: "a"}', ['o', [[s_src, ['s', 'a']]]], fl_k)):
            o = dict(base, pos=pos, pol='impl')
            evs.append(dict(law='serialize', expr=f'serialize({c}, {JSON_OPT})', vars=v, judge='text', exp=e, opts=o, flags=f))
            evs.append(dict(law='parse-json(serialize)', expr=f'let $r := parse-json(serialize({c}, {JSON_OPT})) return {PROJ}',
                            vars=v, judge='proj', exp=e, opts=o, flags=f))
            evs.append(dict(law='deep-equal(parse-json(serialize))',
                            expr=f'let $v := {c} return deep-equal($v, parse-json(serialize($v, {JSON_OPT})))',
                            vars=v, judge='true', exp=True, opts=o, flags=f))
    return evs


def run_strings(chk: core.Check, name: str, consts: dict, r, dot: str) -> list:
    """vectors of one JsonString configuration -> evaluation list"""
    # binding table against the spec's code points
    m = re.search(r'<<\s*"codes",\s*(\(.*?\))\s*>>', r.output, re.S)
    if not m:
        raise tla.MachineryError('JsonString did not print its code table')
    for c, cp in dict(tla.parse_value(m.group(1))).items():
        if c not in CH or ord(CH[c]) != cp:
            raise tla.MachineryError(f'binding character table disagrees with spec/JsonChars at id {c}')
    states = load_nodes(dot, ('phase = \\"escaped\\"', 'phase = \\"impldone\\"'))
    esc = [s for s in states if s['phase'] == 'escaped']
    done = [s for s in states if s['phase'] == 'impldone']
    if not esc or not done:
        raise tla.MachineryError(f'JsonString/{name}: no escaped/impldone states in the dump')
    evs = []
    seen_src = set()
    oracle_bad = []
    n_replayed = 0
    replay_pols = consts.get('_replay_pols')
    for s in sorted(esc, key=lambda s: (len(s['src']), s['src'], len(s['txt']), s['txt'])):
        # second oracle of the SPEC: python json decodes the text to the source string
        try:
            py = json.loads('"' + S(s['txt']) + '"')
        except ValueError:
            py = None
        if py != S(s['src']):
            oracle_bad.append((S(s['src']), S(s['txt']), py))
        first = s['src'] not in seen_src
        seen_src.add(s['src'])
        if replay_pols is not None and len(s['src']) >= consts['MaxLen'] and s['pol'] not in replay_pols and not first:
            continue       # quick tier: the longest strings are replayed in two policies only (TLC checked all)
        n_replayed += 1
        evs += string_evals(s['src'], s['txt'], s['safe'], s['pol'], first)
    if oracle_bad:
        raise tla.MachineryError(f'spec/JsonString disagrees with python json on {oracle_bad[:3]}')
    # key pairs identified by the as-implemented unescape chain although they are different strings
    by_out: dict = {}
    for s in done:
        if s['pol'] == 'canon':       # escape_json_string emits the canonical rendering
            by_out.setdefault((s['pol'], s['out']), set()).add((s['src'], s['txt']))
    pairs = set()
    for (pol, out), group in by_out.items():
        g = sorted(group)
        for i in range(len(g)):
            for j in range(i + 1, len(g)):
                if g[i][0] != g[j][0]:
                    pairs.add((g[i], g[j]))
    n_pairs = 0
    for (a, b) in sorted(pairs)[:400]:
        (s1, t1), (s2, t2) = a, b
        if 8 in s1 or 8 in s2:
            continue
        n_pairs += 1
        text = '{"' + S(t1) + '":"a","' + S(t2) + '":"a"}'
        exp = ['o', sorted([[S(s1), ['s', 'a']], [S(s2), ['s', 'a']]], key=lambda p: p[0])]
        fl = flags_of(exp)
        for e in (False, True):
            opt = ', map{"escape":true()}' if e else ''
            evs.append(dict(law='xml-to-json(json-to-xml)', expr=f'xml-to-json(json-to-xml($t{opt}))', vars=[['t', 's', text]],
                            judge='text', exp=exp, opts=dict(pol='collide', pos='keypair', esc=e, dup='retain'), flags=fl))
    chk.coverage.setdefault('strings', {})[name] = dict(texts=len(esc), texts_replayed=n_replayed, sources=len(seen_src), impl_collision_pairs=n_pairs,
                                                        impl_chain_differs=sum(1 for s in done if s['out'] != s['src']))
    chk.add('traces_validated_against_impl', n_replayed)
    chk.add('distinct_nontrivial', sum(1 for s in esc if s['txt'] != s['src']))
    return evs


# ---------------------------------------------------------------------------------------------
# JsonModel: edges
def xv_flags(v, f: dict, member: bool = False):
    """features of an XDM source value: xs:decimal with more than two fraction digits; xs:decimal that is
    not exactly an xs:double (denominator not a power of two) as a member of an array / map"""
    t = v['t']
    if t == 'num' and v['ty'] == 'dec':
        if v['e'] < -2:
            f['dec_long'] = True
        den = Fraction(numd(v['m'], v['e'])).denominator
        if member and den & (den - 1):
            f['dec_nondyadic_member'] = True
    elif t == 'arr':
        for x in v['items']:
            xv_flags(x, f, True)
    elif t == 'map':
        for x in dict(v['o']).values():
            xv_flags(x, f, True)


def model_evals(g, all_cfgs: bool = False) -> tuple:
    out = g.out()
    evs = []
    oracle_bad = []
    n_edges = 0
    nontrivial = 0
    for sid, st in g.states.items():
        rep = st['rep']
        if rep == 'text':
            text = render_tokens(st['val'])
            try:
                py, _ = canon_json(text)
            except ValueError as e:
                py = ['?', str(e)]
            if py != canon_av(st['abs']):
                oracle_bad.append((text, canon_av(st['abs']), py))
    if oracle_bad:
        raise tla.MachineryError(f'spec/JsonModel disagrees with python json (first member wins) on {oracle_bad[:3]}')
    # anti-vacuity: every action fired, errors and both kinds of lossy step were reached
    acts = {a for _, _, a, _ in g.edges}
    reps = {(st['rep'], tuple(sorted(st['loss']))) for st in g.states.values()}
    need = {('err', ()), ('xdm', ('repl',)), ('xdm', ('last',)), ('xml', ()), ('text', ())}
    if acts != {'Serialize', 'ParseJson', 'JsonToXml', 'XmlToJson'} or not need <= reps:
        raise tla.MachineryError(f'JsonModel graph is vacuous: actions {sorted(acts)}, missing state kinds {sorted(need - reps)}')
    for sid, st in g.states.items():
        rep = st['rep']
        for (d, act, args) in out[sid]:
            n_edges += 1
            dst = g.states[d]
            c, args = args[0], args[1:]          # static-context configuration of the edge
            main = c == 'default'
            full = main or all_cfgs              # quick tier: the other configurations in one spelling only
            if rep == 'xdm' and act == 'Serialize':
                exp = canon_av(dst['abs'])
                fl = flags_of(exp)
                fl['dec_long'] = fl['dec_nondyadic_member'] = False
                xv_flags(st['val'], fl)
                composite = st['val']['t'] in ('arr', 'map')
                if composite and main:
                    nontrivial += 1
                d2 = [x for x in out[d] if x[1] == 'ParseJson' and x[2] == ('default', 'use-first')]
                if len(d2) != 1:
                    raise tla.MachineryError('Serialize successor without ParseJson(use-first) edge')
                exp2 = canon_av(g.states[d2[0][0]]['abs'])
                for seq1 in ((False, True) if composite and full else (False,)):
                    variables: list = []
                    ctor = render_xv(st['val'], variables, seq1)
                    if seq1 and '[1]' not in ctor:
                        continue
                    o = dict(pos='model', cfg=c, spelling='singleton-filter' if seq1 else 'plain')
                    evs.append(dict(law='serialize', expr=f'serialize({ctor}, {JSON_OPT})', vars=variables, judge='text',
                                    exp=exp, opts=o, flags=fl))
                    if not full:
                        continue
                    evs.append(dict(law='parse-json(serialize)',
                                    expr=f'let $r := parse-json(serialize({ctor}, {JSON_OPT})) return {PROJ}',
                                    vars=variables, judge='proj', exp=exp2, opts=o, flags=fl))
                    if exp2 == canon_av(st['abs']):       # ValuePreserved: the cycle is the identity => deep-equal
                        evs.append(dict(law='deep-equal(parse-json(serialize))',
                                        expr=f'let $v := {ctor} return deep-equal($v, parse-json(serialize($v, {JSON_OPT})))',
                                        vars=variables, judge='true', exp=True, opts=o, flags=fl))
            elif rep == 'text' and act == 'ParseJson':
                dup = args[0]
                exp = canon_av(dst['abs'])
                fl = flags_of(canon_av(st['abs']))
                fl['has_dup'] = st['start'] == 'textdup'
                for spaced in ((False, True) if full else (False,)):
                    v = [['t', 's', render_tokens(st['val'], spaced)]]
                    spell = [f'parse-json($t, map{{"duplicates":"{dup}"}})'] + (['parse-json($t)'] if dup == 'use-first' and full else [])
                    for sp in spell:
                        evs.append(dict(law='parse-json', expr=f'let $r := {sp} return {PROJ}', vars=v, judge='proj', exp=exp,
                                        opts=dict(pos='model', cfg=c, dup=dup, esc=False), flags=fl))
            elif rep == 'text' and act == 'JsonToXml':
                esc, dup = args
                if dst['rep'] == 'err':
                    exp = ['err']
                else:
                    nxt = [x for x in out[d] if x[1] == 'XmlToJson' and x[2] == ('default',)]
                    if len(nxt) != 1:
                        raise tla.MachineryError('xml state without XmlToJson edge')
                    exp = canon_av(g.states[nxt[0][0]]['abs'])
                fl = flags_of(canon_av(st['abs']))
                fl['has_dup'] = st['start'] == 'textdup'
                v = [['t', 's', render_tokens(st['val'])]]
                o = f'map{{"escape":{"true()" if esc else "false()"}, "duplicates":"{dup}"}}'
                spell = [f'xml-to-json(json-to-xml($t, {o}))']
                if not esc and dup == 'retain' and full:
                    spell.append('xml-to-json(json-to-xml($t))')
                for sp in spell:
                    evs.append(dict(law='xml-to-json(json-to-xml)', expr=sp, vars=v, judge='text', exp=exp,
                                    opts=dict(pos='model', cfg=c, esc=bool(esc), dup=dup), flags=fl))
            elif rep == 'xml' and act == 'XmlToJson':
                exp = canon_av(dst['abs'])
                fl = flags_of(canon_av(st['abs']))
                fl['has_dup'] = exp == ['err']
                xe = xe_jsonable(st['val'])
                for lib in (('etree', 'lxml') if full else ('etree',)):
                    evs.append(dict(law='xml-to-json', expr='xml-to-json(.)', xe=xe, lib=lib, judge='text', exp=exp,
                                    opts=dict(pos='model', cfg=c, lib=lib, esc=_any_escaped(st['val'])), flags=fl))
            else:
                raise tla.MachineryError(f'unexpected edge {rep} --{act}-->')
    cfgs_seen = {a[0] for _, _, _, a in g.edges}
    if not cfgs_seen <= JSON_CFGS or 'default' not in cfgs_seen:
        raise tla.MachineryError(f'JsonModel edges carry unknown static configurations {sorted(cfgs_seen)}')
    return evs, n_edges, nontrivial


def _any_escaped(xe) -> bool:
    return bool(xe.get('ek') or xe.get('esc') or any(_any_escaped(k) for k in xe.get('kids', ())))


# ---------------------------------------------------------------------------------------------
# XmlRoundTrip
# 'nonnfc': content that is NOT in Unicode normalization form C (base letter + combining mark, the singleton
# decomposables ANGSTROM SIGN and OHM SIGN, unordered combining marks): opaque code points for the spec, the
# round trip must give them back unchanged (the serialization parameter normalization-form defaults to none)
NONNFC = 'e\u0301\u212b\u2126a\u0301\u0323'
# 'big8k' / 'big64k': every text and attribute value is longer than the 8 KB / 64 KB buffers of the serializers
BIG = 'abcdefghi '
SPECIAL = '1 > 0 & ]]> <x> "q" \'%d'
TEXTS = {'plain': 't%d', 'special': SPECIAL, 'markup': '<&>"\'%d', 'nonnfc': NONNFC + '%d', 'big8k': BIG * 900 + '%d', 'big64k': BIG * 7000 + '%d'}
ATTVALS = {'plain': 'v%d', 'special': SPECIAL, 'markup': '<&>"\'\n\t%d', 'nonnfc': NONNFC + '%d', 'big8k': BIG * 900 + '%d',
           'big64k': BIG * 7000 + '%d'}
# binding of the constant Alphabets of spec/XmlRoundTrip.tla (variable alpha): the character that every NAME (element,
# attribute, PI target) and every CONTENT (text, attribute value, comment, PI) carries
ALPHA_CH = {'latin': '\u00e9', 'astral': '\u00e9\U00010400'}
# names: expat (xml.etree) does not accept supplementary-plane characters in names (a limitation of that library,
# not of the code under test): the 'astral' alphabet has them in names with lxml only (variant astral-bmpnames)
ALPHA_NAME = {'latin': '\u00e9', 'astral': '\U00010400', 'astral-bmpnames': '\u00e9'}
ALPHA_CH['astral-bmpnames'] = ALPHA_CH['astral']
for _a, _c in ALPHA_CH.items():
    TEXTS[_a] = 't' + _c + '%d' + _c
    ATTVALS[_a] = 'v' + _c + '%d' + _c
CONTENT_VARIANTS = ('markup', 'nonnfc', 'big8k', 'big64k', 'special') + tuple(ALPHA_CH)


def expected_tree(parent2, kind2, first: int, variant: str):
    """(parent2, kind2) of the spec -> nested [kind, name, attrs, children]; content from the binding table"""
    n = len(kind2)
    kids: dict = {i: [] for i in range(1, n + 1)}
    atts: dict = {i: [] for i in range(1, n + 1)}
    cont = variant if variant in CONTENT_VARIANTS else 'plain'

    ach = ALPHA_CH.get(variant, '')
    nch = ALPHA_NAME.get(variant, '')

    def name(k):
        nm = {'ea': 'a', 'eb': 'b', 'xa': 'a', 'xc': 'c'}[k] + nch
        if variant == 'ns' and k in ('eb', 'xc'):
            return '{%s}%s' % (NS_B, nm)
        return nm

    def node(i):
        k = kind2[i - 1]
        orig = first + i - 1
        if k in ('ea', 'eb'):
            return ['e', name(k), sorted(atts[i]), [node(j) for j in kids[i]]]
        if k == 't':
            return ['t', TEXTS[cont] % orig]
        if k == 'c':
            return ['c', ach + 'c%d' % orig + ach]
        return ['p', 'p' + nch, ach + 'p%d' % orig + ach]

    for i in range(2, n + 1):
        k = kind2[i - 1]
        if k in ('xa', 'xc'):
            atts[parent2[i - 1]].append([name(k), ATTVALS[cont] % (first + i - 1)])
        else:
            kids[parent2[i - 1]].append(i)
    return node(1)


def observed_tree(el):
    """walk of a parsed element (xml.etree or lxml) -> same nested form"""
    if callable(el.tag):
        kind = getattr(el.tag, '__name__', '')
        if 'Comment' in kind:
            return ['c', el.text or '']
        return ['p', getattr(el, 'target', None) or (el.text or '').split(' ')[0],
                (el.text or '') if hasattr(el, 'target') else (el.text or '').partition(' ')[2]]
    ch = []
    if el.text:
        ch.append(['t', el.text])
    for k in el:
        ch.append(observed_tree(k))
        if k.tail:
            ch.append(['t', k.tail])
    return ['e', el.tag, sorted([k, v] for k, v in el.attrib.items()), ch]


def strip_cp(t):
    """the tree without comments and PIs (what F&O deep-equal looks at)"""
    if t[0] != 'e':
        return t
    return ['e', t[1], t[2], [strip_cp(c) for c in t[3] if c[0] not in ('c', 'p')]]


def make_doc(parent, kind, lib: str, variant: str) -> Doc:
    d = Doc(tuple(parent), tuple(kind), lib)
    if variant == 'plain':
        return d
    for i, k in enumerate(kind, start=1):
        if variant == 'ns':
            if k == 'eb':
                d.objs[i].tag = '{%s}b' % NS_B
            elif k == 'xc':
                el = d.objs[parent[i - 1]]
                el.set('{%s}c' % NS_B, el.attrib.pop('c'))
        elif variant in CONTENT_VARIANTS:
            if k in ('xa', 'xc'):
                d.objs[parent[i - 1]].set({'xa': 'a', 'xc': 'c'}[k], ATTVALS[variant] % i)
    if variant in CONTENT_VARIANTS:
        for el in d.root.iter():
            if callable(el.tag):
                continue
            if el.text and el.text[:1] == 't' and el.text[1:].isdigit():
                el.text = TEXTS[variant] % int(el.text[1:])
            for k in el:
                if k.tail and k.tail[:1] == 't':
                    k.tail = TEXTS[variant] % int(k.tail[1:])
    if variant in ALPHA_CH:
        ach, nch = ALPHA_CH[variant], ALPHA_NAME[variant]
        for el in d.root.iter():
            if callable(el.tag):
                if 'Comment' in getattr(el.tag, '__name__', ''):
                    el.text = ach + el.text + ach
                elif hasattr(el, 'target'):          # lxml
                    el.target, el.text = el.target + nch, ach + el.text + ach
                else:                                # xml.etree: text = target + ' ' + content
                    t, _, c = el.text.partition(' ')
                    el.text = t + nch + ' ' + ach + c + ach
                continue
            el.tag = el.tag + nch
            items = list(el.attrib.items())
            for k, _ in items:
                del el.attrib[k]
            for k, v in items:
                el.set(k + nch, v)
    return d


def _charref(text: str) -> str:
    return ''.join('&#%d;' % ord(ch) if ch in '<>&"\'' else ch for ch in text)


def source_text(t, style: str) -> str:
    """nested tree -> XML source TEXT; text nodes as CDATA sections (style 'cdata') or with character references"""
    if t[0] == 't':
        if style == 'cdata':
            return '<![CDATA[' + t[1].replace(']]>', ']]]]><![CDATA[>') + ']]>'
        return _charref(t[1])
    if t[0] == 'c':
        return f'<!--{t[1]}-->'
    if t[0] == 'p':
        return f'<?{t[1]} {t[2]}?>'
    atts = ''.join(f' {k}="{_charref(v)}"' for k, v in t[2])
    return f'<{t[1]}{atts}>' + ''.join(source_text(c, style) for c in t[3]) + f'</{t[1]}>'


def xml_case(case: dict):
    """one (tree, context node, lib, rootkind, variant) -> list of (law, outcome, observed)"""
    parent, kind, ctx = case['parent'], case['kind'], case['ctx']
    cfg = case.get('cfg', 'default')
    prolog = case.get('prolog') or []
    d = make_doc(parent, kind, case['lib'], case['variant'])
    exp_prolog = []
    for j, k in enumerate(prolog):        # children of the document node before the root element (lxml only)
        import lxml.etree as LX
        ach, nch = ALPHA_CH.get(case['variant'], ''), ALPHA_NAME.get(case['variant'], '')
        leaf = LX.Comment(f'{ach}c0{j}{ach}') if k == 'c' else LX.ProcessingInstruction('p' + nch, f'{ach}p0{j}{ach}')
        d.root.addprevious(leaf)
        exp_prolog.append(['c', f'{ach}c0{j}{ach}'] if k == 'c' else ['p', 'p' + nch, f'{ach}p0{j}{ach}'])
    root = d.tree if case['root'] == 'doc' else d.root
    rank = sum(1 for i in range(1, ctx + 1) if kind[i - 1] in ('ea', 'eb'))
    xvars = None
    if cfg.startswith('origin-'):
        # the node comes from fn:parse-xml of a source text; the tree library is chosen by a dummy root
        whole = expected_tree(parent, kind, 1, case['variant'])
        xvars = {'src': source_text(whole, cfg[7:])}
        root = type(d.root)('x') if case['lib'] == 'etree' else d.root.makeelement('x')
        node = 'parse-xml($src)' if ctx == 0 else f'(parse-xml($src)//*)[{rank}]'
        res_path = '' if ctx == 0 else '/*'
    elif ctx == 0:
        node, res_path = '.', ''
    else:
        node = f'(//*)[{rank}]' if case['root'] == 'doc' else f'(descendant-or-self::*)[{rank}]'
        res_path = '/*'
    out = []
    r1 = call(f'for $n in {node} return deep-equal($n, parse-xml(serialize($n)){res_path})', xvars, root, cache=True, cfg=cfg)
    if r1[0] != 'ok':
        out.append(('deep-equal(parse-xml(serialize))', f'error:{r1[1]}' if r1[0] == 'err' else f'{r1[0]}:{r1[-1]}', repr(r1)))
    else:
        v = r1[1]
        if isinstance(v, list) and len(v) == 1:
            v = v[0]
        if v is not True:
            out.append(('deep-equal(parse-xml(serialize))', 'false', repr(v)))
    r2 = call(f'parse-xml(serialize({node}))', xvars, root, cache=True, cfg=cfg)
    exp = expected_tree(case['parent2'], case['kind2'], max(ctx, 1), case['variant'])
    if r2[0] != 'ok':
        out.append(('parse-xml(serialize)', f'error:{r2[1]}' if r2[0] == 'err' else f'{r2[0]}:{r2[-1]}', repr(r2)))
    else:
        v = r2[1]
        if not (isinstance(v, list) and len(v) == 1 and hasattr(v[0], 'getroot')):
            out.append(('parse-xml(serialize)', 'not_a_document', repr(v)))
        else:
            doc = v[0]
            if not hasattr(doc.getroot(), 'tag') and hasattr(doc, 'value'):
                doc = doc.value        # lxml documents with several children are returned as document NODES
            obs = observed_tree(doc.getroot())
            if case['lib'] == 'lxml' and ctx == 0:
                obs_prolog = [observed_tree(x) for x in reversed(list(doc.getroot().itersiblings(preceding=True)))]
                if obs_prolog != exp_prolog:
                    out.append(('parse-xml(serialize)', 'prolog', json.dumps(obs_prolog)[:600]))
            if obs != exp:
                lost = strip_cp(obs) == strip_cp(exp) and obs == strip_cp(obs)
                merged = False
                if not lost:
                    merged = _merge_text(strip_cp(exp)) == obs
                out.append(('parse-xml(serialize)', 'comments_pis_lost' if (lost or merged) else 'structure', _short(json.dumps(obs))))
    return out, exp


def _short(text: str) -> str:
    """long observed values (big documents): head, the places where white space was inserted, tail"""
    if len(text) <= 1500:
        return text
    marks = [m.start() for m in re.finditer(r'\\n', text)][:6]
    return text[:300] + ' ... ' + ' ... '.join(text[max(0, i - 25):i + 25] for i in marks) + ' ... ' + text[-300:]


def _merge_text(t):
    if t[0] != 'e':
        return t
    ch = []
    for c in t[3]:
        c = _merge_text(c)
        if c[0] == 't' and ch and ch[-1][0] == 't':
            ch[-1] = ['t', ch[-1][1] + c[1]]
        else:
            ch.append(c)
    return ['e', t[1], t[2], ch]


def xml_worker(cases: list):
    fails = []
    n = 0
    for case in cases:
        res, exp = xml_case(case)
        n += 2
        kind = case['kind']
        sub = case['kind2']
        for law, outcome, obs in res:
            feat = dict(law=law, outcome=outcome, lib=case['lib'], root=case['root'], variant=case['variant'],
                        cfg=case.get('cfg', 'default'), has_prolog=bool(case.get('prolog')),
                        ctx=('document' if case['ctx'] == 0 else 'root-element' if case['ctx'] == 1 else 'inner-element'),
                        has_comment_or_pi=any(k in ('c', 'p') for k in sub),
                        has_tail=bool(case['ctx'] > 1 and _has_tail(case['parent'], kind, case['ctx'])))
            fails.append((feat, case, _short(json.dumps(exp)), obs))
    return n, fails


def _has_tail(parent, kind, ctx: int) -> bool:
    """the context element is directly followed by a text sibling"""
    last = ctx
    for i in range(ctx + 1, len(kind) + 1):
        p = i
        inside = False
        while p != 0:
            p = parent[p - 1]
            if p == ctx:
                inside = True
                break
        if inside:
            last = i
        else:
            break
    nxt = last + 1
    return nxt <= len(kind) and kind[nxt - 1] == 't' and parent[nxt - 1] == parent[ctx - 1]


# ---------------------------------------------------------------------------------------------
def replay(rec: dict) -> int:
    core.setup_repo_path()
    case = rec['case']
    if 'parent2' in case:
        res, exp = xml_case(case)
        print('case     :', {k: case.get(k) for k in ('parent', 'kind', 'ctx', 'lib', 'root', 'variant', 'cfg', 'prolog')})
        print('expected :', _short(json.dumps(exp)))
        bad = [r for r in res if r[0] == rec['features']['law']]
        for law, outcome, obs in res:
            print('observed :', law, outcome, obs[:300])
        if bad:
            print(f'VIOLATION property=C17 replay=(replayed) outcome={bad[0][1]}')
            return 1
        return 0
    out, diff, obs = run_eval(case)
    print('law      :', case['law'], case.get('opts'))
    print('expr     :', case['expr'][:300], ' vars', case.get('vars'), ' lib', case.get('lib'))
    print('expected :', case['exp'])
    print('observed :', obs)
    if out is not None:
        print(f'VIOLATION property=C17 replay=(replayed) outcome={out} diff={diff}')
        return 1
    return 0


def run(chk: core.Check) -> None:
    core.setup_repo_path()
    tier = TIERS[chk.tier]
    chk.assumptions += [
        'spec/JsonChars+JsonString+JsonModel+XmlRoundTrip are the oracle; python json.loads is the projection of JSON texts and the second oracle of the spec (first member wins for duplicate names)',
        'numbers are compared as doubles (fn:parse-json yields xs:double); number spelling, whitespace and member order are free',
        'codepoints that are not XML 1.0 characters (U+0001) are replaced by U+FFFD by parse-json / json-to-xml(escape=false) (F&O 3.1 17.5.1, 17.4.2)',
        'errors are compared by class only (the property names no error code)',
        'parse-xml(serialize(element)) is a document node: its root element is compared with the element',
        'static-context configurations (StaticCfgs) are parser keyword arguments: ' + json.dumps(STATIC, sort_keys=True),
    ]
    # ---- TLC, all configurations concurrently
    jobs = []
    for name, consts in tier['strings']:
        wd = os.path.join(chk.scratch, 'js-' + name)
        tlc_consts = {k: v for k, v in consts.items() if not k.startswith('_')}
        jobs.append(('JsonString', name, consts, wd, tla.cfg_text(tlc_consts, invariants=['Laws'])))
    wd = os.path.join(chk.scratch, 'jm')
    jobs.append(('JsonModel', 'model', tier['model'], wd, tla.cfg_text(tier['model'], invariants=['Laws'], constraints=['Bounded'])))
    for name, consts in tier['xml']:
        wd = os.path.join(chk.scratch, 'xr-' + name)
        jobs.append(('XmlRoundTrip', name, consts, wd, tla.cfg_text(consts, invariants=['RLaws'])))
    diag_wd = os.path.join(chk.scratch, 'js-diag')
    diag_cfg = tla.cfg_text(dict(MaxLen=2, Alpha=BASE, FormMode='policy', Pols={'canon'}), invariants=['ImplConfluentBMP'])

    def tlc(job):
        mod, name, consts, wd, cfg = job
        return tla.run_tlc(mod, cfg, wd, dump_dot=os.path.join(wd, 'g.dot'), workers=3, heap='4g')

    with ThreadPoolExecutor(max_workers=4) as ex:
        fut_diag = ex.submit(lambda: tla.run_tlc('JsonString', diag_cfg, diag_wd, workers=2, heap='2g'))
        results = list(ex.map(tlc, jobs))
        diag = fut_diag.result()
    # diagnostic: is the as-implemented replace chain confluent with the decoder automaton?
    if diag.violated == 'ImplConfluentBMP':
        chk.note('TLC: the str.replace chain of helpers.unescape_json_string is NOT confluent with RFC 8259 unescaping '
                 '(counterexample with an escaped backslash; ImplConfluentBMP violated as expected)')
        chk.coverage['impl_unescape_chain_confluent'] = False
    elif diag.ok:
        chk.note('TLC: the transcribed unescape chain agrees with the decoder automaton on all strings <= 2')
        chk.coverage['impl_unescape_chain_confluent'] = True
    else:
        raise tla.MachineryError('diagnostic JsonString configuration failed:\n' + '\n'.join(diag.output.splitlines()[-20:]))

    json_evs: list = []
    xml_cases: list = []
    for job, r in zip(jobs, results):
        mod, name, consts, wd, cfg = job
        tla.require_ok(r, f'{mod}/{name}', min_distinct=100)
        chk.model(f'{mod}/{name}', r)
        dot = os.path.join(wd, 'g.dot')
        if mod == 'JsonString':
            evs = run_strings(chk, name, consts, r, dot)
            json_evs += evs
            print(f'  JsonString/{name}: states={r.distinct} evaluations={len(evs)} tlc={r.wall_s:.1f}s', flush=True)
        elif mod == 'JsonModel':
            g = tla.load_dot(dot)
            evs, n_edges, nontrivial = model_evals(g, all_cfgs=chk.tier == 'thorough')
            chk.add('transitions', n_edges)
            chk.add('traces_validated_against_impl', n_edges)
            chk.add('distinct_nontrivial', nontrivial)
            json_evs += evs
            print(f'  JsonModel: states={r.distinct} edges={n_edges} evaluations={len(evs)} tlc={r.wall_s:.1f}s', flush=True)
        else:
            done = load_nodes(dot, ('phase = \\"done\\"',))
            if not done or not {0, 1} <= {s['ctx'] for s in done} or max(s['ctx'] for s in done) < 2:
                raise tla.MachineryError('XmlRoundTrip: no done states for document / root / inner context nodes')
            if not {s['cfg'] for s in done} <= set(STATIC) or (consts['PrologMode'] == 'all' and not any(s['prolog'] for s in done)):
                raise tla.MachineryError('XmlRoundTrip: static configurations / prologs of the dump do not match the binding table')
            for s in done:
                cfg, prolog = s['cfg'], list(s['prolog'])
                if s['alpha'] != 'ascii':
                    if s['alpha'] not in ALPHA_CH or cfg != 'default':
                        raise tla.MachineryError(f"XmlRoundTrip: alphabet {s['alpha']} / configuration {cfg} not in the binding table")
                    combos = ([('lxml', s['alpha'], 'doc')] if prolog else
                              [(lib, s['alpha'] + ('-bmpnames' if lib == 'etree' and s['alpha'] == 'astral' else ''), rk)
                               for lib in ('etree', 'lxml') for rk in (('doc',) if s['ctx'] == 0 else ('doc', 'elem'))])
                elif prolog:            # children of the document node before the root: representable with lxml only
                    if cfg.startswith('origin-') or (chk.tier == 'quick' and cfg not in ('default', 'base-abs')):
                        continue      # (the source text of the origin-* configurations has no prolog)
                    combos = [('lxml', 'plain', 'doc')]
                else:
                    variants = (('plain', 'ns', 'markup', 'nonnfc', 'big8k', 'big64k', 'special') if cfg == 'default'
                                else ('plain', 'ns') if cfg.startswith('ns-')
                                else ('special',) if cfg.startswith('origin-') else ('plain',))
                    combos = [(lib, v, rk) for lib in ('etree', 'lxml') for v in variants
                              for rk in (('doc',) if s['ctx'] == 0 or cfg.startswith('origin-') else ('doc', 'elem'))]
                for lib, variant, rootk in combos:
                    xml_cases.append(dict(parent=list(s['parent']), kind=list(s['kind']), ctx=s['ctx'],
                                          parent2=list(s['parent2']), kind2=list(s['kind2']), cfg=cfg, prolog=prolog,
                                          lib=lib, variant=variant, root=rootk))
            chk.add('transitions', len(done))
            chk.add('traces_validated_against_impl', len(done))
            chk.add('distinct_nontrivial', sum(1 for s in done if len(s['kind2']) > 1))
            print(f'  XmlRoundTrip/{name}: states={r.distinct} round-trips={len(done)} tlc={r.wall_s:.1f}s', flush=True)
        try:
            os.remove(dot)
        except OSError:
            pass

    for ev in json_evs[:: max(1, len(json_evs) // 8)][:8]:
        chk.sample(dict(law=ev['law'], expr=ev['expr'][:160], vars=ev.get('vars'), expected=ev['exp']))
    for c in xml_cases[:: max(1, len(xml_cases) // 3)][:3]:
        chk.sample(dict(law='parse-xml(serialize)', **{k: c[k] for k in ('parent', 'kind', 'ctx', 'lib', 'variant', 'root', 'cfg', 'prolog')}))

    print(f'  tlc+plan done at {time.time() - chk.t0:.0f}s; {len(json_evs)} json evaluations, {len(xml_cases)} xml cases', flush=True)
    res = core.pool_map(json_worker, core.chunked(json_evs, 96), procs=PROCS)
    for n, fails in res:
        chk.add('evaluations', n)
        for feat, case, exp, obs in fails:
            chk.fail(feat, case, exp, obs, what=f"{case['law']} {case['expr'][:80]} {case.get('vars', '')!s:.120}")
    # a default namespace in the static context is registered process-wide by the xml.etree backend: those cases
    # run last, in worker processes of their own
    res = core.pool_map(xml_worker, core.chunked([c for c in xml_cases if c['cfg'] != 'ns-default'], 64), procs=PROCS)
    res += core.pool_map(xml_worker, core.chunked([c for c in xml_cases if c['cfg'] == 'ns-default'], 64), procs=PROCS)
    for n, fails in res:
        chk.add('evaluations', n)
        for feat, case, exp, obs in fails:
            chk.fail(feat, case, exp, obs, what=f"{feat['law']} tree={case['kind']} ctx={case['ctx']} {case['lib']}")
    chk.coverage['exhaustive'] = not any('_replay_pols' in c for _, c in tier['strings'])
    chk.coverage['rule'] = ('JsonString: every (source string, rendering) of the escaped states is one trace; JsonModel: every edge '
                            'of the TLC graph is one case (source state rendered from the spec); XmlRoundTrip: every '
                            '(tree, context node) behaviour is one case x {xml.etree, lxml} x {document, element root} x '
                            '{plain, namespaced, markup characters, non-NFC characters, texts > 8 KB, texts > 64 KB} x static-context '
                            'configuration of the parser (StaticCfgs) x comments / PIs before the root (lxml)')
