"""C10 -- atomic datatypes: lexical space, canonical form and casting are coherent.

Spec: spec/Lexical.tla (character-level recognisers + lexical-to-value mappings per type
family, whitespace facet, integer subtype bounds as digit sequences), spec/Canon.tla (F&O
19.1.2.2 string forms), spec/CastTable.tla (F&O 19.1 casting matrix Y/N/M + the cast
function), spec/CastChain.tla (VALUE-STATE MACHINE: state = one typed value under one XSD
version; actions Pick(T) ; Construct (one literal state per token sequence), Cast(T), Castable(T), ToStr).  TLC checks the laws
(canonical form is a fixed point of the lexical mapping, round trips along value-preserving
cell pairs, Y cells total / N cells XPTY0004, inclusive subtype bounds, whitespace facet
pre-lexical and idempotent, derived lexical spaces inside their base) and dumps the graph.

Binding A.  Every Construct edge is replayed on the independent code paths
  py_ctor      elementpath.datatypes.<T>(s)  (per-type adapter)        py_is_valid  <T>.is_valid(s)
  py_str       str(value) for the classes that define their own __str__  py_eq / py_hash
  xp_ctor      xs:T($s)      xp_ctor_u   xs:T($u)  ($u an xs:untypedAtomic variable)
  xp_cast      $s cast as xs:T (and $u)      xp_castable  $s castable as xs:T (and $u)
  xp_string    string(xs:T($s))
  py_reparse   T(str(T(s))): equal to T(s), equal hash, and the value the SPEC gives s (timezone offset with its
               sign, year, ...)                                   xp_reparse   xs:T(string(xs:T($s)))
under the XPath 3.1 parser (thorough: also 2.0) x XSD 1.0/1.1; every Cast / Castable / ToStr edge on the nested
expression of the source state's history (BFS spanning tree through passing edges only) as
`E cast as xs:T`, `xs:T(E)`, `E castable as xs:T`, `string(E)`.
Operand forms (spec/CastForms.tla): the agreement of `E cast as xs:T`, `E castable as xs:T` and `xs:T(E)` is replayed
on the XPath 2.0, 3.0 AND 3.1 parsers separately with E written as string literal, xs:string(..), xs:untypedAtomic(..),
$variable, concat(..), string(@a), @a (attribute node) and . (element node), for xs:QName (XPath 2.0: string literal
only, XPTY0004 otherwise; 3.x: any string) and a sample of other targets (integer, boolean, date, token, double).
Literals: every token sequence <= MaxLen over the ASCII family alphabet, probes, and (lexical configurations)
NON-ASCII look-alikes: each valid base literal with one character replaced by what python's re.IGNORECASE /
\\d / \\s / int() / float() / str.strip() would take for it (U+017F, U+0130, U+0131, U+212A, U+FF21, U+0661,
U+FF11, U+FF0B, U+2212, U+00A0, U+2003, U+3000, U+0085, U+001F) or padded with one of the non-XML blanks; the
spec grammars are ASCII-exact.  Timezone grid: none, Z, +-00:00, +-05:30, +-14:00, +14:01 and the negative
sub-hour offsets -00:30 / -00:01 / -00:59 (zero hour field: only the '-' carries the sign).
Second oracles for the SPEC (disagreement = MachineryError): python `re` with the patterns
printed in XSD 1.1 Part 2, `decimal`, `float`, `bytes.fromhex`, `base64`.

Outside: full Name/NCName/language/anyURI character classes (alphabet representatives only);
xs:untypedAtomic -> xs:QName; xs:NOTATION; XPath 2.0 casts to xs:QName (literal-only rule);
Name-based types (NMTOKEN, Name, NCName, ID, IDREF, ENTITY, QName) with non-ASCII letter/digit-like characters
(XML edition dependent: pseudo error UNSPEC); literals with more than 8-digit year / duration components (pseudo error LIMIT);
xs:anyURI literals containing ':', '%' or '#' and February 29 of a BCE year under XSD 1.0 (pseudo
error UNSPEC: the W3C text leaves them to the implementation); error codes other than FORG0001 vs FOCA0002.
"""
from __future__ import annotations

import base64
import math
import os
import re
import struct
from collections import deque
from decimal import Decimal

from .. import core, tla

ALL_FAMS = ['bool', 'int', 'dec', 'flo', 'str', 'name', 'hex', 'b64', 'uri', 'dur', 'date']
INT_TYPES = ['integer', 'nonPositiveInteger', 'negativeInteger', 'long', 'int', 'short', 'byte',
             'nonNegativeInteger', 'unsignedLong', 'unsignedInt', 'unsignedShort', 'unsignedByte',
             'positiveInteger']
FAM_TYPES = {
    'bool': ['boolean'], 'int': INT_TYPES, 'dec': ['decimal'], 'flo': ['float', 'double'],
    'str': ['string', 'normalizedString', 'token', 'untypedAtomic'],
    'name': ['language', 'NMTOKEN', 'Name', 'NCName', 'ID', 'IDREF', 'ENTITY', 'QName'],
    'hex': ['hexBinary'], 'b64': ['base64Binary'], 'uri': ['anyURI'],
    'dur': ['duration', 'yearMonthDuration', 'dayTimeDuration'],
    'date': ['dateTime', 'dateTimeStamp', 'date', 'time', 'gYearMonth', 'gYear', 'gMonthDay', 'gDay', 'gMonth'],
}
FAM_OF = {t: f for f, ts in FAM_TYPES.items() for t in ts}
ALL_TYPES = sorted(FAM_OF)
PRIM = {'untypedAtomic': 'uA', 'float': 'flt', 'double': 'dbl', 'decimal': 'dec', 'duration': 'dur',
        'yearMonthDuration': 'yMD', 'dayTimeDuration': 'dTD', 'dateTime': 'dT', 'dateTimeStamp': 'dT',
        'time': 'tim', 'date': 'dat', 'gYearMonth': 'gYM', 'gYear': 'gYr', 'gMonthDay': 'gMD', 'gDay': 'gDay',
        'gMonth': 'gMon', 'boolean': 'bool', 'base64Binary': 'b64', 'hexBinary': 'hxB', 'anyURI': 'aURI',
        'QName': 'QN'}
for _t in INT_TYPES:
    PRIM[_t] = 'int'
for _t in ['string', 'normalizedString', 'token', 'language', 'NMTOKEN', 'Name', 'NCName', 'ID', 'IDREF', 'ENTITY']:
    PRIM[_t] = 'str'

TIERS = {
    # lex: every literal, no casts (Targets empty: only ToStr edges leave the constructed values)
    # cast: shorter literals, full cast fan-out from the constructed values, primitive targets below
    'quick': [('lex3', dict(MaxLen=3, MaxCasts=1, Fams=set(ALL_FAMS), Targets=set(), Versions={'1.0', '1.1'}, Grid='small', Lean=False)),
              ('cast2', dict(MaxLen=2, MaxCasts=2, Fams=set(ALL_FAMS), Targets=set(ALL_TYPES), Versions={'1.0', '1.1'}, Grid='small', Lean=True))],
    'thorough': [('lex4', dict(MaxLen=4, MaxCasts=1, Fams=set(ALL_FAMS), Targets=set(), Versions={'1.0', '1.1'}, Grid='full', Lean=False)),
                 ('cast3', dict(MaxLen=3, MaxCasts=2, Fams=set(ALL_FAMS), Targets=set(ALL_TYPES), Versions={'1.0', '1.1'}, Grid='small', Lean=True))],
}
PARSERS = {'quick': ['3.1'], 'thorough': ['2.0', '3.1']}      # XPath parser versions (each x XSD 1.0 / 1.1)
NS = {'a': 'urn:a'}
NOTZ = 9999
RENDER = {'TAB': '\t', 'NL': '\n', 'CR': '\r', 'HEX58': '00' * 58,
          # non-ASCII abstract characters of spec/Lexical.tla (named by code point)
          'U017F': '\u017f', 'U0130': '\u0130', 'U0131': '\u0131', 'U212A': '\u212a', 'UFF21': '\uff21',
          'U0661': '\u0661', 'UFF11': '\uff11', 'UFF0B': '\uff0b', 'U2212': '\u2212',
          'U00A0': '\u00a0', 'U2003': '\u2003', 'U3000': '\u3000', 'U0085': '\u0085', 'U001F': '\u001f'}
WS_TOKENS = {' ', 'TAB', 'NL', 'CR'}
UNI_WS = '\u00a0\u2003\u3000\u0085\u001f'
_NONASCII = re.compile(r'[^\x00-\x7f]|\x1f')


def text_of(seq) -> str:
    """token sequence or abstract character sequence -> concrete string (dumb join)"""
    return ''.join(RENDER.get(c, c) for c in seq)


# ---------------------------------------------------------------------------------------
# rendering of expected abstract values (dumb 1:1) and comparison with observed python values

def dec_text(v) -> str:
    return ('-' if v['neg'] else '') + (''.join(v['ip']) or '0') + ('.' + ''.join(v['fp']) if v['fp'] else '')


def flo_float(v) -> float:
    if v['c'] == 'nan':
        return math.nan
    if v['c'] == 'pinf':
        return math.inf
    if v['c'] == 'ninf':
        return -math.inf
    if not v['dg']:
        return -0.0 if v['neg'] else 0.0
    dg = ''.join(v['dg'])
    return float(('-' if v['neg'] else '') + dg[0] + '.' + (dg[1:] or '0') + 'e' + str(v['ex']))


def f32(x: float) -> float:
    try:
        return struct.unpack('f', struct.pack('f', x))[0]
    except OverflowError:
        return math.copysign(math.inf, x)


CLASS_OF = {
    'integer': 'Integer', 'nonPositiveInteger': 'NonPositiveInteger', 'negativeInteger': 'NegativeInteger',
    'long': 'Long', 'int': 'Int', 'short': 'Short', 'byte': 'Byte', 'nonNegativeInteger': 'NonNegativeInteger',
    'unsignedLong': 'UnsignedLong', 'unsignedInt': 'UnsignedInt', 'unsignedShort': 'UnsignedShort',
    'unsignedByte': 'UnsignedByte', 'positiveInteger': 'PositiveInteger',
    'normalizedString': 'NormalizedString', 'token': 'XsdToken', 'language': 'Language', 'NMTOKEN': 'NMToken',
    'Name': 'Name', 'NCName': 'NCName', 'ID': 'Id', 'IDREF': 'Idref', 'ENTITY': 'Entity',
    'anyURI': 'AnyURI', 'untypedAtomic': 'UntypedAtomic', 'QName': 'QName',
    'hexBinary': 'HexBinary', 'base64Binary': 'Base64Binary',
    'duration': 'Duration', 'yearMonthDuration': 'YearMonthDuration', 'dayTimeDuration': 'DayTimeDuration',
    'dateTime': ('DateTime', 'DateTime10'), 'dateTimeStamp': 'DateTimeStamp', 'date': ('Date', 'Date10'),
    'time': 'Time', 'gYearMonth': ('GregorianYearMonth', 'GregorianYearMonth10'),
    'gYear': ('GregorianYear', 'GregorianYear10'), 'gMonthDay': 'GregorianMonthDay', 'gDay': 'GregorianDay',
    'gMonth': 'GregorianMonth',
}
DT_FIELDS = {
    'dateTime': 'YMDT', 'dateTimeStamp': 'YMDT', 'date': 'YMD', 'time': 'T', 'gYearMonth': 'YM', 'gYear': 'Y',
    'gMonthDay': 'MD', 'gDay': 'D', 'gMonth': 'M',
}


def conforms(exp, obs, ver: str):
    """None if the observed python value is the expected abstract value, else a short label."""
    k, T = exp['k'], exp['t']
    cn = type(obs).__name__
    want_cls = CLASS_OF.get(T)
    if want_cls is not None:
        ok = cn in want_cls if isinstance(want_cls, tuple) else cn == want_cls
        if not ok:
            return f'class:{cn}'
    if k == 'bool':
        return None if isinstance(obs, bool) and obs == exp['b'] else 'value'
    if k == 'dec':
        if T == 'decimal':
            if not isinstance(obs, Decimal):
                return f'class:{cn}'
            if not obs.is_finite():
                return 'value'
            want = Decimal(dec_text(exp))
            if exp['ap']:
                return None if abs(obs - want) <= abs(want) * Decimal('1e-15') else 'value'
            if obs != want:
                return 'value'
            return None
        if isinstance(obs, bool) or not isinstance(obs, int):
            return f'class:{cn}'
        want = int(dec_text(exp))
        if exp['ap']:
            return None if abs(int(obs) - want) <= abs(want) // 10 ** 15 else 'value'
        return None if int(obs) == want else 'value'
    if k == 'flo':
        if not isinstance(obs, float):
            return f'class:{cn}'
        if (T == 'float') != (cn == 'Float'):
            return f'class:{cn}'
        want = flo_float(exp)
        if math.isnan(want):
            return None if math.isnan(obs) else 'value'
        if math.isnan(obs):
            return 'value'
        if want == 0.0 and float(obs) == 0.0:
            return None if math.copysign(1.0, want) == math.copysign(1.0, obs) else 'zero_sign'
        if T == 'float' or exp['ap']:
            a, b = f32(float(obs)), f32(want)
            return None if a == b or (math.isfinite(a) and math.isfinite(b) and abs(a - b) <= abs(b) * 1e-6) else 'value'
        return None if float(obs) == want else 'value'
    if k == 'str':
        want = text_of(exp['s'])
        if T in ('anyURI', 'untypedAtomic'):
            return None if getattr(obs, 'value', None) == want else 'value'
        if not isinstance(obs, str):
            return f'class:{cn}'
        if T == 'string' and cn != 'str':
            return f'class:{cn}'
        return None if str.__eq__(obs, want) else 'value'
    if k == 'bin':
        try:
            got = obs.decode()
        except Exception as e:   # noqa
            return f'decode:{type(e).__name__}'
        return None if got == bytes(exp['o']) else 'value'
    if k == 'qn':
        p, l = text_of(exp['p']), text_of(exp['l'])
        if obs.local_name != l or (obs.prefix or '') != p or obs.uri != (NS[p] if p else ''):
            return 'value'
        return None
    if k == 'dur':
        sign = -1 if exp['neg'] else 1
        secs = Decimal(str(exp['se']) + ('.' + ''.join(exp['fr']) if exp['fr'] else ''))
        if obs.months != sign * exp['mo'] or obs.seconds != sign * secs:
            return 'value'
        return None
    if k == 'dt':
        f = DT_FIELDS[T]
        if 'Y' in f:
            y = obs.year
            if ver == '1.1' and y < 0:
                y += 1            # API years have no year zero; XSD 1.1 lexical years do
            if y != exp['y']:
                return 'value:year'
        if 'M' in f and obs.month != exp['mo']:
            return 'value:month'
        if 'D' in f and obs.day != exp['d']:
            return 'value:day'
        if 'T' in f:
            us = int((''.join(exp['fr']) + '000000')[:6])
            if (obs.hour, obs.minute, obs.second, obs.microsecond) != (exp['h'], exp['mi'], exp['s'], us):
                return 'value:time'
        tz = obs.tzinfo
        if exp['tz'] == NOTZ:
            return None if tz is None else 'value:tz'
        if tz is None or tz.offset.total_seconds() != exp['tz'] * 60:
            return 'value:tz'
        return None
    raise tla.MachineryError(f'cannot compare kind {k}')


# ---------------------------------------------------------------------------------------
# second oracles for the SPEC: the regular expressions printed in XSD 1.1 Part 2 (and the
# XSD 1.0 difference), python decimal / float / bytes.fromhex / base64

_TZ = r'(Z|(\+|-)((0[0-9]|1[0-3]):[0-5][0-9]|14:00))?'
_YR = r'-?([1-9][0-9]{3,}|0[0-9]{3})'
_MO = r'(0[1-9]|1[0-2])'
_DY = r'(0[1-9]|[12][0-9]|3[01])'
_TM = r'(([01][0-9]|2[0-3]):[0-5][0-9]:[0-5][0-9](\.[0-9]+)?|(24:00:00(\.0+)?))'
_DUT = r'(T(([0-9]+H)([0-9]+M)?([0-9]+(\.[0-9]+)?S)?|([0-9]+M)([0-9]+(\.[0-9]+)?S)?|([0-9]+(\.[0-9]+)?S)))'
_I, _C = r'[A-Za-z_:]', r'[A-Za-z0-9_:.\-]'
W3C = {
    'boolean': r'true|false|1|0',
    'decimal': r'(\+|-)?([0-9]+(\.[0-9]*)?|\.[0-9]+)',
    'integer': r'[\-+]?[0-9]+',
    'double': r'(\+|-)?([0-9]+(\.[0-9]*)?|\.[0-9]+)([Ee](\+|-)?[0-9]+)?|(\+|-)?INF|NaN',
    'double10': r'(\+|-)?([0-9]+(\.[0-9]*)?|\.[0-9]+)([Ee](\+|-)?[0-9]+)?|-?INF|NaN',
    'hexBinary': r'([0-9a-fA-F]{2})*',
    'base64Binary': r'((([A-Za-z0-9+/] ?){4})*(([A-Za-z0-9+/] ?){3}[A-Za-z0-9+/]|([A-Za-z0-9+/] ?){2}'
                    r'[AEIMQUYcgkosw048] ?=|[A-Za-z0-9+/] ?[AQgw] ?= ?=))?',
    'duration': r'-?P((([0-9]+Y([0-9]+M)?([0-9]+D)?|([0-9]+M)([0-9]+D)?|([0-9]+D))' + _DUT + r'?)|' + _DUT + r')',
    'yearMonthDuration': r'-?P((([0-9]+Y)([0-9]+M)?)|([0-9]+M))',
    'date': _YR + '-' + _MO + '-' + _DY + _TZ, 'time': _TM + _TZ,
    'dateTime': _YR + '-' + _MO + '-' + _DY + 'T' + _TM + _TZ,
    'gYear': _YR + _TZ, 'gYearMonth': _YR + '-' + _MO + _TZ, 'gMonthDay': '--' + _MO + '-' + _DY + _TZ,
    'gDay': '---' + _DY + _TZ, 'gMonth': '--' + _MO + _TZ,
    'language': r'[a-zA-Z]{1,8}(-[a-zA-Z0-9]{1,8})*',
    'NMTOKEN': _C + '+', 'Name': _I + _C + '*', 'NCName': r'[A-Za-z_][A-Za-z0-9_.\-]*',
}
_W3C = {k: re.compile(v) for k, v in W3C.items()}
_BOUNDS = {
    'long': (-2 ** 63, 2 ** 63 - 1), 'int': (-2 ** 31, 2 ** 31 - 1), 'short': (-2 ** 15, 2 ** 15 - 1), 'byte': (-128, 127),
    'nonNegativeInteger': (0, None), 'positiveInteger': (1, None), 'unsignedLong': (0, 2 ** 64 - 1),
    'unsignedInt': (0, 2 ** 32 - 1), 'unsignedShort': (0, 65535), 'unsignedByte': (0, 255),
    'nonPositiveInteger': (None, 0), 'negativeInteger': (None, -1), 'integer': (None, None),
}


def _collapse(s: str) -> str:
    return re.sub(r'[ \t\n\r]+', ' ', s).strip(' ')


def _month_days(y: int, m: int) -> int:
    import calendar
    return calendar.monthrange(y, m)[1]


def oracle(T: str, text: str, ver: str, exp):
    """Cross-check of the SPEC verdict `exp` for literal `text` of type T; returns a message or None.
    Only the decidable part: membership by the W3C regular expressions (+ bounds, day-of-month,
    year 0000) and the value for the types python can compute independently."""
    valid = exp['k'] != 'err'
    if not valid and exp['code'] in ('LIMIT', 'UNSPEC', 'FONS0004'):
        return None
    if T in ('string', 'untypedAtomic'):
        s = text
    elif T == 'normalizedString':
        s = re.sub(r'[\t\n\r]', ' ', text)
    else:
        s = _collapse(text)
    want = None
    if T in ('string', 'normalizedString', 'token', 'untypedAtomic', 'anyURI'):
        want = True
        if valid and text_of(exp['s']) != s:
            return f'{T} {text!r}: spec value {text_of(exp["s"])!r}, whitespace facet gives {s!r}'
    elif T in INT_TYPES:
        want = _W3C['integer'].fullmatch(s) is not None
        if want:
            lo, hi = _BOUNDS[T]
            n = int(s)
            want = (lo is None or n >= lo) and (hi is None or n <= hi)
            if want and valid and int(dec_text(exp)) != n:
                return f'{T} {text!r}: spec value {dec_text(exp)}'
    elif T == 'decimal':
        want = _W3C['decimal'].fullmatch(s) is not None
        if want and valid and Decimal(dec_text(exp)) != Decimal(s):
            return f'decimal {text!r}: spec value {dec_text(exp)}'
    elif T in ('double', 'float'):
        want = _W3C['double' if ver == '1.1' else 'double10'].fullmatch(s) is not None
        if want and valid:
            a, b = float(s), flo_float(exp)
            if T == 'float':
                a, b = f32(a), f32(b)
            if not (a == b or (math.isnan(a) and math.isnan(b))) or (a == 0 and math.copysign(1, a) != math.copysign(1, b)):
                return f'{T} {text!r}: spec value {b!r}, python {a!r}'
    elif T == 'hexBinary':
        want = _W3C[T].fullmatch(s) is not None
        if want and valid and bytes.fromhex(s) != bytes(exp['o']):
            return f'hexBinary {text!r}: spec octets {exp["o"]}'
    elif T == 'base64Binary':
        want = _W3C[T].fullmatch(s) is not None
        if want and valid and base64.b64decode(s.replace(' ', ''), validate=True) != bytes(exp['o']):
            return f'base64Binary {text!r}: spec octets {exp["o"]}'
    elif T in ('duration', 'yearMonthDuration', 'dayTimeDuration'):
        want = _W3C['duration'].fullmatch(s) is not None
        if T == 'yearMonthDuration':
            want = want and _W3C[T].fullmatch(s) is not None
        if T == 'dayTimeDuration':
            want = want and re.fullmatch(r'[^YM]*(T.*)?', s) is not None
    elif T in DT_FIELDS:
        base = 'dateTime' if T == 'dateTimeStamp' else T
        m = _W3C[base].fullmatch(s)
        want = m is not None
        if want and T == 'dateTimeStamp':
            want = ver == '1.1' and re.search(r'(Z|[+-][0-9]{2}:[0-9]{2})$', s) is not None
        if want and 'Y' in DT_FIELDS[T]:
            ym = re.match(r'(-?)([0-9]+)', s)
            y = int(ym.group(2))
            if y == 0 and ver == '1.0':
                want = False
            elif 'D' in DT_FIELDS[T] and not ym.group(1) and y >= 1:
                mo, d = int(s[ym.end() + 1:ym.end() + 3]), int(s[ym.end() + 4:ym.end() + 6])
                want = d <= _month_days(y if y <= 9999 else 2000 + y % 400, mo)
            elif 'D' in DT_FIELDS[T]:
                want = None           # day-of-month in years <= 0: no independent oracle
        if want and T == 'gMonthDay':
            want = int(s[5:7]) <= _month_days(2000, int(s[2:4]))
    elif T != 'language' and T in FAM_TYPES['name'] and _NONASCII.search(s):
        want = None           # XML Name classes beyond ASCII differ per XML edition: no oracle
    elif T in ('language', 'NMTOKEN', 'Name', 'NCName', 'ID', 'IDREF', 'ENTITY'):
        want = _W3C[T if T in _W3C else 'NCName'].fullmatch(s) is not None
    elif T == 'boolean':
        want = _W3C[T].fullmatch(s) is not None
        if want and valid and exp['b'] != (s in ('true', '1')):
            return f'boolean {text!r}: spec value {exp["b"]}'
    elif T == 'QName':
        want = re.fullmatch(r'([A-Za-z_][A-Za-z0-9_.\-]*:)?[A-Za-z_][A-Za-z0-9_.\-]*', s) is not None
    if want is not None and want != valid:
        return f'{T} {text!r} xsd {ver}: spec says {"valid" if valid else "invalid"}, W3C pattern says {"valid" if want else "invalid"}'
    return None


def oracle_canon(exp, canon: str):
    """the canonical form of the SPEC re-read by python gives the same value"""
    k, T = exp['k'], exp['t']
    try:
        if k == 'dec':
            if Decimal(canon) != Decimal(dec_text(exp)) or canon != str(canon).strip() or canon.startswith('+'):
                return f'canonical {canon!r} of {dec_text(exp)}'
            if '.' in canon and (canon.endswith('0') or canon.split('.')[0] in ('', '-')):
                return f'canonical {canon!r} has trailing zeros / no integer digit'
            if re.fullmatch(r'-?0[0-9].*', canon) or canon in ('-0',):
                return f'canonical {canon!r} has leading zeros / negative zero'
        elif k == 'flo' and not exp['ap']:
            a, b = float(canon), flo_float(exp)
            if not (a == b or (math.isnan(a) and math.isnan(b))):
                return f'canonical {canon!r} of {b!r}'
            if math.isfinite(b) and b != 0:
                sci = 'E' in canon
                if sci != (not (1e-6 <= abs(b) < 1e6)):
                    return f'canonical {canon!r}: wrong notation for {b!r}'
                if sci and not re.fullmatch(r'-?[1-9]\.[0-9]+E-?[1-9][0-9]*', canon):
                    return f'canonical {canon!r}: not the F&O E-notation'
                digits = re.sub(r'[-.]|E.*', '', canon).strip('0')
                if digits != repr(abs(b)).replace('.', '').split('e')[0].strip('0'):
                    return f'canonical {canon!r}: digits differ from the shortest round-trip digits of {b!r}'
        elif k == 'bin':
            if T == 'hexBinary' and canon != bytes(exp['o']).hex().upper():
                return f'canonical {canon!r}'
            if T == 'base64Binary' and canon != base64.b64encode(bytes(exp['o'])).decode():
                return f'canonical {canon!r}'
    except Exception as e:   # noqa
        return f'canonical {canon!r} of {T}: {type(e).__name__} {e}'
    return None


# ---------------------------------------------------------------------------------------
# the real code

_state = {}


def _dt():
    if 'dt' not in _state:
        import elementpath.datatypes as dt
        _state['dt'] = dt
    return _state['dt']


def py_class(T: str, ver: str):
    dt = _dt()
    if T == 'boolean':
        return dt.BooleanProxy
    if T == 'decimal':
        return dt.DecimalProxy
    if T == 'double':
        return dt.DoubleProxy10 if ver == '1.0' else dt.DoubleProxy
    if T == 'string':
        return dt.StringProxy
    if ver == '1.0':
        alt = {'float': 'Float10', 'date': 'Date10', 'dateTime': 'DateTime10', 'gYear': 'GregorianYear10',
               'gYearMonth': 'GregorianYearMonth10'}.get(T)
        if alt:
            return getattr(dt, alt)
    return dt.builtin_atomic_types['xs:' + T]


def py_construct(T: str, text: str, ver: str):
    """the per-type adapter of the Python-level constructors"""
    cls = py_class(T, ver)
    try:
        if T == 'QName':
            s = text.strip()
            uri = NS.get(s.split(':')[0], None) if ':' in s else ''
            v = cls(uri, text)
        elif hasattr(cls, 'fromstring'):
            v = cls.fromstring(text)
        elif T == 'float' and ver == '1.1':
            v = cls(text, '1.1')
        else:
            v = cls(text)
    except (ValueError, ArithmeticError, KeyError) as e:
        return ('err', type(e).__name__)
    except Exception as e:   # noqa
        return ('escaped', type(e).__name__)
    return ('val', v)


def py_is_valid(T: str, text: str, ver: str):
    try:
        return ('val', bool(py_class(T, ver).is_valid(text)))
    except Exception as e:   # noqa
        return ('escaped', type(e).__name__)


OWN_STR = {'hexBinary', 'base64Binary', 'QName', 'anyURI', 'untypedAtomic', 'duration', 'yearMonthDuration',
           'dayTimeDuration', 'dateTime', 'dateTimeStamp', 'date', 'time', 'gYearMonth', 'gYear', 'gMonthDay',
           'gDay', 'gMonth', 'normalizedString', 'token', 'language', 'NMTOKEN', 'Name', 'NCName', 'ID', 'IDREF',
           'ENTITY', 'string'} | set(INT_TYPES)

_tokens: dict = {}


def xp_eval(expr: str, pv: str, ver: str, variables: dict):
    """value | ('err', code) | ('escaped', Class) | ('seq', n)"""
    from elementpath import XPathContext
    from elementpath.exceptions import ElementPathError
    key = (expr, pv, ver)
    tok = _tokens.get(key)
    try:
        if tok is None:
            if 'parsers' not in _state:
                from elementpath import XPath2Parser
                from elementpath.xpath31 import XPath31Parser
                _state['parsers'] = {'2.0': XPath2Parser, '3.1': XPath31Parser}
            parser = _state['parsers'][pv](namespaces=NS, xsd_version=ver)
            tok = _tokens[key] = parser.parse(expr)
            if len(_tokens) > 20000:
                _tokens.clear()
        r = tok.get_results(XPathContext(root=None, item=1, variables=variables))
    except ElementPathError as e:
        return ('err', (e.code or '').split(':')[-1])
    except RecursionError:
        return ('escaped', 'RecursionError')
    except Exception as e:   # noqa
        return ('escaped', type(e).__name__)
    if isinstance(r, list):
        if len(r) != 1:
            return ('seq', len(r))
        r = r[0]
    return ('val', r)


def judge(exp, obs, ver: str, code_matters: bool):
    """compare an outcome (xp_eval / py_construct result) with the expected abstract state"""
    if exp['k'] == 'err':
        if obs[0] == 'err':
            if code_matters and exp['code'] in ('FORG0001', 'FOCA0002') and obs[1] != exp['code'] \
                    and obs[1] in ('FORG0001', 'FOCA0002'):
                return f'code:{obs[1]}'
            return None
        if obs[0] == 'val':
            return 'accepts_invalid'
        return f'{obs[0]}:{obs[1]}'
    if obs[0] == 'err':
        return 'rejects_valid'
    if obs[0] != 'val':
        return f'{obs[0]}:{obs[1]}'
    out = conforms(exp, obs[1], ver)
    return None if out is None else f'wrong_{out}'


def traits(text: str, fam: str = '') -> str:
    """dumb surface classification of a literal, used only in fingerprints"""
    if any(c in UNI_WS for c in text):
        # a character that python's \s / str.strip() take for whitespace and XSD does not; U+00A0 apart
        # (elementpath's own whitespace pattern excludes it, str.strip() does not)
        kind = 'nbsp' if '\u00a0' in text else 'other'
        inner = any(c in UNI_WS for c in text.strip(UNI_WS + ' \t\n\r'))
        return f'uni_ws_{kind}_{"inner" if inner else "outer"}'
    if '_' in text and fam in ('int', 'dec', 'flo'):
        return 'underscore'
    if re.search(r'[+-]NaN', text):
        return 'signed_nan'
    if '+INF' in text:
        return 'plus_inf'
    if re.search(r'T24:', text):
        return 'h24'
    if re.search(r'[ \t\n\r]', text):
        return 'ws_inner' if re.search(r'[ \t\n\r]', text.strip(' \t\n\r')) else 'ws_outer'
    if _NONASCII.search(text):
        return 'nonascii'
    return 'plain'


def canon_class(exp) -> str:
    """abstract class of a value for canonical-form fingerprints"""
    k = exp['k']
    if k == 'flo':
        if exp['c'] != 'fin':
            return exp['c']
        if not exp['dg']:
            return 'negzero' if exp['neg'] else 'zero'
        ex = exp['ex']
        if exp['t'] == 'float' and ex <= -38:
            return 'float_below_1e-37'
        m1 = '_mant1' if len(exp['dg']) == 1 else ('_exp0' if ex % 10 == 0 and (ex >= 16 or ex <= -5) else '')
        if -4 <= ex <= 5:
            return 'decimal_notation'
        if -6 <= ex < -4:
            return 'decimal_below_1e-4'
        if ex < -6:
            return 'sci_small' + m1
        return ('sci_1e6_1e15' if ex <= 15 else 'sci_large') + m1
    if k == 'dec':
        if not exp['ip'] and not exp['fp']:
            return 'zero'
        return 'fraction' if exp['fp'] else 'integral'
    if k == 'bin':
        return 'octets_ge58' if len(exp['o']) >= 58 else '-'      # base64 text longer than one MIME line
    if k == 'dur':
        return 'zero' if (exp['mo'] == 0 and exp['se'] == 0 and not exp['fr']) else 'nonzero'
    if k == 'dt':
        if exp['y'] < -9999:
            return 'year_lt_-9999'
        if -60 < exp['tz'] < 0:
            return 'tz_neg_subhour'
        return 'tz' if exp['tz'] != NOTZ else 'notz'
    return '-'


def construct_worker(job):
    """replay a chunk of Construct edges; returns (n_eval, fails, oracle_msgs, passed_keys, pyvals)"""
    from elementpath.datatypes import UntypedAtomic
    edges, pvs = job
    fails, oracle_msgs, passed = [], [], []
    n_eval = 0
    for (eid, T, tokens, ver, exp, canon, facet) in edges:
        text = text_of(tokens)
        msg = oracle(T, text, ver, exp)
        if msg:
            oracle_msgs.append(msg)
        if canon is not None:
            msg = oracle_canon(exp, canon)
            if msg:
                oracle_msgs.append(msg)
        if exp['k'] == 'err' and exp['code'] in ('LIMIT', 'UNSPEC'):
            continue
        fam = FAM_OF[T]
        tr = traits(text, fam)
        base = dict(action='Construct', family=fam, type=T, facet=facet, trait=tr, xsd=ver,
                    nonascii=bool(_NONASCII.search(text)),
                    expected=('err' if exp['k'] == 'err' else 'value'), exp_code=exp.get('code', '-'),
                    vclass=(canon_class(exp) if exp['k'] != 'err' else '-'))

        def fail(path, outcome, observed, **extra):
            f = dict(base, path=path, outcome=outcome)
            if outcome.startswith('wrong_class:'):
                f.update(outcome='wrong_class', obs_class=outcome.split(':')[1])
            f.update(extra)
            fails.append((f, dict(kind='construct', type=T, tokens=list(tokens), xsd=ver, path=path, canon=canon, **extra),
                          exp, observed))

        # ---- Python level (an unbound QName prefix reaches the adapter as "no namespace": ValueError)
        obs = py_construct(T, text, ver)
        n_eval += 1
        out = judge(exp, obs, ver, False)
        py_ok = False
        if out is not None:
            fail('py_ctor', out, obs)
        elif obs[0] == 'val':
            py_ok = True
            if canon is not None and T in OWN_STR:
                try:
                    s = str(obs[1])
                except Exception as e:   # noqa
                    s = ('escaped', type(e).__name__)
                if s != canon:
                    fail('py_str', 'wrong_canonical', s)
                # the printed form re-parses to an equal value with an equal hash - and to the value the
                # SPEC gives the literal (timezone offset with its sign, year, ...), whatever was printed
                if isinstance(s, str):
                    obs2 = py_construct(T, s, ver)
                    n_eval += 1
                    out = judge(exp, obs2, ver, False)
                    if out is None and not (exp['k'] == 'flo' and exp['c'] == 'nan'):
                        try:
                            if not (obs2[1] == obs[1] and hash(obs2[1]) == hash(obs[1])):
                                out = 'unequal_or_hash'
                        except Exception as e:   # noqa
                            out = f'escaped:{type(e).__name__}'
                    if out is not None:
                        fail('py_reparse', out, (s, obs2))
        obs = py_is_valid(T, text, ver)
        n_eval += 1
        want_valid = exp['k'] != 'err'
        want_lex = want_valid or exp['code'] == 'FONS0004'      # is_valid knows no namespace context
        if obs != ('val', want_lex):
            fail('py_is_valid', ('rejects_valid' if want_lex else 'accepts_invalid') if obs[0] == 'val' else f'{obs[0]}:{obs[1]}', obs)
        # ---- XPath level
        ok_xp = {}
        for pv in pvs:
            if T == 'QName' and pv == '2.0':
                continue
            good = True
            for path, expr, var, val in (
                    ('xp_ctor', f'xs:{T}($s)', 's', text),
                    ('xp_ctor_u', f'xs:{T}($u)', 'u', None),
                    ('xp_cast', f'$s cast as xs:{T}', 's', text),
                    ('xp_cast_u', f'$u cast as xs:{T}', 'u', None),
                    ('xp_castable', f'$s castable as xs:{T}', 's', text),
                    ('xp_castable_u', f'$u castable as xs:{T}', 'u', None)):
                if var == 'u':
                    if T == 'QName':
                        continue
                    val = UntypedAtomic(text)
                obs = xp_eval(expr, pv, ver, {var: val})
                n_eval += 1
                if path.startswith('xp_castable'):
                    out = None if obs == ('val', want_valid) else \
                        (('says_false' if want_valid else 'says_true') if obs[0] == 'val' else f'{obs[0]}:{obs[1]}')
                else:
                    out = judge(exp, obs, ver, True)
                if out is not None:
                    good = False
                    fail(path, out, obs, parser=pv)
            if canon is not None:
                obs = xp_eval(f'string(xs:{T}($s))', pv, ver, {'s': text})
                n_eval += 1
                if obs != ('val', canon):
                    fail('xp_string', 'wrong_canonical' if obs[0] == 'val' else f'{obs[0]}:{obs[1]}', obs, parser=pv)
            if want_valid:
                obs = xp_eval(f'xs:{T}(string(xs:{T}($s)))', pv, ver, {'s': text})
                n_eval += 1
                out = judge(exp, obs, ver, False)
                if out is not None:
                    fail('xp_reparse', out, obs, parser=pv)
            ok_xp[pv] = good
        passed.append((eid, ok_xp, py_ok and not (exp['k'] == 'flo' and exp['c'] == 'nan')))
    return n_eval, fails, oracle_msgs, passed


def eq_worker(job):
    """equal abstract values must be equal python values with equal hashes (one representative per
    destination state, the others compared with it)"""
    n = 0
    fails = []

    class chk:      # same call shape as Check.fail
        @staticmethod
        def fail(feat, case, exp, obs, what=''):
            fails.append((feat, case, exp, obs, what))
    for (T, ver, exp, members) in job:
        rep_tokens = members[0]
        rep = py_construct(T, text_of(rep_tokens), ver)[1]
        try:
            hr = hash(rep)
        except Exception as e:   # noqa
            hr = ('escaped', type(e).__name__)
        for tokens in members[1:]:
            v = py_construct(T, text_of(tokens), ver)[1]
            n += 1
            base = dict(action='Construct', family=FAM_OF[T], type=T, facet='equality', xsd=ver, trait=traits(text_of(tokens), FAM_OF[T]),
                        vclass=canon_class(exp), expected='value')
            try:
                eq = bool(v == rep) and bool(rep == v) and not bool(v != rep)
            except Exception as e:   # noqa
                eq = ('escaped', type(e).__name__)
            if eq is not True:
                chk.fail(dict(base, path='py_eq', outcome='unequal' if eq is False else f'{eq[0]}:{eq[1]}'),
                         dict(kind='eq', type=T, xsd=ver, a=list(rep_tokens), b=list(tokens)), 'equal', eq,
                         what=f'{T}({text_of(rep_tokens)!r}) == {T}({text_of(tokens)!r})')
                continue
            try:
                hv = hash(v)
            except Exception as e:   # noqa
                hv = ('escaped', type(e).__name__)
            if hv != hr:
                chk.fail(dict(base, path='py_hash', outcome='hash_differs'),
                         dict(kind='eq', type=T, xsd=ver, a=list(rep_tokens), b=list(tokens)), 'equal hashes', (hr, hv),
                         what=f'hash({T}({text_of(rep_tokens)!r})) == hash({T}({text_of(tokens)!r}))')
    return n, fails


# ---- non-Construct edges -------------------------------------------------------------

def chain_worker(job):
    """edges = (src_expr, text, action, T, ver, src_state, dst_state, pv, expected error code of the cast)"""
    edges = job
    fails = []
    n_eval = 0
    for (expr, text, action, T, ver, src, exp, pv, code) in edges:
        variables = {'s': text}
        sp = PRIM[src['t']]
        base = dict(action=action, family=FAM_OF[T] if T else 'str', type=T or 'string', src_type=src['t'], src_prim=sp,
                    dst_prim=PRIM[T] if T else 'str', xsd=ver, expected=('err' if exp['k'] == 'err' else 'value'),
                    exp_code=code, vclass=canon_class(src), facet='cast',
                    dst_vclass=canon_class(exp),
                    trait=(traits(text_of(src['s']), FAM_OF[T] if T else '') if src['k'] == 'str' else '-'))

        def fail(path, outcome, observed, e):
            f = dict(base, path=path, outcome=outcome, parser=pv)
            if outcome.startswith('wrong_class:'):
                f.update(outcome='wrong_class', obs_class=outcome.split(':')[1])
            fails.append((f,
                          dict(kind='chain', expr=e, s=text, xsd=ver, parser=pv, action=action), exp, observed))
        if action == 'ToStr':
            e = f'string({expr})'
            obs = xp_eval(e, pv, ver, variables)
            n_eval += 1
            want = text_of(exp['s'])
            if obs != ('val', want):
                fail('xp_string', 'wrong_canonical' if obs[0] == 'val' else f'{obs[0]}:{obs[1]}', obs, e)
            elif type(obs[1]) is not str:
                fail('xp_string', f'wrong_class:{type(obs[1]).__name__}', obs, e)
        elif action == 'Castable':
            e = f'{expr} castable as xs:{T}'
            obs = xp_eval(e, pv, ver, variables)
            n_eval += 1
            if obs != ('val', exp['b']):
                fail('xp_castable', ('says_false' if exp['b'] else 'says_true') if obs[0] == 'val' else f'{obs[0]}:{obs[1]}', obs, e)
        else:
            for path, e in (('xp_cast', f'{expr} cast as xs:{T}'), ('xp_ctor', f'xs:{T}({expr})')):
                obs = xp_eval(e, pv, ver, variables)
                n_eval += 1
                out = judge(exp, obs, ver, True)
                if out is not None:
                    fail(path, out, obs, e)
    return n_eval, fails


# ---- operand forms x XPath versions (spec/CastForms.tla) -----------------------------------

FORM_PARSERS = ['2.0', '3.0', '3.1']


def form_operand(form: str, text: str) -> str:
    """the operand E of a case, written in the given form (dumb rendering; the literal has no quotes)"""
    h = len(text) // 2
    return {'literal': f"'{text}'", 'string_ctor': f"xs:string('{text}')", 'untyped_ctor': f"xs:untypedAtomic('{text}')",
            'variable': '$s', 'concat': f"concat('{text[:h]}', '{text[h:]}')", 'string_fn': 'string(@a)',
            'attribute': '@a', 'element': '.'}[form]


def form_eval(expr: str, pv: str, ver: str, text: str):
    """evaluate on <e a="text">text</e> (built in memory: no attribute-value normalisation) with $s = text"""
    import xml.etree.ElementTree as ET
    import elementpath
    from elementpath.exceptions import ElementPathError
    if 'form_parsers' not in _state:
        from elementpath import XPath2Parser
        from elementpath.xpath30 import XPath30Parser
        from elementpath.xpath31 import XPath31Parser
        _state['form_parsers'] = {'2.0': XPath2Parser, '3.0': XPath30Parser, '3.1': XPath31Parser}
    root = ET.Element('e')
    root.set('a', text)
    root.text = text
    try:
        r = elementpath.select(root, expr, namespaces=NS, parser=_state['form_parsers'][pv], xsd_version=ver,
                               variables={'s': text})
    except ElementPathError as e:
        return ('err', (e.code or '').split(':')[-1])
    except RecursionError:
        return ('escaped', 'RecursionError')
    except Exception as e:   # noqa
        return ('escaped', type(e).__name__)
    if isinstance(r, list):
        if len(r) != 1:
            return ('seq', len(r))
        r = r[0]
    return ('val', r)


def form_exprs(form: str, T: str, text: str) -> dict:
    e = form_operand(form, text)
    return {'xp_cast': f'{e} cast as xs:{T}', 'xp_castable': f'{e} castable as xs:{T}', 'xp_ctor': f'xs:{T}({e})'}


def form_check(case, out):
    """-> list of (path, outcome, observed); empty when the three paths conform and agree"""
    pv, ver, form, T, text = case['pv'], case['ver'], case['form'], case['t'], text_of(case['ts'])
    ex = form_exprs(form, T, text)
    obs = {p: form_eval(e, pv, ver, text) for p, e in ex.items()}
    bad = []
    if out['mode'] == 'spec':
        for p in ('xp_cast', 'xp_ctor'):
            o = judge(out['cast' if p == 'xp_cast' else 'ctor'], obs[p], ver, True)
            if o is not None:
                bad.append((p, o, obs[p]))
        if obs['xp_castable'] != ('val', out['castable']):
            o = obs['xp_castable']
            bad.append(('xp_castable', ('says_false' if out['castable'] else 'says_true') if o[0] == 'val' else f'{o[0]}:{o[1]}', o))
    if not bad:
        # agreement of the three paths with each other, whatever the specification says about the value
        c, k, b = obs['xp_cast'], obs['xp_ctor'], obs['xp_castable']
        agree = b == ('val', c[0] == 'val') and (c[0] == 'val') == (k[0] == 'val') and c[0] in ('val', 'err') and k[0] in ('val', 'err')
        if agree and c[0] == 'val':
            try:
                agree = type(c[1]) is type(k[1]) and (c[1] == k[1] or (c[1] != c[1] and k[1] != k[1]))
            except Exception:   # noqa
                agree = False
        if not agree:
            bad.append(('three_paths', 'disagree', obs))
    return bad, 3


def forms_worker(job):
    fails, n = [], 0
    for case, out in job:
        bad, k = form_check(case, out)
        n += k
        text = text_of(case['ts'])
        for path, outcome, observed in bad:
            feat = dict(action='Forms', family=FAM_OF[case['t']], type=case['t'], form=case['form'], parser=case['pv'],
                        xsd=case['ver'], path=path, outcome=outcome, trait=traits(text, FAM_OF[case['t']]),
                        src_prim='uA' if case['form'] in ('untyped_ctor', 'attribute', 'element') else 'str',
                        mode=out['mode'], exp_code=out['cast'].get('code', '-'),
                        expected='err' if out['cast']['k'] == 'err' else 'value')
            if outcome.startswith('wrong_class:'):
                feat.update(outcome='wrong_class', obs_class=outcome.split(':')[1])
            fails.append((feat, dict(kind='forms', case=dict(case), out=dict(out)), out, observed,
                          f"{form_exprs(case['form'], case['t'], text)[path if path != 'three_paths' else 'xp_cast']} "
                          f"(XPath {case['pv']}, XSD {case['ver']}, $s/@a/text = {text!r})"))
    return n, fails


def run_forms(chk: core.Check) -> None:
    wd = os.path.join(chk.scratch, 'forms')
    dot = os.path.join(wd, 'g.dot')
    consts = dict(PVs=set(FORM_PARSERS), Versions={'1.0', '1.1'})
    cfg = tla.cfg_text(consts, invariants=['LawForms'])
    r = tla.require_ok(tla.run_tlc('CastForms', cfg, wd, dump_dot=dot, workers=int(os.environ.get('VERIF_TLC_WORKERS', '16'))),
                       'CastForms', min_distinct=100)
    chk.model('CastForms', r)
    chk.coverage.setdefault('constants', {})['forms'] = core.jsonable(consts)
    g = tla.load_dot(dot)
    os.remove(dot)
    jobs = [(g.states[s]['cs'], g.states[d]['cs']) for s, d, a, args in g.edges if a == 'Judge']
    if not jobs or {c['pv'] for c, o in jobs} != set(FORM_PARSERS) or not any(o['cast']['k'] != 'err' for c, o in jobs):
        raise tla.MachineryError('CastForms: vacuous case set')
    jobs.sort(key=lambda j: (j[0]['pv'], j[0]['ver'], j[0]['t'], j[0]['form'], j[0]['ts']))
    chk.add('transitions', len(g.edges))
    chk.add('traces_validated_against_impl', len(jobs))
    chk.add('distinct_nontrivial', len({(c['pv'], c['form'], c['t'], o) for c, o in jobs}))
    c, o = jobs[len(jobs) // 2]
    chk.sample(dict(action='Forms', case=c, expected=o, exprs=form_exprs(c['form'], c['t'], text_of(c['ts']))))
    for n, fails in core.pool_map(forms_worker, core.chunked(jobs, 32)):
        chk.add('evaluations', n)
        for feat, case, exp, obs, what in fails:
            chk.fail(feat, case, exp, obs, what=what)
    print(f'  forms: states={r.distinct} cases={len(jobs)} tlc={r.wall_s:.1f}s', flush=True)


def replay(rec: dict) -> int:
    """re-run one recorded case on the working tree and judge it against the recorded expected state"""
    core.setup_repo_path()
    from elementpath.datatypes import UntypedAtomic
    case, exp = rec['case'], rec['expected']
    print('case     :', case)
    print('expected :', exp)
    out = None
    if case['kind'] == 'forms':
        bad, _ = form_check(case['case'], case['out'])
        print('observed :', bad)
        if bad:
            print(f'VIOLATION property=C10 replay=(replayed) outcome={bad[0][1]}')
            return 1
        print('agrees with the specification now')
        return 0
    if case['kind'] == 'construct':
        T, text, ver, path = case['type'], text_of(case['tokens']), case['xsd'], case['path']
        pv = case.get('parser', '3.1')
        canon = case.get('canon')
        valid = exp['k'] != 'err'
        exprs = {'xp_ctor': (f'xs:{T}($s)', 's'), 'xp_ctor_u': (f'xs:{T}($u)', 'u'), 'xp_cast': (f'$s cast as xs:{T}', 's'),
                 'xp_cast_u': (f'$u cast as xs:{T}', 'u'), 'xp_castable': (f'$s castable as xs:{T}', 's'),
                 'xp_castable_u': (f'$u castable as xs:{T}', 'u'), 'xp_string': (f'string(xs:{T}($s))', 's'),
                 'xp_reparse': (f'xs:{T}(string(xs:{T}($s)))', 's')}
        if path == 'py_ctor':
            obs = py_construct(T, text, ver)
            out = judge(exp, obs, ver, False)
        elif path == 'py_str':
            obs = py_construct(T, text, ver)
            obs = ('val', str(obs[1])) if obs[0] == 'val' else obs
            out = None if obs == ('val', canon) else 'wrong_canonical'
        elif path == 'py_reparse':
            first = py_construct(T, text, ver)
            obs = py_construct(T, str(first[1]), ver) if first[0] == 'val' else first
            out = judge(exp, obs, ver, False)
            if out is None and not (obs[1] == first[1] and hash(obs[1]) == hash(first[1])):
                out = 'unequal_or_hash'
        elif path == 'py_is_valid':
            obs = py_is_valid(T, text, ver)
            out = None if obs == ('val', valid or exp.get('code') == 'FONS0004') else 'is_valid'
        else:
            e, var = exprs[path]
            obs = xp_eval(e, pv, ver, {var: text if var == 's' else UntypedAtomic(text)})
            print('expr     :', e, 'with $' + var, '=', repr(text), 'parser', pv, 'xsd', ver)
            if path.startswith('xp_castable'):
                out = None if obs == ('val', valid) else 'castable'
            elif path == 'xp_string':
                out = None if obs == ('val', canon) else 'wrong_canonical'
            else:
                out = judge(exp, obs, ver, True)
        print('observed :', obs)
    elif case['kind'] == 'chain':
        obs = xp_eval(case['expr'], case['parser'], case['xsd'], {'s': case['s']})
        print('expr     :', case['expr'], 'with $s =', repr(case['s']), 'parser', case['parser'], 'xsd', case['xsd'])
        print('observed :', obs)
        if case['action'] == 'ToStr':
            out = None if obs == ('val', text_of(exp['s'])) and type(obs[1]) is str else 'wrong_canonical'
        elif case['action'] == 'Castable':
            out = None if obs == ('val', exp['b']) else 'castable'
        else:
            out = judge(exp, obs, case['xsd'], True)
    else:
        T, ver = case['type'], case['xsd']
        a, b = py_construct(T, text_of(case['a']), ver), py_construct(T, text_of(case['b']), ver)
        print('observed :', a, b)
        if not (a[0] == b[0] == 'val' and a[1] == b[1] and hash(a[1]) == hash(b[1])):
            out = 'unequal or different hashes'
    if out is not None:
        print(f'VIOLATION property=C10 replay=(replayed) outcome={out}')
        return 1
    print('agrees with the specification now')
    return 0


# ---------------------------------------------------------------------------------------

def facet_of(T, tokens, exp, int_ok) -> str:
    """which facet decides this literal (abstract, from the graph): whitespace if normalisation
    changes the literal, bounds if the literal is an xs:integer outside the subtype's range"""
    if exp['k'] == 'err' and T in INT_TYPES and T != 'integer' and \
            (int_ok or re.fullmatch(r'[+-]?[0-9]+', _collapse(text_of(tokens)))):
        return 'bounds'
    if any(t in WS_TOKENS for t in tokens):
        return 'whitespace'
    return 'lexical'


def run(chk: core.Check) -> None:
    core.setup_repo_path()
    chk.assumptions += [
        'spec/Lexical+Canon+CastTable+CastChain are the oracle; W3C regular expressions of XSD 1.1 Part 2 (python re), decimal, float, bytes.fromhex and base64 cross-check the SPEC only',
        'adjudication by XSD 1.1 Part 2 sections 3.3/3.4/4.3.6 and XPath F&O 3.1 section 19 (no second implementation exists for most types)',
        'alphabet representatives only for Name/NCName/language/anyURI character classes; xs:untypedAtomic -> xs:QName is judged for the agreement of cast / castable / constructor only, xs:NOTATION is not exercised',
        'double/float values with more than 15 significant digits and xs:float -> xs:double widening are compared approximately and are terminal; xs:float subnormals not enumerated',
        'error codes compared only between FORG0001 and FOCA0002; otherwise only value vs ElementPathError',
    ]
    for name, consts in TIERS[chk.tier]:
        wd = os.path.join(chk.scratch, name)
        dot = os.path.join(wd, 'g.dot')
        cfg = tla.cfg_text(consts, invariants=['Laws'])
        r = tla.require_ok(tla.run_tlc('CastChain', cfg, wd, dump_dot=dot, workers=int(os.environ.get('VERIF_TLC_WORKERS', '16'))),
                           f'CastChain/{name}', min_distinct=100)
        chk.model(f'CastChain/{name}', r)
        chk.coverage.setdefault('constants', {})[name] = core.jsonable(consts)
        g = tla.load_dot(dot)
        os.remove(dot)
        # anti-vacuity: every action fired; every type has accepted and (unless it accepts every string) rejected literals
        fired = {a for _, _, a, _ in g.edges}
        need = {'Pick', 'Construct', 'ToStr'} | ({'Cast', 'Castable'} if consts['Targets'] else set())
        if need - fired:
            raise tla.MachineryError(f'CastChain/{name}: actions never fired: {sorted(need - fired)}')
        # canonical string of every value state = destination of its ToStr edge
        canon_of = {}
        for s, d, a, args in g.edges:
            if a == 'ToStr':
                canon_of[s] = text_of(g.states[d]['val']['s'])
        # ---- Construct edges
        # a Construct edge leaves a literal state [k |-> "lit", t, ts]
        cons = [(s, d, (g.states[s]['val']['t'], g.states[s]['val']['ts'])) for s, d, a, args in g.edges if a == 'Construct']
        cons.sort(key=lambda e: (g.states[e[0]]['ver'], e[2][0], len(e[2][1]), e[2][1]))
        int_valid = {(g.states[s]['ver'], args[1]) for s, d, args in cons
                     if args[0] == 'integer' and g.states[d]['val']['k'] != 'err'}
        jobs = []
        for i, (s, d, args) in enumerate(cons):
            T, tokens = args
            ver = g.states[s]['ver']
            exp = g.states[d]['val']
            jobs.append((i, T, tokens, ver, exp, canon_of.get(d), facet_of(T, tokens, exp, (ver, tokens) in int_valid)))
        n_cons = len(jobs)
        seen_ok = {(j[1], j[3]) for j in jobs if j[4]['k'] != 'err'}
        seen_bad = {(j[1], j[3]) for j in jobs if j[4]['k'] == 'err'}
        for T in sorted(t for f in consts['Fams'] for t in FAM_TYPES[f]):
            for ver in sorted(consts['Versions']):
                if T == 'dateTimeStamp' and ver == '1.0':
                    continue
                if (T, ver) not in seen_ok or ((T, ver) not in seen_bad and T not in
                                               ('string', 'normalizedString', 'token', 'untypedAtomic', 'anyURI')):
                    raise tla.MachineryError(f'CastChain/{name}: vacuous literal set for xs:{T} under XSD {ver}')
        chk.add('transitions', len(g.edges))
        chk.add('traces_validated_against_impl', n_cons)
        nontrivial = {(j[1], j[3], j[4]) for j in jobs}       # distinct (type, version, resulting value/error)
        chk.add('distinct_nontrivial', len(nontrivial))
        for j in jobs[:: max(1, n_cons // 5)][:5]:
            chk.sample(dict(action='Construct', type=j[1], literal=text_of(j[2]), xsd=j[3], expected=j[4], canonical=j[5]))
        results = core.pool_map(construct_worker, [(c, PARSERS[chk.tier]) for c in core.chunked(jobs, 128)])
        oracle_msgs = []
        passed = {}
        for n_eval, fails, omsgs, pas in results:
            chk.add('evaluations', n_eval)
            oracle_msgs += omsgs
            for feat, case, exp, obs in fails:
                chk.fail(feat, case, exp, obs, what=f"{case['path']} xs:{case['type']}({text_of(case['tokens'])!r})")
            for eid, ok_xp, py_ok in pas:
                passed[eid] = (ok_xp, py_ok)
        if oracle_msgs:
            raise tla.MachineryError(f'spec disagrees with the second oracle ({len(oracle_msgs)}): {oracle_msgs[:8]}')
        # equality / hash of equal values
        groups = {}
        for (i, T, tokens, ver, exp, canon, facet) in jobs:
            if passed.get(i, (None, False))[1] and exp['k'] != 'err':
                groups.setdefault((T, ver, exp), []).append(tokens)
        eq_jobs = [(T, ver, exp, members) for (T, ver, exp), members in groups.items() if len(members) > 1]
        for n, fails in (core.pool_map(eq_worker, core.chunked(eq_jobs, 32)) if eq_jobs else []):
            chk.add('evaluations', n)
            for feat, case, exp, obs, what in fails:
                chk.fail(feat, case, exp, obs, what=what)
        # ---- chains: BFS spanning tree through passing edges only
        hist = {}      # (state id, parser) -> (expr, text)
        chain_parsers = PARSERS[chk.tier]
        for pv in chain_parsers:
            for i, (s, d, args) in enumerate(cons):
                T, tokens = args
                if g.states[d]['val']['k'] in ('err',) or (T == 'QName' and pv == '2.0'):
                    continue
                if passed.get(i, ({}, None))[0].get(pv) and (d, pv) not in hist:
                    hist[(d, pv)] = (f'xs:{T}($s)', text_of(tokens))
        chain_edges = [(s, d, a, args) for s, d, a, args in g.edges if a not in ('Construct', 'Pick')]
        # coverage of the casting table: cells (source primitive, target primitive) and how many have >= 2 source values
        cells = {}
        for s, d, a, args in chain_edges:
            if a == 'Cast':
                c = cells.setdefault((PRIM[g.states[s]['val']['t']], PRIM[args[0]]), [set(), set()])
                c[0].add(s)
                c[1].add(g.states[d]['val']['k'] == 'err')
        if cells:
            chk.coverage['cast_cells'] = len(cells)
            chk.coverage['cast_cells_two_values'] = sum(1 for c in cells.values() if len(c[0]) >= 2)
            chk.coverage['cast_cells_both_outcomes'] = sum(1 for c in cells.values() if len(c[1]) == 2)
            if len(cells) < 22 * 22 and set(consts['Fams']) == set(ALL_FAMS):
                raise tla.MachineryError(f'CastChain/{name}: only {len(cells)} of 484 casting-table cells exercised')
        by_src = {}
        for e in chain_edges:
            by_src.setdefault(e[0], []).append(e)
        unreached = 0
        n_chain = 0
        for pv in chain_parsers:
            frontier = deque(sorted(s for (s, p) in hist if p == pv))
            done = set()
            while frontier:
                level = list(frontier)
                frontier.clear()
                batch = []
                for s in level:
                    if s in done:
                        continue
                    done.add(s)
                    expr, text = hist[(s, pv)]
                    src = g.states[s]['val']
                    ver = g.states[s]['ver']
                    cast_dst = {args[0]: g.states[d]['val'] for (_, d, a, args) in by_src.get(s, ()) if a == 'Cast'}
                    for (_, d, a, args) in by_src.get(s, ()):
                        T = args[0] if args else None
                        if T == 'QName' and (pv == '2.0' or src['t'] == 'untypedAtomic'):
                            continue
                        exp = g.states[d]['val']
                        if exp['k'] == 'err' and exp['code'] in ('LIMIT', 'UNSPEC'):
                            continue
                        code = cast_dst.get(T, {}).get('code', '-') if a == 'Castable' else exp.get('code', '-')
                        batch.append((expr, text, a, T, ver, src, exp, pv, code, d))
                res = core.pool_map(chain_worker, [[b[:9] for b in c] for c in core.chunked(batch, 64)]) if batch else []
                failed_exprs = set()
                for n_eval, fails in res:
                    chk.add('evaluations', n_eval)
                    for feat, case, exp, obs in fails:
                        failed_exprs.add((case['expr'], case['s']))
                        chk.fail(feat, case, exp, obs, what=f"{case['expr']} with $s = {case['s']!r}")
                n_chain += len(batch)
                for (expr, text, a, T, ver, src, exp, pv_, code_, d) in batch:
                    if a == 'Castable' or exp['k'] in ('err',) or (d, pv) in hist:
                        continue
                    if exp['k'] in ('dec', 'flo') and exp['ap']:
                        continue
                    e = f'string({expr})' if a == 'ToStr' else f'({expr} cast as xs:{T})'
                    probe = f'string({expr})' if a == 'ToStr' else f'{expr} cast as xs:{T}'
                    if (probe, text) in failed_exprs:
                        continue
                    hist[(d, pv)] = (e, text)
                    if by_src.get(d):
                        frontier.append(d)
            srcs = {s for s in by_src}
            unreached += len([s for s in srcs if (s, pv) not in hist])
        chk.add('traces_validated_against_impl', n_chain)
        chk.coverage['unreached_states'] = chk.coverage.get('unreached_states', 0) + unreached
        if chain_edges:
            e = chain_edges[len(chain_edges) // 3]
            chk.sample(dict(action=e[2], args=e[3], source=g.states[e[0]]['val'], expected=g.states[e[1]]['val']))
        print(f'  {name}: states={r.distinct} edges={len(g.edges)} construct={n_cons} chain={len(chain_edges)} '
              f'tlc={r.wall_s:.1f}s unreached={unreached}', flush=True)
    run_forms(chk)
    chk.coverage['exhaustive'] = True
    chk.coverage['rule'] = ('every edge of the TLC graph of CastChain: Construct(type, literal) for every token sequence <= MaxLen '
                            'over the family alphabet + probes, x XSD version; Cast/Castable/ToStr from every reached value. '
                            'distinct_nontrivial = distinct (type, XSD version, resulting value or error) triples of Construct edges')
