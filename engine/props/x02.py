"""X02 (extension, not one of the listed properties): xml:base scoping and fn:base-uri -- spec/BaseScope.tla.

TLC enumerates every element chain (xml:base absent / "" / absolute / relative references with and without '..'), the
focus kinds and the base URI the walking evaluator carries; the laws (definitional recursion on the parent, an absolute
xml:base cuts the dependence on the ancestors, absent/empty inherit, the authority changes only through an absolute
value) are TLC invariants.  Every state is replayed on the real code: the chain is rendered 1:1 as an XML document
loaded with uri='http://h1/d/doc.xml', for xml.etree and lxml, and fn:base-uri is asked from the focus node
  arg   string(base-uri(PATH))        2.0+
  step  PATH/string(base-uri())       2.0+
  let   let $n := PATH return string(base-uri($n))    3.0+
Second oracle for the SPEC: urllib.parse.urljoin folded over the rendered chain (disagreement = machinery error).
"""
from __future__ import annotations

import os

from engine import core, tla

LEVEL = 'model_checking'
INVS = ['TypeOK', 'InvDefinitional', 'InvAbsCuts', 'InvInherit', 'InvRoot']
KIND_STEP = {'elem': '', 'attr': '/@a', 'text': '/text()', 'comment': '/comment()', 'pi': '/processing-instruction()'}
VERSIONS = ('2.0', '3.0', '3.1')
DOC_URI = 'http://h1/d/doc.xml'


def ref_text(v):
    t = v['t']
    if t == 'none':
        return None
    if t == 'empty':
        return ''
    tail = ''.join(d + '/' for d in v['dirs']) + v['file']
    return (f"http://{v['root']}/" if t == 'abs' else '../' * v['up']) + tail


def uri_text(u) -> str:
    return f"http://{u['root']}/" + ''.join(d + '/' for d in u['dirs']) + u['file']


def render(chain) -> str:
    out, close = ['<r>'], ['</r>']
    for i, v in enumerate(chain, 1):
        ref = ref_text(v)
        base = '' if ref is None else f' xml:base="{ref}"'
        out.append(f'<e{i}{base} a="1">t<!--c--><?p d?>')
        close.append(f'</e{i}>')
    return ''.join(out) + ''.join(reversed(close))


def focus_path(chain, kind) -> str:
    if kind == 'doc':
        return '/'
    return '/r' + ''.join(f'/e{i}' for i in range(1, len(chain) + 1)) + KIND_STEP[kind]


_parsers: dict = {}
_tokens: dict = {}


def _token(version, expr):
    key = (version, expr)
    tok = _tokens.get(key)
    if tok is None:
        import elementpath
        p = _parsers.get(version)
        if p is None:
            cls = {'1.0': elementpath.XPath1Parser, '2.0': elementpath.XPath2Parser}.get(version)
            if cls is None:
                from elementpath.xpath30 import XPath30Parser
                from elementpath.xpath31 import XPath31Parser
                cls = XPath30Parser if version == '3.0' else XPath31Parser
            p = _parsers[version] = cls()
        tok = _tokens[key] = p.parse(expr)
    return tok


def ask(root, version, form, path):
    import elementpath
    expr = {'arg': f"string(base-uri({path}))", 'step': f"{path}/string(base-uri())",
            'let': f"let $n := ({path}) return string(base-uri($n))"}[form]
    try:
        tok = _token(version, expr)
        val = tok.evaluate(elementpath.XPathContext(root, uri=DOC_URI))
    except elementpath.ElementPathError as e:
        return ('err', getattr(e, 'code', None) or str(e)[:40]), expr
    except Exception as e:  # noqa: BLE001
        return ('escaped', type(e).__name__), expr
    if isinstance(val, list) and len(val) == 1:
        val = val[0]
    return (val if isinstance(val, str) else ('value', repr(val))), expr


def work(job):
    import io
    import xml.etree.ElementTree as ET
    from urllib.parse import urljoin
    from lxml import etree as LET
    out = []
    for chain, kind, want in job:
        text = render(chain)
        path = focus_path(chain, kind)
        b = DOC_URI
        for v in chain:
            ref = ref_text(v)
            if ref is not None:
                b = urljoin(b, ref)
        if b != want:
            out.append(('oracle', chain, kind, want, b))
        lroot = LET.parse(io.BytesIO(text.encode()))
        eroot = ET.parse(io.StringIO(text), ET.XMLParser(target=ET.TreeBuilder(insert_comments=True, insert_pis=True)))
        for lib, root in (('etree', eroot), ('lxml', lroot)):
            for version in VERSIONS:
                for form in (('arg', 'step') if version == '2.0' else ('arg', 'step', 'let')):
                    if form == 'step' and kind == 'doc':
                        continue
                    got, expr = ask(root, version, form, path)
                    out.append(('ok' if got == want else 'bad', chain, kind, want, got, lib, version, form, expr))
    return out


def features(chain, kind, want, got, lib, version, form):
    last = chain[-1]['t'] if chain else 'doc'
    return {'family': 'base-uri', 'kind': kind, 'form': form, 'version': version, 'lib': lib, 'last': last,
            'observed': 'value' if isinstance(got, str) else got[0], 'depth': len(chain),
            'has_abs': any(v['t'] == 'abs' for v in chain), 'has_up': any(v['t'] == 'rel' and v['up'] for v in chain)}


def run(chk: core.Check) -> None:
    consts = {'MaxDepth': 3, 'Wide': chk.tier != 'quick'}
    wd = os.path.join(chk.scratch, 'base')
    dot = os.path.join(wd, 'g.dot')
    r = tla.require_ok(tla.run_tlc('BaseScope', tla.cfg_text(consts, invariants=INVS), wd, dump_dot=dot, coverage=True),
                       'BaseScope', min_distinct=300)
    chk.model('BaseScope/' + chk.tier, r)
    g = tla.load_dot(dot)
    chk.add('transitions', len(g.edges))
    jobs = []
    distinct = set()
    for st in g.states.values():
        want = uri_text(st['cur'])
        distinct.add(want)
        jobs.append((tuple(dict(v) for v in st['chain']), st['kind'], want))
    if len(distinct) < 20:
        raise tla.MachineryError('BaseScope: too few distinct base URIs (vacuous)')
    n = 0
    for out in core.pool_map(work, core.chunked(jobs, 12)):
        for rec in out:
            if rec[0] == 'oracle':
                raise tla.MachineryError(f'BaseScope disagrees with urljoin: {rec}')
            n += 1
            if rec[0] == 'bad':
                _, chain, kind, want, got, lib, version, form, expr = rec
                chk.fail(features(chain, kind, want, got, lib, version, form),
                         {'xml': render(chain), 'expr': expr, 'lib': lib, 'version': version}, want, got,
                         f"fn:base-uri from {kind} focus")
            elif n % 4000 == 1:
                chk.sample({'xml': render(rec[1]), 'expr': rec[8], 'lib': rec[5], 'version': rec[6], 'value': rec[4]})
    chk.add('evaluations', n)
    chk.add('traces_validated_against_impl', len(jobs))
    chk.add('distinct_nontrivial', len(distinct))
    chk.coverage['rule'] = 'every state of BaseScope (chain of xml:base settings x focus kind) x forms x versions x 2 tree libraries'
    chk.coverage['exhaustive'] = True
    chk.coverage['constants'] = consts
    chk.assumptions += ['references are absolute http URIs, the empty reference, or relative paths with leading ../ segments only',
                        'the document is given an absolute URI (uri= argument); relative xml:base without an absolute base is implementation-defined']


def replay(rec) -> int:
    import io
    import xml.etree.ElementTree as ET
    from lxml import etree as LET
    import elementpath
    core.setup_repo_path()
    c = rec['case']
    root = ET.parse(io.StringIO(c['xml']), ET.XMLParser(target=ET.TreeBuilder(insert_comments=True, insert_pis=True))) \
        if c['lib'] == 'etree' else LET.parse(io.BytesIO(c['xml'].encode()))
    val = _token(c['version'], c['expr']).evaluate(elementpath.XPathContext(root, uri=DOC_URI))
    print('expected', rec['expected'], 'observed', val)
    return 0
